// append to proxy_agent/src/shared_state/key_keeper_wrapper.rs; cargo test -p azure-proxy-agent verif_replay_c10

#[cfg(test)]
mod verif_replay_c10 {
    use crate::key_keeper::key::Key;
    use crate::shared_state::key_keeper_wrapper::KeyKeeperSharedState;

    fn key(guid: &str, value: &str) -> Key {
        let mut k = Key::empty();
        k.guid = guid.to_string();
        k.key = value.to_string();
        k
    }

    // Schedule found by the solver: [SetKey(A)] value-read, SetKey(B), guid-read  -- the exact message order the two
    // separate getters of a signing site allow.  The pair used for one signature must belong to ONE key.
    #[tokio::test(flavor = "current_thread")]
    async fn c10_value_and_guid_reads_straddle_a_rotation() {
        let ks = KeyKeeperSharedState::start_new();
        ks.update_key(key("guid-A", "AAAA")).await.unwrap();
        let value = ks.get_current_key_value().await.unwrap();
        ks.update_key(key("guid-B", "BBBB")).await.unwrap();
        let guid = ks.get_current_key_guid().await.unwrap();
        let consistent = (value.as_deref() == Some("AAAA") && guid.as_deref() == Some("guid-A"))
            || (value.as_deref() == Some("BBBB") && guid.as_deref() == Some("guid-B"))
            || (value.is_none() && guid.is_none());
        assert!(consistent, "authorization header would pair key id {:?} with the secret {:?}", guid, value);
    }
}
