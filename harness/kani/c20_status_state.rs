// C20 (engine K): StatusState::update_state, injected as a child module of
// proxy_agent_extension/src/common.rs so that the private fields can be made symbolic.
use super::*;

const SUCC: u8 = 0;
const TRANS: u8 = 1;
const ERR: u8 = 2;
const OTHER: u8 = 3;

fn state_string(sel: u8) -> String {
    match sel {
        SUCC => constants::SUCCESS_STATUS.to_string(),
        TRANS => constants::TRANSITIONING_STATUS.to_string(),
        ERR => constants::ERROR_STATUS.to_string(),
        _ => String::new(),
    }
}

fn classify(s: &str) -> u8 {
    if s == constants::SUCCESS_STATUS {
        SUCC
    } else if s == constants::TRANSITIONING_STATUS {
        TRANS
    } else if s == constants::ERROR_STATUS {
        ERR
    } else {
        OTHER
    }
}

// Representation invariant I. `real_fails` is a ghost: the true number of consecutive failed
// observations (unbounded in reality, u64 here); the counter must equal min(real_fails, MAX).
fn inv(s: &StatusState, sel: u8, real_fails: u64) -> bool {
    let f = s.consecutive_fail_count;
    let k = s.consecutive_success_count;
    sel <= ERR
        && s.transition_to_error_threshold == 20
        && f <= StatusState::MAX_CONSECUTIVE_COUNT
        && k <= StatusState::MAX_CONSECUTIVE_COUNT
        && (f == 0 || k == 0)
        && (f as u64) == core::cmp::min(real_fails, StatusState::MAX_CONSECUTIVE_COUNT as u64)
        && (sel != ERR || f >= 20)
        && (sel != SUCC || f == 0)
}

fn any_state() -> (StatusState, u8, u64) {
    let sel: u8 = kani::any();
    kani::assume(sel <= ERR);
    let s = StatusState {
        current_state: state_string(sel),
        consecutive_fail_count: kani::any(),
        consecutive_success_count: kani::any(),
        transition_to_error_threshold: kani::any(),
    };
    let real: u64 = kani::any();
    kani::assume(real < u64::MAX - 4);
    kani::assume(inv(&s, sel, real));
    (s, sel, real)
}

#[kani::proof]
#[kani::unwind(16)]
fn c20_initial_state_satisfies_invariant() {
    let s = StatusState::new();
    let sel = classify(&s.current_state);
    assert!(sel == TRANS);
    assert!(inv(&s, sel, 0));
    let d = StatusState::default();
    assert!(classify(&d.current_state) == TRANS && inv(&d, TRANS, 0));
    let x: bool = kani::any();
    kani::cover!(x);
}

// One step from ANY state satisfying I: I is preserved and the step obeys the hysteresis contract.
// By induction this covers observation histories of every length, including saturated counters.
#[kani::proof]
#[kani::unwind(16)]
fn c20_step_preserves_invariant_and_contract() {
    let (mut s, sel, real) = any_state();
    let ok: bool = kani::any();
    let out = s.update_state(ok);
    let new_real = if ok { 0 } else { real + 1 };
    let nsel = classify(&out);
    assert!(nsel <= ERR, "result is one of the three status strings");
    assert!(classify(&s.current_state) == nsel, "returned string is the stored state");
    assert!(inv(&s, nsel, new_real), "invariant preserved");
    if ok {
        assert!(nsel != ERR, "never Error directly after a success");
        if sel == ERR {
            assert!(nsel == TRANS, "one success moves the report away from Error");
        }
    }
    if nsel == ERR {
        assert!(!ok && new_real >= 20, "Error only with >= 20 consecutive failures");
    }
    if sel != ERR && nsel == ERR {
        assert!(sel == TRANS, "Error is entered from Transitioning only");
    }
    kani::cover!(nsel == ERR && sel == TRANS);
    kani::cover!(sel == ERR && nsel == TRANS);
    kani::cover!(s.consecutive_fail_count == StatusState::MAX_CONSECUTIVE_COUNT && real > 20000);
}

#[kani::proof]
#[kani::unwind(16)]
fn c20_two_successes_yield_success() {
    let (mut s, sel, _real) = any_state();
    let _ = s.update_state(true);
    let out = s.update_state(true);
    assert!(classify(&out) == SUCC, "two consecutive successes always yield Success");
    kani::cover!(sel == ERR);
}

#[kani::proof]
#[kani::unwind(16)]
fn c20_unknown_state_string_recovers() {
    // a state string that is none of the three constants (empty string here) goes to Transitioning
    let mut s = StatusState {
        current_state: String::new(),
        consecutive_fail_count: 0,
        consecutive_success_count: 0,
        transition_to_error_threshold: 20,
    };
    let ok: bool = kani::any();
    let out = s.update_state(ok);
    assert!(classify(&out) == TRANS);
    kani::cover!(!ok);
}

// vacuity twin: must come back FAILED (threshold is 20, not 21)
#[kani::proof]
#[kani::unwind(16)]
fn c20_twin_must_fail_status_state() {
    let (mut s, _sel, real) = any_state();
    let out = s.update_state(false);
    if classify(&out) == ERR {
        assert!(real + 1 >= 21);
    }
}
