"""Build SMT-LIB string terms from mirsym values: format!() templates, to_lowercase, trim, conversions."""
import re
from mirsym import *
import smtstr

LOWER = re.compile(r"(str::to_lowercase|String::to_lowercase|to_ascii_lowercase)$")
IDENT = re.compile(r"(as_str|as_ref|deref|borrow|to_string|to_owned|clone|into|from|as_bytes)$")


def unescape_bytes_const(text):
    """MIR `b"..."` constant text -> bytes"""
    m = re.match(r'^b"(.*)"$', text, re.S)
    if not m:
        return None
    s = m.group(1)
    out = bytearray()
    i = 0
    while i < len(s):
        c = s[i]
        if c == "\\":
            n = s[i + 1]
            if n == "x":
                out.append(int(s[i + 2:i + 4], 16)); i += 4; continue
            mp = {"n": 10, "r": 13, "t": 9, "\\": 92, '"': 34, "'": 39, "0": 0}
            if n in mp:
                out.append(mp[n]); i += 2; continue
            raise Inconclusive("unknown escape in bytes constant")
        out += c.encode("utf-8")
        i += 1
    return bytes(out)


def parse_fmt_template(b):
    """rustc's compact fmt::Arguments template: <len><literal bytes> | 0xC0 (= next argument, plain `{}`) ... 0x00.
    -> list of ('lit', str) | ('arg',)   (anything else -> Inconclusive)"""
    out, i = [], 0
    while i < len(b):
        c = b[i]
        if c == 0:
            if i != len(b) - 1:
                raise Inconclusive("fmt template: data after terminator")
            return out
        if c == 0xC0:
            out.append(("arg",)); i += 1; continue
        if c < 0x80:
            out.append(("lit", b[i + 1:i + 1 + c].decode("utf-8"))); i += 1 + c; continue
        raise Inconclusive("fmt template: unsupported placeholder byte 0x%02x" % c)
    return out


class TermBuilder:
    def __init__(self, events, leaf):
        self.events = events
        self.leaf = leaf            # callable(value) -> SMT-LIB variable name or None
        self.vars = set()

    def ev_of(self, sym):
        for e in self.events:
            if e.ret is sym:
                return e
        return None

    def term(self, v, depth=0):
        if depth > 30:
            raise Inconclusive("term too deep")
        if isinstance(v, Ref) and v.frame is None:
            v = v.val.v if isinstance(v.val, Cell) else v.val
        if isinstance(v, StrV):
            return smtstr.lit(v.e.as_string())
        if isinstance(v, Agg) and v.name == "fmt::Formatted":
            return self.term(v.fields[0], depth + 1)
        if isinstance(v, Agg) and v.name == "fmt::Arguments":
            tmpl = v.fields[0]
            tb = unescape_bytes_const(tmpl.text) if isinstance(tmpl, ConstV) else None
            if tb is None:
                raise Inconclusive("format template is not a bytes constant: %r" % (tmpl,))
            parts = parse_fmt_template(tb)
            args = []
            if len(v.fields) > 1:
                arr = v.fields[1]
                if isinstance(arr, Agg):
                    args = [a.fields[0] if isinstance(a, Agg) and a.name == "fmt::Argument" else a for a in arr.fields]
            out, k = [], 0
            for p in parts:
                if p[0] == "lit":
                    out.append(smtstr.lit(p[1]))
                else:
                    if k >= len(args):
                        raise Inconclusive("format template has more placeholders than arguments")
                    out.append(self.term(args[k], depth + 1)); k += 1
            if not out:
                return '""'
            return out[0] if len(out) == 1 else "(str.++ %s)" % " ".join(out)
        nm = self.leaf(v)
        if nm is not None:
            self.vars.add(nm)
            return nm
        if isinstance(v, Sym) and isinstance(v.tag, tuple):
            if v.tag[0] == "conv":
                return self.term(v.tag[2], depth + 1)
            if v.tag[0] == "part" and v.tag[2] == "*":
                return self.term(v.tag[1], depth + 1)
            if v.tag[0] == "ret":
                e = self.ev_of(v)
                if e is not None and e.rargs:
                    if LOWER.search(v.tag[1]):
                        return "(str.to_lower %s)" % self.term(e.rargs[0], depth + 1)
                    if IDENT.search(v.tag[1]):
                        return self.term(e.rargs[0], depth + 1)
        raise Inconclusive("cannot express %r as a string term" % (v,))
