"""C18 telemetry is delivered at most once, well-formed, in bounded batches (engine M + z3 finite string encoding). DESIGN.md 4/C18."""
from mcommon import *
from p_c08 import derives, implied

SPECIAL = {"&": "&amp;", "<": "&lt;", ">": "&gt;", "'": "&apos;", '"': "&quot;"}


def xml_escape_chain(rep, ctx):
    """Read the replace chain of helpers::xml_escape from MIR: [(char, replacement)], each applied to the previous result."""
    path = ctx.one("helpers::xml_escape")
    eng = ctx.engine()
    paths = eng.explore(path)
    rep.functions_encoded.append(path)
    if len(paths) != 1 or paths[0].status != "return":
        return None
    r = paths[0]
    reps = [e for e in r.events if e.kind == "call" and re.search(r"str>::replace$|str::replace$|::replace$", e.callee)]
    chain = []
    prev = r.args[0]
    ok = True
    for e in reps:
        src, pat, to = e.rargs[0], e.rargs[1], e.rargs[2]
        if not (isinstance(pat, ConstV) and re.match(r"^'(\\?.)'$", pat.text) and isinstance(origin(to), StrV)):
            raise Inconclusive("xml_escape: a replace() with a non-char pattern or non-literal replacement: %r -> %r" % (pat, to))
        ch = pat.text[1:-1]
        ch = {"\\'": "'", '\\"': '"', "\\\\": "\\"}.get(ch, ch)
        if not derives(src, prev, r.events):
            ok = False
        chain.append((ch, origin(to).e.as_string()))
        prev = e.ret
    if not derives(r.ret, prev, r.events) and not same_origin(r.ret, prev):
        ok = False
    rep.add(Query("xml_escape is a chain of single-character replacements, each applied to the previous result, and returns the last one: %s" % chain, "holds" if ok and chain else "violated", "", 0, "mirsym",
                  key="C18.escape.chain", reproduced=None))
    return chain


def xml_escape_charloop(rep, ctx):
    """xml_escape written as one pass over the characters: {printable ASCII char: image}, read from the paths of ONE loop iteration
    (the character is symbolic; for each of the 95 characters the solver selects the path it takes), plus the loop-shape obligation."""
    path = ctx.one("helpers::xml_escape")
    eng = ctx.engine(loop_bound=2, max_paths=4000)
    paths = [r for r in eng.explore(path) if r.status == "return"]
    one = []
    shape_ok = True
    for r in paths:
        nx = [e for e in r.events if e.kind == "call" and re.search(r"Chars<'_> as Iterator>::next$|Chars as Iterator>::next$|Chars<.*>::next$", e.callee)]
        some = [e for e in nx if check_sat(r.pc + [e.ret.discr() == 1])[0] == "sat" and implied(r, e.ret.discr() == 1)]
        if len(some) != 1 or len(nx) != 2:
            continue
        ch = eng.fresh  # noqa (placeholder to keep flake quiet)
        c = some[0].ret.child(("v", "Some", 0))
        pushes = [e for e in r.events if e.kind == "call" and re.search(r"String::(push_str|push)$", e.callee)]
        bufs = [e for e in r.events if e.kind == "call" and re.search(r"String::(with_capacity|new)$", e.callee)]
        chars = [e for e in r.events if e.kind == "call" and re.search(r"str::chars$|String::chars$|::chars$", e.callee)]
        if not (bufs and chars and same_origin(r.ret, bufs[0].ret) and all(same_origin(p_.rargs[0], bufs[0].ret) for p_ in pushes) and derives(chars[0].rargs[0], r.args[0], r.events)):
            shape_ok = False
        one.append((r, c, pushes))
    if not one:
        return None
    imgmap = {}
    undecided = []
    for k in range(0x20, 0x7f):
        hit = None
        for (r, c, pushes) in one:
            cv = c.scalar("char") if hasattr(c, "scalar") else None
            try:
                zc = eng.to_z3(c, "char")
            except Exception:
                zc = cv
            rs, _m, _dt, _zm = check_sat(r.pc + [zc == z3.BitVecVal(k, zc.size())])
            if rs == "sat":
                out = ""
                okp = True
                for p_ in pushes:
                    a = p_.rargs[1]
                    if p_.callee.endswith("push_str") and isinstance(origin(a), StrV):
                        out += origin(a).e.as_string()
                    elif p_.callee.endswith("::push") and same_origin(a, c):
                        out += chr(k)
                    elif p_.callee.endswith("::push") and isinstance(a, Scalar) and z3.is_bv_value(z3.simplify(a.e)):
                        out += chr(z3.simplify(a.e).as_long())
                    else:
                        okp = False
                if not okp:
                    undecided.append(chr(k))
                hit = out
                break
        if hit is None:
            undecided.append(chr(k))
        else:
            imgmap[chr(k)] = hit
    if undecided:
        raise Inconclusive("xml_escape (character loop): image of %r not readable from the paths" % undecided[:5])
    rep.add(Query("xml_escape is one pass over the characters of its argument appending each character's image to an initially empty buffer that it returns; images read for all 95 printable ASCII characters "
                  "(non-identity: %s)" % {k: v for k, v in imgmap.items() if k != v}, "holds" if shape_ok else "violated", "%d one-character paths" % len(one), 0, "mirsym+z3", key="C18.escape.chain", reproduced=None))
    return imgmap


def image(chain, s):
    if isinstance(chain, dict):
        return "".join(chain.get(ch, ch) for ch in s)
    for ch, to in chain:
        s = s.replace(ch, to)
    return s


def check_escape(rep, ctx, tier):
    chain = xml_escape_chain(rep, ctx)
    if chain is None:
        chain = xml_escape_charloop(rep, ctx)       # the same function written as a loop over the characters
        if chain is None:
            raise Inconclusive("xml_escape is neither a chain of replace() calls nor a single pass over the characters")
    N = 3 if tier == "quick" else 6
    # per-character image as a z3 term: ITE over the characters the chain mentions (their images computed by running the chain
    # on the one-character string, which is exact because every pattern is a single character)
    if isinstance(chain, dict):
        mentioned = sorted(set(chain) | set(SPECIAL))
    else:
        mentioned = sorted({c for c, _t in chain} | set("".join(t for _c, t in chain)) | set(SPECIAL))
    x = z3.String("c")
    s = z3.Solver()

    def img(x):
        e = x
        for c in mentioned:
            e = z3.If(x == z3.StringVal(c), z3.StringVal(image(chain, c)), e)
        return e
    s.add(z3.Length(x) == 1, z3.StrToCode(x) >= 0x20, z3.StrToCode(x) <= 0x7e)

    def q(name, cond, key):
        s.push(); s.add(cond)
        t0 = time.time(); r = s.check(); dt = time.time() - t0
        if r == z3.unsat:
            rep.add(Query(name + " (every printable-ASCII character; a text's output is the concatenation of its characters' images)", "holds", "", dt, "z3", key=key))
        elif r == z3.sat:
            text = s.model().eval(x, model_completion=True).as_string()
            confirm_escape(rep, name, key, "a" + text + "b", dt)
        else:
            rep.add(Query(name, "inconclusive", "z3 unknown", dt, "z3", key=key))
        s.pop()
    q("xml_escape output contains none of < > ' \"", z3.Or([z3.Contains(img(x), z3.StringVal(c)) for c in "<>'\""]), "C18.escape.no-markup")
    ent = [z3.StringVal(v) for v in SPECIAL.values()]
    q("every & in the xml_escape output begins one of the five predefined entities", z3.And(z3.Contains(img(x), z3.StringVal("&")), z3.Not(z3.Or([img(x) == e for e in ent]))), "C18.escape.entities")
    # unique decoding: the images form a prefix code and the standard un-escaping gives the input back
    y, w = z3.String("y"), z3.String("w")
    s2 = z3.Solver()
    for v in (y, w):
        s2.add(z3.Length(v) == 1, z3.StrToCode(v) >= 0x20, z3.StrToCode(v) <= 0x7e)
    s2.add(y != w, z3.PrefixOf(img(y), img(w)))
    t0 = time.time(); r = s2.check(); dt = time.time() - t0
    rep.add(Query("the escaped images of distinct characters are never prefixes of one another (unique decoding of the data)", "holds" if r == z3.unsat else ("violated" if r == z3.sat else "inconclusive"),
                  "" if r != z3.sat else str(s2.model()), dt, "z3", key="C18.escape.prefix-code", reproduced=None))
    un = {v: k for k, v in SPECIAL.items()}
    s3 = z3.Solver()
    s3.add(z3.Length(y) == 1, z3.StrToCode(y) >= 0x20, z3.StrToCode(y) <= 0x7e)
    dec = img(y)
    for e_, c_ in un.items():
        dec = z3.If(img(y) == z3.StringVal(e_), z3.StringVal(c_), dec)
    s3.add(dec != y)
    t0 = time.time(); r = s3.check(); dt = time.time() - t0
    if r == z3.sat:
        confirm_escape(rep, "un-escaping the five entities in the output of xml_escape gives the original character back", "C18.escape.roundtrip", s3.model().eval(y).as_string(), dt)
    else:
        rep.add(Query("un-escaping the five entities in the output of xml_escape gives the original character back", "holds" if r == z3.unsat else "inconclusive", "", dt, "z3", key="C18.escape.roundtrip"))
    rep.bounds["xml_escape"] = "every printable ASCII character (per-character images are exact because every replace pattern is one character; texts are concatenations)"


ESC_TEST = '''
#[cfg(test)]
mod verif_replay_c18 {
    #[test]
    fn c18_xml_escape_is_safe_and_reversible() {
        let text = %s.to_string();
        let out = super::xml_escape(text.clone());
        assert!(!out.contains('<') && !out.contains('>') && !out.contains('\\'') && !out.contains('"'), "markup character survives: {:?} -> {:?}", text, out);
        let back = out.replace("&lt;", "<").replace("&gt;", ">").replace("&apos;", "'").replace("&quot;", "\\"").replace("&amp;", "&");
        assert_eq!(back, text, "escaping is not reversible: {:?} -> {:?}", text, out);
    }
}
'''


def confirm_escape(rep, name, key, text, dt):
    import replay as rp
    code = ESC_TEST % json.dumps(text)
    res, out = rp.run_rust_tests("azure-proxy-agent", [("proxy_agent/src/common/helpers.rs", code)], "verif_replay_c18")
    path = save_replay("C18", "xml_escape.rs", "// append to proxy_agent/src/common/helpers.rs; cargo test -p azure-proxy-agent verif_replay_c18\n" + code)
    st = (res or {}).get("c18_xml_escape_is_safe_and_reversible")
    if st == "FAILED":
        rep.traces_validated += 1
    rep.add(Query(name, "violated" if st in ("FAILED", "ok") else "inconclusive", "z3 model text=%r; native replay: %s" % (text, st), dt, "z3", key=key, model={"text": text}, replay=path,
                  reproduced=True if st == "FAILED" else (False if st == "ok" else None)))


def check_to_xml_event(rep, ctx):
    """every String field of a TelemetryEvent reaches the XML only through xml_escape"""
    path = ctx.method("TelemetryEvent", "to_xml_event")
    eng = ctx.engine()
    paths = eng.explore(path)
    rep.functions_encoded.append(path)
    src = open(os.path.join(ctx.src, "proxy_agent/src/telemetry/telemetry_event.rs"), errors="replace").read()
    m = re.search(r"pub struct TelemetryEvent\s*\{(.*?)\n\}", src, re.S)
    types = {}
    if m:
        for part in m.group(1).split("\n"):
            mm = re.match(r"\s*(?:pub\s+)?(\w+)\s*:\s*([\w:<>]+),", part)
            if mm:
                types[mm.group(1)] = mm.group(2)
    names = ctx.structs.get("TelemetryEvent", [])
    for i, r in enumerate(paths):
        me = origin(r.args[0]).child("*")
        esc = [e for e in r.events if e.kind == "call" and e.callee.endswith("xml_escape")]
        pushes = [e for e in r.events if e.kind == "call" and e.callee.endswith("push_str")]
        raw_string_fields = []
        escaped_fields = set()
        for e in esc:
            for k, nm in enumerate(names):
                if derives(e.rargs[0], me.child(("f", k)), r.events):
                    escaped_fields.add(nm)
        for e in pushes:
            for l in fmt_leaves(e.rargs[1]):
                o = origin(l)
                if isinstance(o, (StrV, ConstV)):
                    continue
                if any(o is x.ret or derives(l, x.ret, r.events) for x in esc):
                    continue
                for k, nm in enumerate(names):
                    if derives(l, me.child(("f", k)), r.events) and types.get(nm) == "String":
                        raw_string_fields.append(nm)
        want = {nm for nm in names if types.get(nm) == "String"}
        rep.add(Query("to_xml_event path %d: every String field is written through xml_escape (%d fields), none raw" % (i, len(want)), "holds" if not raw_string_fields and want <= escaped_fields else "violated",
                      "raw: %s; never escaped: %s" % (raw_string_fields, sorted(want - escaped_fields)), 0, "mirsym", key="C18.xml.all-escaped", reproduced=None))
    rep.add(Query("witness: to_xml_event explored", "witness-hit" if paths else "witness-missed", "%d paths" % len(paths), 0, "mirsym"))


def check_send_events(rep, ctx, tier):
    w = ctx.method("EventReader", "send_events")
    body = w + "::{closure#0}"
    eng = ctx.engine(loop_bound=2 if tier == "quick" else 3, max_paths=20000)

    def vec_model(engine, ev):
        # minimal Vec contract: pop() on a vector that was just observed non-empty returns Some
        if ev.kind == "call" and ev.callee.endswith("Vec::pop"):
            prev = [e for e in engine.events[:-1] if e.kind == "call" and re.search(r"Vec::(is_empty|push|pop)$", e.callee) and same_origin(e.rargs[0], ev.rargs[0])]
            if prev and prev[-1].callee.endswith("is_empty"):
                engine.require(z3.Implies(z3.Not(prev[-1].ret.scalar("bool")), ev.ret.discr() == 1))
        if ev.kind == "call" and ev.callee.endswith("Vec::is_empty"):
            prev = [e for e in engine.events[:-1] if e.kind == "call" and re.search(r"Vec::(is_empty|push|pop)$", e.callee) and same_origin(e.rargs[0], ev.rargs[0])]
            if prev and prev[-1].callee.endswith("is_empty"):
                engine.require(ev.ret.scalar("bool") == prev[-1].ret.scalar("bool"))      # nothing changed the vector in between
            if prev and prev[-1].callee.endswith("push"):
                engine.require(z3.Not(ev.ret.scalar("bool")))
    eng.event_hook = vec_model
    paths = eng.explore(body)
    rep.functions_encoded.append(body)
    rep.stubs.append("Vec<Event>: is_empty()/pop()/push() uninterpreted except: pop() after is_empty() == false returns Some; two is_empty() with no mutation in between agree; not empty right after push()")
    e2 = ctx.engine(); e2._reset([])
    MAX = e2.eval_const("EventReader::MAX_MESSAGE_SIZE")
    maxv = z3.simplify(MAX.e).as_long() if isinstance(MAX, Scalar) else None
    rep.add(Query("MAX_MESSAGE_SIZE evaluates to 65536 (64 KiB)", "holds" if maxv == 65536 else "violated", str(maxv), 0, "mirsym", key="C18.batch.const", reproduced=None))
    n_drop = n_put = n_send = 0
    for i, r in enumerate(paths):
        ev = r.events
        pops = [e for e in ev if e.kind == "call" and e.callee.endswith("Vec::pop")]
        sizes = [e for e in ev if e.kind == "call" and e.callee.endswith("get_size")]
        sends = [e for e in ev if e.kind == "await" and e.callee.endswith("send_data_to_wire_server")]
        n_send += len(sends)
        for sz in sizes:
            k = ev.index(sz)
            nxt_send = [e for e in sends + sizes if ev.index(e) > k]
            upto = min(ev.index(e) for e in nxt_send) if nxt_send else len(ev)
            seg = ev[k + 1:upto]
            over = z3.UGE(sz.ret.scalar("usize"), z3.BitVecVal(65536, 64))
            rem = [e for e in seg if e.kind == "call" and e.callee.endswith("remove_last_event")]
            adds = [e for e in seg if e.kind == "call" and e.callee.endswith("add_event")]
            if implied(r, over):
                cnt = [e for e in seg if e.kind == "call" and e.callee.endswith("event_count")]
                push = [e for e in seg if e.kind == "call" and e.callee.endswith("Vec::push")]
                ok = len(rem) == 1 and not adds and len(cnt) >= 1
                if ok:
                    empty = cnt[0].ret.scalar("usize") == 0
                    if implied(r, empty):
                        ok = not push
                        n_drop += 1
                    elif implied(r, z3.Not(empty)):
                        ok = len(push) == 1
                        n_put += 1
                rep.add(Query("send_events path %d: a batch reaching 64 KiB drops its last event before it is sent; an event too large alone is discarded, otherwise it is put back for the next batch" % i,
                              "holds" if ok else "violated", "", 0, "mirsym+z3", key="C18.batch.overflow", reproduced=None))
            elif implied(r, z3.Not(over)):
                rep.add(Query("send_events path %d: a batch below 64 KiB keeps its events" % i, "holds" if not rem else "violated", "", 0, "mirsym+z3", key="C18.batch.keep", reproduced=None))
        # every batch that is sent was last measured below the limit or had its overflowing event removed
        for snd in sends:
            k = ev.index(snd)
            last_sz = [e for e in sizes if ev.index(e) < k]
            if last_sz:
                sz = last_sz[-1]
                rem = [e for e in ev[ev.index(sz):k] if e.kind == "call" and e.callee.endswith("remove_last_event")]
                over = z3.UGE(sz.ret.scalar("usize"), z3.BitVecVal(65536, 64))
                ok = (bool(rem) or implied(r, z3.Not(over))) and same_origin(sz.rargs[0], snd.rargs[0])      # ... measured on the very batch that is sent
                rep.add(Query("send_events path %d: what is sent measured < 64 KiB, or lost its last event after measuring >= 64 KiB" % i, "holds" if ok else "violated", "", 0, "mirsym+z3", key="C18.batch.size", reproduced=None))
        # "dropped rather than blocking the rest": the function returns only when its work list is empty - every remaining event gets its turn
        if r.status == "return":
            ie = [e for e in ev if e.kind == "call" and e.callee.endswith("Vec::is_empty")]
            if ie:
                done = implied(r, ie[-1].ret.scalar("bool"))
                rep.add(Query("send_events path %d: returns only when no event is left on the work list" % i, "holds" if done else "violated",
                              "" if done else "the path leaves the loop with events still queued (they are never uploaded, their file is removed)", 0, "mirsym+z3", key="C18.batch.drains", reproduced=None))
        # progress: between two sends at least one event was popped
        for a, b in zip(sends, sends[1:]):
            mid = [e for e in pops if ev.index(a) < ev.index(e) < ev.index(b)]
            rep.add(Query("send_events path %d: every batch round consumes at least one event (termination)" % i, "holds" if mid else "violated", "", 0, "mirsym", key="C18.batch.progress", reproduced=None))
    # "an event too large for any batch is dropped rather than blocking the rest ... processing always terminates": a panic in this loop
    # ends the reader task (nothing after it is uploaded or cleaned). Text handling is where one can hide: slicing at a byte offset
    slicing = [r for r in paths if r.status == "panic" and re.search(r"char boundary|slice index|out of range|out of bounds|byte index", (r.note or "") + " ".join(str(e.extra or "") for e in r.events if e.kind == "panic"))]
    if slicing:
        r0 = slicing[0]
        rs, model, dt, zm = check_sat(r0.pc)
        rep.add(Query("send_events: no feasible panic path on text handling (slicing / indexing an event's text)", "violated" if rs == "sat" else "inconclusive",
                      "%d panic path(s): %s; model %s" % (len(slicing), sorted({(r.note or "")[:80] for r in slicing})[:3], str(model)[:160]), dt, "mirsym+z3", key="C18.batch.no-panic", model=model, reproduced=None))
    else:
        rep.add(Query("send_events: no feasible panic path on text handling (slicing / indexing an event's text)", "holds", "%d paths" % len(paths), 0, "mirsym+z3", key="C18.batch.no-panic"))
    rep.add(Query("witness: send_events has oversize-drop, put-back and send paths", "witness-hit" if n_drop and n_put and n_send else "witness-missed", "%d/%d/%d" % (n_drop, n_put, n_send), 0, "mirsym"))
    rep.bounds["send_events"] = "<= %d events per file (loop bound), sizes symbolic 64-bit" % (2 if tier == "quick" else 3)


def check_data_contracts(rep, ctx):
    """what send_events measures and counts is what is posted: the TelemetryData methods it uses (uninterpreted there) against their bodies"""
    def ev_field(v, me):
        # v is (a view of) field 0 (`events`) of *self
        return derives(v, me.child("*").child(("f", 0)))
    recorded = {}

    def hook(engine, ev):
        if ev.kind == "call" and ev.callee.endswith("TelemetryData::to_xml"):
            recorded[id(ev)] = engine.len_of(ev.ret)
    # get_size() == to_xml(self).len()
    path = ctx.method("TelemetryData", "get_size")
    eng = ctx.engine(); eng.event_hook = hook
    paths = eng.explore(path)
    rep.functions_encoded.append(path)
    ok = bool(paths)
    why = ""
    for r in paths:
        tx = [e for e in r.events if e.kind == "call" and e.callee.endswith("TelemetryData::to_xml") and same_origin(e.rargs[0], r.args[0])]
        others = [e for e in r.events if e.kind in ("call", "await") and e not in tx]
        good = r.status == "return" and len(tx) == 1 and not others and isinstance(r.ret, Scalar) and id(tx[0]) in recorded and z3.eq(z3.simplify(r.ret.e), z3.simplify(recorded[id(tx[0])]))
        if not good:
            ok = False
            why = "status %s, to_xml(self) calls %d, other calls %s, returns %s" % (r.status, len(tx), [e.callee for e in others][:4], str(r.ret)[:60])
    rep.add(Query("TelemetryData::get_size: the size compared with 64 KiB is the byte length of to_xml(self), the very text that is posted", "holds" if ok else "violated", why, 0, "mirsym+z3",
                  key="C18.size.rendered-length", reproduced=None))
    # add_event / remove_last_event / event_count act on self.events
    for meth, want in (("add_event", "push"), ("remove_last_event", "pop"), ("event_count", "len")):
        path = ctx.method("TelemetryData", meth)
        eng = ctx.engine()
        paths = eng.explore(path)
        rep.functions_encoded.append(path)
        ok, why = bool(paths), ""
        for r in paths:
            me = origin(r.args[0])
            calls = [e for e in r.events if e.kind in ("call", "len")]
            good = r.status == "return" and len(calls) == 1 and calls[0].callee.endswith("Vec::" + want) and ev_field(calls[0].rargs[0], me)
            if good and want == "push":
                good = same_origin(calls[0].rargs[1], r.args[1])
            if good and want == "pop":
                good = r.ret is calls[0].ret or same_origin(r.ret, calls[0].ret)
            if good and want == "len":
                good = isinstance(r.ret, Scalar) and isinstance(calls[0].ret, Scalar) and z3.eq(z3.simplify(r.ret.e), z3.simplify(calls[0].ret.e))
            if not good:
                ok, why = False, "status %s, calls %s" % (r.status, [e.callee for e in calls][:4])
        rep.add(Query("TelemetryData::%s is exactly Vec::%s on the batch's own event vector" % (meth, want), "holds" if ok else "violated", why, 0, "mirsym", key="C18.size.%s" % meth, reproduced=None))
    # to_xml: constant prologue, one to_xml_event(item) per item of self.events in order, constant epilogue - nothing else
    path = ctx.method("TelemetryData", "to_xml")
    eng = ctx.engine(loop_bound=2)
    paths = eng.explore(path)
    rep.functions_encoded.append(path)
    ok, why, n = bool(paths), "", 0
    for r in paths:
        me = origin(r.args[0])
        ev = r.events
        news = [e for e in ev if e.callee.endswith("String::new")]
        push = [e for e in ev if e.callee.endswith("push_str")]
        nexts = [e for e in ev if e.callee.endswith("Iterator>::next")]
        rend = [e for e in ev if e.callee.endswith("to_xml_event")]
        other = [e for e in ev if e.kind in ("call", "await") and e not in news + push + nexts + rend]
        good = len(news) == 1 and not other and all(same_origin(p_.rargs[0], news[0].ret) for p_ in push) and all(ev_field(x.rargs[0], me) for x in nexts)
        good = good and bool(push) and isinstance(origin(push[0].rargs[1]), StrV)
        mid = push[1:-1] if r.status == "return" else push[1:]
        if r.status == "return":
            good = good and len(push) >= 2 and isinstance(origin(push[-1].rargs[1]), StrV) and same_origin(r.ret, news[0].ret) and len(mid) == len(nexts) - 1
            n += 1
        good = good and len(mid) == len(rend) and all(same_origin(p_.rargs[1], x.ret) for p_, x in zip(mid, rend))
        # the k-th rendered event is the k-th item handed out by the iterator
        good = good and all(derives(x.rargs[0], nx.ret, ev) for x, nx in zip(rend, nexts))
        if not good:
            ok, why = False, "path with %d push_str / %d next / %d to_xml_event / other %s" % (len(push), len(nexts), len(rend), [e.callee for e in other][:3])
    rep.add(Query("TelemetryData::to_xml: prologue, one to_xml_event per stored event in order, epilogue; nothing else is appended (<= 2 events)", "holds" if ok and n else "violated", why, 0, "mirsym",
                  key="C18.size.to_xml-shape", reproduced=None))
    # the sender posts to_xml() of the batch it was given, unchanged
    w = ctx.method("EventReader", "send_data_to_wire_server") + "::{closure#0}"
    eng = ctx.engine(loop_bound=2)
    paths = eng.explore(w)
    rep.functions_encoded.append(w)
    ok, why, n = bool(paths), "", 0
    for r in paths:
        ev = r.events
        env = origin(r.args[0])
        mut = [e for e in ev if e.kind == "call" and re.search(r"TelemetryData::(add_event|remove_last_event)$", e.callee)]
        for snd in [e for e in ev if e.kind == "call" and e.callee.endswith("send_telemetry_data")]:
            n += 1
            src = [e for e in ev if e.kind == "call" and e.callee.endswith("TelemetryData::to_xml") and same_origin(snd.rargs[1], e.ret)]
            good = len(src) == 1 and derives(src[0].rargs[0], env, ev) and not mut
            if not good:
                ok, why = False, "body %s" % str(snd.rargs[1])[:80]
    rep.add(Query("send_data_to_wire_server: every POST body is to_xml() of the batch handed in, which is not changed there", "holds" if ok and n else "violated", why, 0, "mirsym", key="C18.size.posted-is-measured", reproduced=None))


def check_io_units(rep, ctx):
    """the two effects the batching obligations name only: clean_files(f) removes exactly f; send_telemetry_data(xml) posts exactly that
    text (one request whose body is the argument's bytes) and reports failure for a transport error or a non-success status"""
    try:
        w = ctx.method("EventReader", "clean_files")
        eng = ctx.engine()
        eng.auto_inline = ctx.new_function_auto()
        ok, n = True, 0
        for r in eng.explore(w):
            rm = [e for e in r.events if e.kind == "call" and re.search(r"(^|::)remove_file$", e.callee)]
            other = [e.callee for e in r.events if e.kind == "call" and re.search(r"(^|fs::)(remove_dir|remove_dir_all|rename|copy)$|fs::write$|File::create$", e.callee)]
            n += 1
            if not (len(rm) == 1 and same_origin(rm[0].rargs[0], r.args[0]) and not other):
                ok = False
        rep.functions_encoded.append(w)
        rep.add(Query("clean_files: removes exactly the file it is given, on every path", "holds" if ok and n else "violated", "%d paths" % n, 0, "mirsym", key="C18.io.clean_files", reproduced=None))
    except Inconclusive as ex:
        rep.add(Query("clean_files located", "inconclusive", str(ex), 0, "mirsym", key="C18.io.clean_files"))
    try:
        w = ctx.method("WireServerClient", "send_telemetry_data") + "::{closure#0}"
    except Inconclusive as ex:
        rep.add(Query("send_telemetry_data located", "inconclusive", str(ex), 0, "mirsym", key="C18.io.post"))
        return
    eng = ctx.engine(loop_bound=1, max_paths=4000)
    eng.auto_inline = ctx.new_function_auto()
    n_ok = 0
    for i, r in enumerate(eng.explore(w)):
        if r.status != "return" or not isinstance(r.ret, Agg):
            continue
        env = origin(r.args[0])
        xml = env.child(("f", 1))
        br = [e for e in r.events if e.kind == "call" and e.callee.endswith("build_request")]
        sr = [e for e in r.events if e.kind == "await" and re.search(r"hyper_client::send_request$|(^|::)send_request$", e.callee)]
        emp = [e for e in r.events if e.kind == "call" and re.search(r"(String|str)::is_empty$", e.callee) and same_origin(e.rargs[0], xml)]
        if r.ret.variant == "Ok":
            if not sr:
                # nothing posted and success reported: only for the empty text
                ok = bool(emp) and implied(r, emp[0].ret.scalar("bool"))
                rep.add(Query("send_telemetry_data path %d: success without a request only for an empty text" % i, "holds" if ok else "violated", "", 0, "mirsym+z3", key="C18.io.post", reproduced=None))
                continue
            n_ok += 1
            body = br[0].rargs[3] if br and len(br[0].rargs) > 3 else None
            if isinstance(body, Agg) and body.variant == "Some" and body.fields:
                body = body.fields[0]
            ab = [e for e in r.events if e.kind == "call" and re.search(r"(String|str)::as_bytes$", e.callee) and e.ret is origin(body)]
            if ab:
                body = ab[0].rargs[0]            # the bytes of the text
            ok = len(br) == 1 and len(sr) == 1 and body is not None and derives(body, xml, r.events) and derives(sr[0].rargs[2] if len(sr[0].rargs) > 2 else sr[0].rargs[-1], br[0].ret, r.events)
            post = br and "POST" in repr(br[0].rargs[0])
            st = [e for e in r.events if e.kind == "call" and e.callee.endswith("is_success")]
            ok = ok and bool(post) and bool(st) and implied(r, st[-1].ret.scalar("bool")) and implied(r, sr[0].ret.discr() != 1)
            rep.add(Query("send_telemetry_data path %d: success <= one POST whose body is the given text was sent and answered with a success status" % i, "holds" if ok else "violated",
                          "build_request %d, send_request %d" % (len(br), len(sr)), 0, "mirsym+z3", key="C18.io.post", reproduced=None))
    rep.functions_encoded.append(w)
    rep.add(Query("witness: send_telemetry_data has a posting path", "witness-hit" if n_ok else "witness-missed", "%d" % n_ok, 0, "mirsym"))


def check_clean(rep, ctx):
    w = ctx.method("EventReader", "process_events_and_clean")
    body = w + "::{closure#0}"
    eng = ctx.engine(loop_bound=2, max_paths=5000)
    paths = eng.explore(body)
    rep.functions_encoded.append(body)
    n = 0
    for i, r in enumerate(paths):
        if r.status == "panic":
            continue        # usize overflow of the running event count: not reachable with vectors that fit in memory
        ev = r.events
        nx = [e for e in ev if e.kind == "call" and e.callee.endswith("::next")]
        for k, e in enumerate(nx):
            some = e.ret.discr() == 1
            rs, _m, _dt, _zm = check_sat(r.pc + [some])
            if rs != "sat" or not implied(r, some):
                continue
            end = ev.index(nx[k + 1]) if k + 1 < len(nx) else len(ev)
            seg = ev[ev.index(e):end]
            cl = [x for x in seg if x.kind == "call" and x.callee.endswith("clean_files")]
            sd = [x for x in seg if x.kind == "await" and x.callee.endswith("send_events")]
            if r.status == "cut" and k + 1 >= len(nx):
                continue
            n += 1
            ok = len(cl) == 1 and derives(cl[0].rargs[0], e.ret, ev) and all(seg.index(s_) < seg.index(cl[0]) for s_ in sd)
            rep.add(Query("process_events_and_clean path %d, file %d: the file is removed exactly once, after its events were handed to send_events (also when it cannot be parsed)" % (i, k),
                          "holds" if ok else "violated", "clean calls %d" % len(cl), 0, "mirsym", key="C18.clean", reproduced=None))
    rep.add(Query("witness: process_events_and_clean iterations examined", "witness-hit" if n else "witness-missed", "%d" % n, 0, "mirsym"))


def check(rep, tier, seed):
    ctx = Ctx("agent")
    rep.extra["mir_dump"] = {"cache_hit": ctx.dump.cache_hit, "tree_hash": ctx.dump.hash, "seconds": round(ctx.dump.seconds, 1)}
    check_escape(rep, ctx, tier)
    check_to_xml_event(rep, ctx)
    check_send_events(rep, ctx, tier)
    check_data_contracts(rep, ctx)
    check_io_units(rep, ctx)
    check_clean(rep, ctx)
    import batteries
    batteries.confirm(rep, "C18")
    ub = rep.extra.get("unit_battery") or {}
    if ub.get("ran") and not ub.get("failed"):
        # the method contracts are recognised by shape; another correct implementation (say a size kept current incrementally) is not
        # a violation: when the native runs at the size boundary all pass, such an unrecognised shape is inconclusive, not an alarm
        for q in rep.queries:
            if q.status == "violated" and q.reproduced is None and (q.key or "").startswith("C18.size."):
                q.reproduced = False
                q.detail += " || shape not recognised and the native boundary runs pass: inconclusive"
    rep.assumptions += ["event text is free of control characters (the property's own premise); non-ASCII characters are not touched by a single-character ASCII replace",
                        "Vec::pop/push/is_empty and TelemetryData size are uninterpreted: any sizes, any number of events up to the loop bound"]
    rep.outside_claim += ["XML well-formedness beyond the escaping argument", "duplicate delivery when the host processed a batch but the reply was lost (5 retries)", "event files written concurrently"]
    rep.trusted += ["mirsym", "z3 sequence theory"]


def replay(path):
    print(open(path).read())
    return 0
