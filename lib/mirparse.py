"""Parser for rustc's textual MIR (`-Zdump-mir=... & built`), as far as the encoded bodies need it.

The parser is deliberately strict: anything it does not recognise raises MirError, which the checks turn
into exit code 2 (inconclusive), never into a pass.
"""
import os, re


class MirError(Exception):
    pass


# ---------------------------------------------------------------------------------------------
# balanced splitting helpers
OPEN = "([{<"
CLOSE = ")]}>"


def split_top(s, sep=","):
    """Split s at top-level occurrences of sep (brackets/strings respected)."""
    out, depth, cur, i, n = [], 0, [], 0, len(s)
    while i < n:
        c = s[i]
        if c == '"' or (c == "'" and _looks_like_char(s, i)):
            j = _skip_quoted(s, i)
            cur.append(s[i:j])
            i = j
            continue
        if c == "-" and i + 1 < n and s[i + 1] == ">":
            cur.append("->")
            i += 2
            continue
        if c in OPEN:
            depth += 1
        elif c in CLOSE:
            depth -= 1
        if c == sep and depth == 0:
            out.append("".join(cur).strip())
            cur = []
        else:
            cur.append(c)
        i += 1
    last = "".join(cur).strip()
    if last or out:
        out.append(last)
    return [x for x in out if x != ""]


def _looks_like_char(s, i):
    # 'a' or '\n' char literal vs lifetime 'a
    if i + 2 < len(s) and s[i + 2] == "'" and s[i + 1] != "\\":
        return True
    if i + 3 < len(s) and s[i + 1] == "\\" and s[i + 3] == "'":
        return True
    return False


def _skip_quoted(s, i):
    q = s[i]
    j = i + 1
    while j < len(s):
        if s[j] == "\\":
            j += 2
            continue
        if s[j] == q:
            return j + 1
        j += 1
    raise MirError("unterminated literal in: " + s[:80])


def find_matching(s, i):
    """s[i] is an opening bracket; return index of its match."""
    depth, j, n = 0, i, len(s)
    while j < n:
        c = s[j]
        if c == '"' or (c == "'" and _looks_like_char(s, j)):
            j = _skip_quoted(s, j)
            continue
        if c == "-" and j + 1 < n and s[j + 1] == ">":
            j += 2
            continue
        if c in OPEN:
            depth += 1
        elif c in CLOSE:
            depth -= 1
            if depth == 0:
                return j
        j += 1
    raise MirError("unbalanced: " + s[:120])


# ---------------------------------------------------------------------------------------------
class Place:
    """local + projection list. proj elements: ('deref',) ('field', idx, type) ('downcast', variant) ('index', local)
    ('constindex', n) ('subslice',...)"""
    __slots__ = ("local", "proj")

    def __init__(self, local, proj):
        self.local = local
        self.proj = proj

    def __repr__(self):
        return "_%d%s" % (self.local, "".join("." + str(p) for p in self.proj))


def parse_place(s):
    s = s.strip()
    p, rest = _parse_place(s)
    if rest.strip():
        raise MirError("trailing text after place: %r in %r" % (rest, s))
    return p


def _parse_place(s):
    s = s.lstrip()
    if s.startswith("("):
        end = find_matching(s, 0)
        inner = s[1:end]
        rest = s[end + 1:]
        if inner.startswith("*"):
            p, r2 = _parse_place(inner[1:])
            if r2.strip():
                raise MirError("bad deref place: " + s)
            place = Place(p.local, p.proj + [("deref",)])
        else:
            p, r2 = _parse_place(inner)
            r2 = r2.strip()
            if r2.startswith("as "):
                place = Place(p.local, p.proj + [("downcast", r2[3:].strip())])
            elif r2.startswith("."):
                m = re.match(r"\.(\d+)\s*:\s*(.*)$", r2, re.S)
                if not m:
                    raise MirError("bad field projection: " + s)
                place = Place(p.local, p.proj + [("field", int(m.group(1)), m.group(2).strip())])
            else:
                raise MirError("bad parenthesised place: " + s)
    else:
        m = re.match(r"_(\d+)", s)
        if not m:
            raise MirError("bad place: " + s[:80])
        place = Place(int(m.group(1)), [])
        rest = s[m.end():]
    # postfix index projections
    while rest.startswith("["):
        end = find_matching(rest, 0)
        idx = rest[1:end].strip()
        m = re.match(r"_(\d+)$", idx)
        if m:
            place = Place(place.local, place.proj + [("index", int(m.group(1)))])
        else:
            m = re.match(r"(-?\d+) of (\d+)$", idx)
            if m:
                place = Place(place.local, place.proj + [("constindex", int(m.group(1)))])
            else:
                place = Place(place.local, place.proj + [("subslice", idx)])
        rest = rest[end + 1:]
    return place, rest


# ---------------------------------------------------------------------------------------------
class Operand:
    __slots__ = ("kind", "place", "const")   # kind: 'move' | 'copy' | 'const'

    def __init__(self, kind, place=None, const=None):
        self.kind, self.place, self.const = kind, place, const

    def __repr__(self):
        return "%s %s" % (self.kind, self.place if self.place is not None else self.const)


def parse_operand(s):
    s = s.strip()
    if s.startswith("move "):
        return Operand("move", parse_place(s[5:]))
    if s.startswith("copy "):
        return Operand("copy", parse_place(s[5:]))
    if s.startswith("const "):
        return Operand("const", const=s[6:].strip())
    if re.match(r"[A-Za-z_<{]", s) and not s.startswith(("_", )) :
        # a bare function item (zero-sized constant), e.g. `write_warning` passed as a callback
        return Operand("const", const="fn-item " + s)
    raise MirError("bad operand: " + s[:100])


BINOPS = {"Add", "Sub", "Mul", "Div", "Rem", "BitXor", "BitAnd", "BitOr", "Shl", "Shr", "Eq", "Lt", "Le", "Ne", "Ge", "Gt",
          "Cmp", "Offset", "AddUnchecked", "SubUnchecked", "MulUnchecked", "ShlUnchecked", "ShrUnchecked",
          "AddWithOverflow", "SubWithOverflow", "MulWithOverflow"}
UNOPS = {"Not", "Neg", "PtrMetadata"}


class Rvalue:
    """kind: use | ref | discriminant | binop | unop | cast | aggregate | tuple | array | repeat | len | other"""

    def __init__(self, kind, **kw):
        self.kind = kind
        self.__dict__.update(kw)

    def __repr__(self):
        return "Rvalue(%s %s)" % (self.kind, {k: v for k, v in self.__dict__.items() if k != "kind"})


def parse_rvalue(s):
    s = s.strip()
    if s.startswith(("move ", "copy ", "const ")):
        # operand, possibly followed by " as T (CastKind)"
        m = re.search(r" as (.*?) \((PointerCoercion\(.*\)|\w+)\)$", s)
        if m and not s.startswith("const \""):
            opnd = s[:m.start()]
            try:
                op = parse_operand(opnd)
                return Rvalue("cast", op=op, ty=m.group(1).strip(), castkind=m.group(2))
            except MirError:
                pass
        return Rvalue("use", op=parse_operand(s))
    if s.startswith("&"):
        m = re.match(r"&(raw const |raw mut |mut |fake shallow |fake |)(.*)$", s, re.S)
        return Rvalue("ref", mut=m.group(1).strip(), place=parse_place(m.group(2)))
    m = re.match(r"(\w+)\((.*)\)$", s, re.S)
    if m and m.group(1) == "discriminant":
        return Rvalue("discriminant", place=parse_place(m.group(2)))
    if m and m.group(1) in ("Len",):
        return Rvalue("len", place=parse_place(m.group(2)))
    if m and m.group(1) == "CopyForDeref":
        return Rvalue("use", op=Operand("copy", parse_place(m.group(2))))
    if m and m.group(1) in BINOPS:
        a = split_top(m.group(2))
        if len(a) == 2:
            return Rvalue("binop", op=m.group(1), a=parse_operand(a[0]), b=parse_operand(a[1]))
    if m and m.group(1) in UNOPS:
        return Rvalue("unop", op=m.group(1), a=parse_operand(m.group(2)))
    if s.startswith("["):
        end = find_matching(s, 0)
        inner = s[1:end]
        parts = split_top(inner, ";")
        if len(parts) == 2:
            return Rvalue("repeat", op=parse_operand(parts[0]), count=parts[1])
        return Rvalue("array", ops=[parse_operand(x) for x in split_top(inner)])
    if s.startswith("("):
        end = find_matching(s, 0)
        if end == len(s) - 1:
            return Rvalue("tuple", ops=[parse_operand(x) for x in split_top(s[1:end])])
    # aggregates:  Path { a: op, .. }  |  Path(op, ..)  |  Path   |  {closure@..} { captures } | {coroutine@..} {..}
    if s.startswith("{"):
        end = find_matching(s, 0)
        name = s[:end + 1]
        rest = s[end + 1:].strip()
    else:
        # path up to the first top-level '{' or '(' that is not inside <>
        i, depth, n = 0, 0, len(s)
        while i < n:
            c = s[i]
            if c == "-" and i + 1 < n and s[i + 1] == ">":
                i += 2
                continue
            if c == "<":
                depth += 1
            elif c == ">":
                depth -= 1
            elif depth == 0 and (c == "(" or (c == "{" and s[i - 1] == " ")):
                break
            i += 1
        name = s[:i].strip()
        rest = s[i:].strip()
    if rest == "":
        return Rvalue("aggregate", name=name, fields=[], named=None)
    if rest.startswith("{"):
        end = find_matching(rest, 0)
        fields, names = [], []
        for part in split_top(rest[1:end]):
            m = re.match(r"(\w+)\s*:\s*(.*)$", part, re.S)
            if not m:
                raise MirError("bad aggregate field: " + part[:80])
            names.append(m.group(1))
            fields.append(parse_operand(m.group(2)))
        return Rvalue("aggregate", name=name, fields=fields, named=names)
    if rest.startswith("("):
        end = find_matching(rest, 0)
        return Rvalue("aggregate", name=name, fields=[parse_operand(x) for x in split_top(rest[1:end])], named=None)
    raise MirError("unrecognised rvalue: " + s[:160])


# ---------------------------------------------------------------------------------------------
class Stmt:
    def __init__(self, kind, **kw):
        self.kind = kind
        self.__dict__.update(kw)


class Term:
    def __init__(self, kind, **kw):
        self.kind = kind
        self.__dict__.update(kw)


IGNORED_STMT = ("StorageLive(", "StorageDead(", "FakeRead(", "PlaceMention(", "AscribeUserType(", "Retag(", "nop", "Coverage::",
                "ConstEvalCounter", "BackwardIncompatibleDropHint(", "Deinit(")


def parse_targets(s):
    """'[return: bb1, unwind: bb2]' -> dict"""
    s = s.strip()
    d = {}
    if s.startswith("["):
        end = find_matching(s, 0)
        for part in split_top(s[1:end]):
            m = re.match(r"(\w+|-?\d+)\s*:\s*bb(\d+)$", part.strip())
            if m:
                d[m.group(1)] = int(m.group(2))
            else:
                m = re.match(r"(\w+)\s*(.*)$", part.strip())
                d[m.group(1)] = m.group(2)
        return d
    m = re.match(r"bb(\d+)$", s)
    if m:
        return {"target": int(m.group(1))}
    if s.startswith("unwind"):
        return {"unwind": s}
    raise MirError("bad targets: " + s)


def parse_statement_line(line):
    """Return Stmt or Term for one MIR line (without trailing ';')."""
    s = line.strip()
    if s.endswith(";"):
        s = s[:-1]
    if s.startswith(IGNORED_STMT):
        return Stmt("nop")
    if s == "return":
        return Term("return")
    if s == "unreachable":
        return Term("unreachable")
    if s in ("resume", "coroutine_drop", "abort") or s.startswith("terminate"):
        return Term("resume")
    if s.startswith("goto -> "):
        return Term("goto", target=int(re.match(r"goto -> bb(\d+)", s).group(1)))
    if s.startswith("falseEdge -> ") or s.startswith("falseUnwind -> "):
        t = parse_targets(s.split("->", 1)[1])
        return Term("goto", target=t["real"])
    if s.startswith("switchInt("):
        end = find_matching(s, len("switchInt"))
        op = parse_operand(s[len("switchInt("):end])
        tg = s[end + 1:].strip()
        assert tg.startswith("->")
        t = parse_targets(tg[2:])
        return Term("switch", op=op, targets=t)
    if s.startswith("drop("):
        end = find_matching(s, 4)
        t = parse_targets(s[end + 1:].strip()[2:])
        return Term("drop", place=parse_place(s[5:end]), target=t.get("return"))
    if s.startswith("assert("):
        end = find_matching(s, 6)
        args = split_top(s[7:end])
        cond = args[0].strip()
        neg = cond.startswith("!")
        if neg:
            cond = cond[1:]
        t = parse_targets(s[end + 1:].strip()[2:])
        return Term("assert", cond=parse_operand(cond), expected=not neg, msg=args[1] if len(args) > 1 else "", msgargs=args[2:], target=t.get("success"))
    # assignment or call
    # destination place: find top-level " = "
    idx = _find_top_level_assign(s)
    if idx is None:
        # call without destination (diverging)
        m = re.search(r"\)\s*->\s*(.*)$", s)
        if m:
            callee, args = _split_call(s[:m.start() + 1])
            return Term("call", dest=None, callee=callee, args=args, target=None)
        raise MirError("unrecognised statement: " + s[:160])
    lhs = parse_place(s[:idx])
    rhs = s[idx + 3:].strip()
    # call terminator?  ...) -> [return: bbN, unwind...]   or   ...) -> unwind continue
    m = re.search(r"\)\s*->\s*(\[.*\]|unwind .*|bb\d+)$", rhs)
    if m and not rhs.startswith(("move ", "copy ", "const ", "&")):
        head = rhs[:m.start() + 1]
        if head.startswith("yield("):
            t = parse_targets(m.group(1))
            return Term("yield", dest=lhs, op=parse_operand(head[6:-1]), target=t.get("resume"))
        callee, args = _split_call(head)
        t = parse_targets(m.group(1)) if m.group(1).startswith("[") else {}
        return Term("call", dest=lhs, callee=callee, args=args, target=t.get("return"))
    return Stmt("assign", place=lhs, rv=parse_rvalue(rhs), text=rhs)


def _find_top_level_assign(s):
    depth, i, n = 0, 0, len(s)
    while i < n:
        c = s[i]
        if c == '"' or (c == "'" and _looks_like_char(s, i)):
            i = _skip_quoted(s, i)
            continue
        if c == "-" and i + 1 < n and s[i + 1] == ">":
            i += 2
            continue
        if c in OPEN:
            depth += 1
        elif c in CLOSE:
            depth -= 1
        elif depth == 0 and s.startswith(" = ", i):
            return i
        i += 1
    return None


def _split_call(head):
    """'path::<T>::f(move _1, const 2)' -> (callee text, [Operand])"""
    head = head.strip()
    if not head.endswith(")"):
        raise MirError("bad call: " + head[:120])
    i, n = 0, len(head)
    while i < n:
        c = head[i]
        if c == '"' or (c == "'" and _looks_like_char(head, i)):
            i = _skip_quoted(head, i)
            continue
        if c == "-" and i + 1 < n and head[i + 1] == ">":
            i += 2
            continue
        if c in OPEN:
            j = find_matching(head, i)
            if c == "(" and j == n - 1:
                callee = head[:i].strip()
                args = [parse_operand(x) for x in split_top(head[i + 1:-1])]
                return callee, args
            i = j + 1
            continue
        i += 1
    raise MirError("bad call parens: " + head[:120])


# ---------------------------------------------------------------------------------------------
class Body:
    def __init__(self, path):
        self.path = path          # e.g. proxy::proxy_authorizer::authorize
        self.header = ""
        self.nargs = 0
        self.arg_types = {}
        self.local_types = {}
        self.ret_type = ""
        self.blocks = {}          # n -> (list[Stmt], Term)
        self.cleanup = set()
        self.file = None
        self.debug = {}           # local -> source name


def parse_body(text, file=None):
    m = re.match(r"// MIR for `(.*)` after built", text)
    if not m:
        m = re.match(r"// MIR for `(.*)` (?:after|before) (\S+)", text)
    path = m.group(1) if m else "?"
    body = Body(path)
    body.file = file
    lines = text.split("\n")
    i = 0
    # header: first line starting with 'fn ' or 'const ' / 'static ' / 'promoted'
    while i < len(lines) and not (re.match(r"(fn |const |static |promoted)", lines[i]) or
                                  (lines[i].rstrip().endswith("{") and not lines[i].startswith(("|", "/")))):
        i += 1
    if i == len(lines):
        raise MirError("no header in " + str(file))
    hdr = lines[i]
    body.header = hdr
    if hdr.startswith("fn "):
        po = hdr.index("(", hdr.index("fn ") + 3 + _name_len(hdr[3:]))
        pc = find_matching(hdr, po)
        params = split_top(hdr[po + 1:pc])
        for p in params:
            mm = re.match(r"_(\d+)\s*:\s*(.*)$", p, re.S)
            if mm:
                body.arg_types[int(mm.group(1))] = mm.group(2).strip()
        body.nargs = len(params)
        rt = hdr[pc + 1:].strip()
        mm = re.match(r"->\s*(.*?)\s*\{?$", rt)
        body.ret_type = mm.group(1).strip() if mm else ""
        body.local_types.update(body.arg_types)
    i += 1
    cur = None
    stmts = []
    for ln in lines[i:]:
        s = ln.strip()
        mm = re.match(r"bb(\d+)( \(cleanup\))?: \{$", s)
        if mm:
            cur = int(mm.group(1))
            stmts = []
            if mm.group(2):
                body.cleanup.add(cur)
            continue
        if cur is None:
            mm = re.match(r"let (?:mut )?_(\d+): (.*);$", s)
            if mm:
                body.local_types[int(mm.group(1))] = mm.group(2)
                continue
            mm = re.match(r"debug (\S+) => _(\d+);$", s)
            if mm:
                body.debug[int(mm.group(2))] = mm.group(1)
            continue
        if s == "}":
            if stmts:
                term = stmts[-1]
                body.blocks[cur] = (stmts[:-1], term)
            cur = None
            continue
        if not s:
            continue
        if cur in body.cleanup:
            stmts.append(("raw", s))       # cleanup blocks are never executed; do not parse
            continue
        stmts.append(("raw", s))
    # lazily parsed: keep raw text, parse on demand (bodies are large, most blocks are never visited)
    return body


def _name_len(s):
    """length of the function path up to the '(' that opens the parameter list (path may contain '<impl at ..>')"""
    depth, i = 0, 0
    while i < len(s):
        c = s[i]
        if c == "<":
            depth += 1
        elif c == ">" and not (i > 0 and s[i - 1] == "-"):
            depth -= 1
        elif c == "(" and depth == 0:
            return i
        i += 1
    return len(s)


_parsed_cache = {}


def block(body, n):
    """Parsed (stmts, term) of block n (memoised)."""
    key = (id(body), n)
    if key in _parsed_cache:
        return _parsed_cache[key]
    if n not in body.blocks:
        raise MirError("no block bb%d in %s" % (n, body.path))
    raw_stmts, raw_term = body.blocks[n]
    stmts = [parse_statement_line(r[1]) for r in raw_stmts]
    term = parse_statement_line(raw_term[1])
    if isinstance(term, Stmt):
        raise MirError("block bb%d of %s does not end in a terminator: %s" % (n, body.path, raw_term[1][:100]))
    res = (stmts, term)
    _parsed_cache[key] = res
    return res


class MirIndex:
    """All `*.built.after.mir` bodies of one crate dump directory."""

    def __init__(self, dump_dir):
        self.dir = dump_dir
        self.by_path = {}
        self.files = {}
        for f in os.listdir(dump_dir):
            if not f.endswith(".built.after.mir"):
                continue
            full = os.path.join(dump_dir, f)
            with open(full, errors="replace") as fh:
                first = fh.readline()
            m = re.match(r"// MIR for `(.*)` after built", first)
            if m:
                self.files[m.group(1)] = full
        self._bodies = {}
        self.span_index = None

    def paths(self):
        return list(self.files.keys())

    def body(self, path):
        if path in self._bodies:
            return self._bodies[path]
        if path not in self.files:
            raise MirError("no MIR body for " + path)
        with open(self.files[path], errors="replace") as fh:
            b = parse_body(fh.read(), self.files[path])
        self._bodies[path] = b
        return b

    def find(self, suffix, exact_last=True):
        """Bodies whose path ends with `suffix` at a '::' boundary; if none, retry ignoring '<impl at ...>' segments."""
        res = [p for p in self.files if p == suffix or p.endswith("::" + suffix)]
        if res:
            return res
        for p in self.files:
            norm = re.sub(r"<impl at [^>]*>::", "", p)
            if norm == suffix or norm.endswith("::" + suffix):
                res.append(p)
        return res

    def closure_by_span(self, span):
        """Body path of the closure/coroutine whose first parameter type mentions `span`."""
        if self.span_index is None:
            self.span_index = {}
            for p, f in self.files.items():
                if "{closure#" not in p:
                    continue
                with open(f, errors="replace") as fh:
                    for ln in fh:
                        if ln.startswith("fn "):
                            for m in re.finditer(r"\{(?:closure|coroutine|async block|async closure|async fn body)@([^}]*?)\}", ln):
                                self.span_index.setdefault(m.group(1).strip(), p)
                            break
        return self.span_index.get(span)
