"""C06: kernel hook redirects exactly the protected connects and records the true caller."""
import os, tempfile, shutil
from common import *
import c06_ebpf, kani

HK = os.path.join(VERIF, "harness", "kani")


def check(rep, tier, seed):
    # ---- engine B: CBMC over the unmodified C program -------------------------------------------
    with Scratch("c06") as sc:
        work = os.path.join(sc.dir, "work")
        c06_ebpf.run_layout(rep, os.path.join(sc.repo, "linux-ebpf"), work)
        c06_ebpf.run_ebpf(rep, os.path.join(sc.repo, "linux-ebpf"), tier, work)
    # ---- engine K: Kani over the user-space encoders/decoders -----------------------------------
    with kani.FixedScratch("kani-agent") as fs:
        rep.functions_encoded += [
            "proxy_agent/src/redirector/linux/ebpf_obj.rs: destination_entry::{from_ipv4,to_array}, "
            "sock_addr_audit_key::{from_source_port,to_array,from_array}, sock_addr_audit_entry::{from_array,to_array}, "
            "sock_addr_skip_process_entry::{from_pid,to_array}",
            "proxy_agent/src/redirector.rs: AuditEntry::{destination_port_in_host_byte_order,destination_ipv4_addr}, string_to_ip",
        ]
        rep.bounds["kani"] = "all u32/u16/u8 field values; unwind 8 (arrays of <= 6 words)"
        kani.run_kani(rep, fs, "azure-proxy-agent", [
            ("proxy_agent/src/redirector/linux/ebpf_obj.rs", os.path.join(HK, "c06_ebpf_obj.rs"), "verif_kani_c06"),
            ("proxy_agent/src/redirector.rs", os.path.join(HK, "c06_audit_entry.rs"), "verif_kani_c06"),
        ], timeout=1500 if tier == "quick" else 3000)
    rep.outside_claim += ["the kernel verifier/loader and real kernel map implementations", "map capacities beyond the modelled k",
                          "IPv6 (the program handles connect4 only)", "BpfObject::lookup_audit field casts (aya map I/O; not callable from a harness)",
                          "policy updates racing with connects"]
    rep.trusted += ["CBMC 6.11 C front end and SAT back end", "Kani 0.68", "bpf-helpers(7) as the helper contract"]


def replay(path):
    log("replay: see the header comment of %s for the gcc command line" % path)
    print(open(path).read())
    return 0
