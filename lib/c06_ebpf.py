"""C06, engine B: CBMC over the unmodified linux-ebpf/ebpf_cgroup.c + model of helpers/maps."""
import json, os, re, shutil
from common import *

HARNESS = os.path.join(VERIF, "harness", "ebpf")


def cbmc_cmd(src_dir, nt, ns, k, extra, checks=True):
    cmd = ["cbmc", os.path.join(HARNESS, "driver.c"), "-I", os.path.join(HARNESS, "shim"), "-I", src_dir,
           "-DVERIF_EBPF_SRC=\"%s\"" % os.path.join(src_dir, "ebpf_cgroup.c"),
           "-DVERIF_NT=%d" % nt, "-DVERIF_NS=%d" % ns, "-DVERIF_K=%d" % k,
           "--unwind", str(max(nt, ns, k, 2) + 2), "--no-standard-checks", "--json-ui"]
    if checks:
        cmd += ["--unwinding-assertions", "--bounds-check", "--pointer-check"]
    return cmd + extra


def parse_results(out):
    try:
        data = json.loads(out)
    except Exception:
        return None, "unparseable CBMC output"
    res = None
    status = None
    for item in data:
        if "result" in item:
            res = item["result"]
        if "cProverStatus" in item:
            status = item["cProverStatus"]
    return res, status


def inputs_from_trace(trace):
    vals = {}
    for st in trace or []:
        if st.get("stepType") == "assignment":
            lhs = st.get("lhs", "")
            if lhs.startswith("in_") and st.get("value", {}).get("data") is not None:
                m = re.match(r"(in_\w+)(?:\[(\d+)l?\])?$", lhs)
                if m:
                    d = st["value"]["data"]
                    d = re.sub(r"[uUlL]+$", "", d)
                    vals[(m.group(1), m.group(2))] = int(d)
    return vals


def replay_native(src_dir, nt, ns, k, vals, workdir, label):
    """Compile driver.c natively with the counterexample's input values; return set of failed labels."""
    lines = []
    for (name, idx), v in sorted(vals.items(), key=lambda kv: (kv[0][0], int(kv[0][1] or 0))):
        lines.append("    %s%s = %uu;" % (name, "[%s]" % idx if idx is not None else "", v))
    hdr = "\n".join(lines) + "\n"
    os.makedirs(workdir, exist_ok=True)
    with open(os.path.join(workdir, "replay_values.h"), "w") as f:
        f.write(hdr)
    exe = os.path.join(workdir, "replay")
    rc, out, err, _ = run(["gcc", "-O0", "-w", "-DVERIF_REPLAY", "-I", workdir, "-I", os.path.join(HARNESS, "shim"),
                           "-I", src_dir, "-DVERIF_EBPF_SRC=\"%s\"" % os.path.join(src_dir, "ebpf_cgroup.c"),
                           "-DVERIF_NT=%d" % nt, "-DVERIF_NS=%d" % ns, "-DVERIF_K=%d" % k,
                           os.path.join(HARNESS, "driver.c"), "-o", exe], timeout=120)
    if rc != 0:
        return None, "gcc failed: " + err[-500:], hdr
    rc, out, err, _ = run([exe], timeout=30)
    failed = set(re.findall(r"REPLAY-ASSERT-FAILED (.*)", out))
    return failed, out[-800:], hdr


def list_properties(src_dir, nt, ns, k):
    rc, out, err, _ = run(cbmc_cmd(src_dir, nt, ns, k, ["--show-properties"], checks=False), timeout=120)
    try:
        data = json.loads(out)
    except Exception:
        return None
    props = []
    for item in data:
        for p in item.get("properties", []):
            props.append((p["name"], p.get("description", "")))
    return props


def run_ebpf(rep, src_dir, tier, workdir):
    from concurrent.futures import ThreadPoolExecutor
    rep.functions_encoded += ["linux-ebpf/ebpf_cgroup.c: connect4, authorize_v4, update_local_map_entry, "
                              "check_skip_process_map_entry, tcp_v4_connect (BPF_KPROBE), trace_v4, "
                              "update_audit_map_entry_sk (unmodified source, #included by harness/ebpf/driver.c)"]
    rep.stubs += ["bpf_map_lookup/update/delete_elem: typed k-slot model per map (HASH: -E2BIG when full; LRU_HASH: "
                  "solver-chosen victim when full)", "bpf_get_current_pid_tgid = tgid<<32|tid; bpf_get_current_uid_gid = "
                  "gid<<32|uid (bpf-helpers(7))", "bpf_probe_read = struct copy of sock_common, returns 0",
                  "bpf_printk = no-op", "policy_map key comparison on (ipv4, port, protocol); words 1..3 of the ip union "
                  "assumed zero on both sides (see harness/ebpf/model.c)"]
    rep.assumptions += ["policy entries have protocol TCP and a 16-bit port (what update_policy_elem_bpf_map writes)",
                        "a redirect target is not itself a policy key", "policy and skip map are constant during one schedule",
                        "connects that are in progress together have distinct source ports; a later attempt may reuse the source port of a finished one (whose record the agent may never have consumed)",
                        "a thread (tgid,tid) runs one connect at a time; a process has one uid/gid",
                        "map updates do not fail for lack of memory",
                        "tcp_v4_connect runs after connect4 of the same attempt (kernel: __inet_stream_connect)"]
    if tier == "quick":
        configs = [(2, 4, 2), (3, 4, 3)]
        cap = 420
    else:
        # measured on 16 cores: (3,6,3) and (3,6,2) finish every property within 25 minutes; (4,6,2) and (4,5,2) do not finish single
        # properties within 50 minutes and are therefore not part of any claim (a timeout is never reported as success)
        configs = [(2, 4, 2), (3, 4, 3), (3, 6, 3), (3, 6, 2)]
        cap = 3000
    rep.bounds["ebpf_schedules"] = ["%d attempts, %d hook invocations, %d slots per map" % c for c in configs]
    jobs = []
    for (nt, ns, k) in configs:
        props = list_properties(src_dir, nt, ns, k)
        cfg = "NT=%d,NS=%d,K=%d" % (nt, ns, k)
        if not props:
            rep.add(Query("ebpf[%s] list properties" % cfg, "inconclusive", "cbmc --show-properties failed", 0, "cbmc"))
            continue
        for name, desc in props:
            if desc.startswith("C06.") or desc == "COVERWITNESS":
                jobs.append((nt, ns, k, cfg, name, desc))
        jobs.append((nt, ns, k, cfg, None, "memory-safety/unwinding checks"))

    def work(job):
        nt, ns, k, cfg, name, desc = job
        if name is None:
            cmd = cbmc_cmd(src_dir, nt, ns, k, ["-DVERIF_NO_PROP"], checks=True)
        else:
            cmd = cbmc_cmd(src_dir, nt, ns, k, ["--property", name, "--slice-formula", "--trace"], checks=False)
        return job, run(cmd, timeout=cap)

    with ThreadPoolExecutor(max_workers=14) as ex:
        results = list(ex.map(work, jobs))
    for (nt, ns, k, cfg, name, desc), (rc, out, err, secs) in results:
        qn = "ebpf[%s] %s" % (cfg, desc if name is None or desc != "COVERWITNESS" else "reachability witness " + name)
        if rc == -9:
            rep.add(Query(qn, "inconclusive", "CBMC timed out after %ds" % cap, secs, "cbmc", key=desc))
            continue
        res, status = parse_results(out)
        if res is None:
            rep.add(Query(qn, "inconclusive", "no result from CBMC rc=%s %s" % (rc, (out + err)[-400:]), secs, "cbmc", key=desc))
            continue
        if name is None:
            bad = [r["property"] + ": " + r.get("description", "") for r in res if r.get("status") != "SUCCESS"]
            if bad:
                rep.add(Query(qn, "inconclusive", "; ".join(bad[:5]), secs, "cbmc"))
            else:
                rep.add(Query(qn + " (%d)" % len(res), "holds", "", secs, "cbmc"))
            continue
        r = [x for x in res if x.get("property") == name]
        if not r:
            rep.add(Query(qn, "inconclusive", "property missing from result", secs, "cbmc", key=desc))
            continue
        r = r[0]
        st = r.get("status")
        if desc == "COVERWITNESS":
            rep.add(Query(qn, "witness-hit" if st == "FAILURE" else "witness-missed", "", secs, "cbmc"))
        elif st == "SUCCESS":
            rep.add(Query(qn, "holds", name, secs, "cbmc", key=desc))
        elif st == "FAILURE":
            vals = inputs_from_trace(r.get("trace"))
            wd = os.path.join(workdir, "replay-%d-%d-%d-%s" % (nt, ns, k, name.replace(".", "_")))
            failed, rout, hdr = replay_native(src_dir, nt, ns, k, vals, wd, desc)
            reproduced = failed is not None and desc in failed
            path = save_replay("C06", "ebpf_%s_%s.replay_values.h" % (cfg.replace(",", "_").replace("=", ""), name.replace(".", "_")),
                               "/* counterexample for: %s  [%s]\n   replay: save as replay_values.h in <dir>, then\n   gcc -w -DVERIF_REPLAY -I<dir> "
                               "-I/verif/harness/ebpf/shim -I/repo/linux-ebpf -DVERIF_EBPF_SRC='\"/repo/linux-ebpf/ebpf_cgroup.c\"' "
                               "-DVERIF_NT=%d -DVERIF_NS=%d -DVERIF_K=%d /verif/harness/ebpf/driver.c && ./a.out */\n%s" % (desc, cfg, nt, ns, k, hdr))
            model = {("%s[%s]" % kk if kk[1] is not None else kk[0]): v for kk, v in vals.items()}
            rep.add(Query(qn, "violated", "native replay: %s" % (sorted(failed) if failed is not None else rout),
                          secs, "cbmc", key=desc, model=model, replay=path, reproduced=reproduced))
            if reproduced:
                rep.traces_validated += 1
        else:
            rep.add(Query(qn, "inconclusive", "CBMC status %s" % st, secs, "cbmc", key=desc))


LAYOUT_C = r"""
#include <linux/bpf.h>
#include VERIF_EBPF_SRC
#include <stddef.h>
int main(void) {
  __CPROVER_assert(sizeof(destination_entry) == 24 && offsetof(destination_entry, destination_ip) == 0 &&
                   offsetof(destination_entry, destination_port) == 16 && offsetof(destination_entry, protocol) == 20,
                   "C06.layout destination_entry = ip[4] @0, port @16, protocol @20");
  __CPROVER_assert(sizeof(sock_addr_audit_key) == 8 && offsetof(sock_addr_audit_key, protocol) == 0 &&
                   offsetof(sock_addr_audit_key, source_port) == 4, "C06.layout sock_addr_audit_key = protocol @0, source_port @4");
  __CPROVER_assert(sizeof(sock_addr_audit_entry) == 20 && offsetof(sock_addr_audit_entry, logon_id) == 0 &&
                   offsetof(sock_addr_audit_entry, process_id) == 4 && offsetof(sock_addr_audit_entry, is_root) == 8 &&
                   offsetof(sock_addr_audit_entry, destination_ipv4) == 12 && offsetof(sock_addr_audit_entry, destination_port) == 16,
                   "C06.layout sock_addr_audit_entry = logon_id, process_id, is_root, destination_ipv4, destination_port");
  __CPROVER_assert(sizeof(sock_addr_skip_process_entry) == 4, "C06.layout sock_addr_skip_process_entry = pid");
  __CPROVER_assert(IPPROTO_TCP == 6 && AF_INET == 2 && BPF_SOCK_ADDR_VERDICT_PROCEED == 1, "C06.constants TCP=6 AF_INET=2 PROCEED=1");
  __CPROVER_assert(sizeof(destination_entry) == 20, "COVERWITNESS");
  return 0;
}
"""


def run_layout(rep, src_dir, workdir):
    os.makedirs(workdir, exist_ok=True)
    f = os.path.join(workdir, "layout.c")
    open(f, "w").write(LAYOUT_C)
    rc, out, err, secs = run(["cbmc", f, "-I", os.path.join(HARNESS, "shim"), "-I", src_dir,
                              "-DVERIF_EBPF_SRC=\"%s\"" % os.path.join(src_dir, "ebpf_cgroup.c"), "--no-standard-checks", "--json-ui"], timeout=120)
    res, status = parse_results(out)
    if res is None:
        rep.add(Query("ebpf layout", "inconclusive", (out + err)[-400:], secs, "cbmc"))
        return
    for r in res:
        d = r.get("description", "")
        if d == "COVERWITNESS":
            rep.add(Query("ebpf layout reachability witness", "witness-hit" if r["status"] == "FAILURE" else "witness-missed", "", 0, "cbmc"))
        elif d.startswith("C06."):
            rep.add(Query("ebpf " + d, "holds" if r["status"] == "SUCCESS" else "violated", "", secs / len(res), "cbmc", key=d,
                          reproduced=True if r["status"] != "SUCCESS" else None))
