"""C14 the proxy is transparent at the handler level (engine M, shared handler model). DESIGN.md 4/C14.
Request leg: on every relaying path of the handler the request handed to send_request is from_parts(head, Full::new(body))
with head = the head of the incoming request (only the three proxy-owned header inserts before it) and body = the collected
bytes of the incoming body. Response leg: forward_response returns from_parts(head of the host's response, its body mapped
frame by frame) with one header insert (the marker), and the frame mapper hands every data frame's bytes on unchanged
(the per-byte function is compared with the identity by the solver). The bytes on the wire (hyper's HTTP/1 codec, chunking,
keep-alive association of responses to requests) are outside the claim."""
from mcommon import *
from handler_model import *
from p_c01 import violated
import p_c05
from p_c08 import derives

RESP_MUT = re.compile(r"(Response::(headers_mut|status_mut|version_mut|extensions_mut|body_mut|map)|HeaderMap::(insert|append|try_insert|try_append|remove|clear|entry|try_entry|extend|drain|get_mut|iter_mut|values_mut))$")
# sequence operations that keep every element, in order
KEEPS = re.compile(r"(slice::iter|::iter|::into_iter|Iterator>::copied|Iterator>::cloned|Iterator>::collect|::to_vec|::to_owned|::clone|Bytes::from|Bytes::copy_from_slice|"
                   r"Vec<.*>::from|::into|::from|::as_ref|::deref|::as_slice|::freeze|BytesMut::from|::borrow)$")
CHANGES = re.compile(r"Iterator>::(rev|skip|take|step_by|filter|filter_map|skip_while|take_while|chain|zip|flat_map|scan|enumerate|peekable|cycle|dedup\w*)$|"
                     r"::(truncate|split_off|split_to|advance|slice|drain|retain|reverse|sort\w*|dedup\w*|swap|rotate_\w+|fill|clear|push|extend\w*|insert|remove|pop)$|Index<.*Range")


def body_source(p, v):
    """follow Full::new(W) <- to_bytes(C) <- collect(B).await Ok <- into_parts(X).1 ; returns X or None plus the chain"""
    evs = p.events
    chain = []
    cur = origin(v)
    for _ in range(10):
        if not isinstance(cur, Sym):
            return None, chain
        t = cur.tag
        if t[0] == "part":
            chain.append(t[2])
            cur = origin(t[1])
            continue
        if t[0] in ("ret", "await"):
            ev = [e for e in evs if e.ret is cur]
            if not ev:
                return None, chain
            e = ev[0]
            name = e.callee.split("::")[-1]
            chain.append(name)
            if e.callee.endswith("Request::into_parts"):
                return e.rargs[0], chain
            if not e.rargs:
                return None, chain
            cur = origin(e.rargs[0])
            continue
        return None, chain
    return None, chain



def check_relay_chain(rep, ctx):
    """what the handler hands to HttpConnectionContext::send_request is what hyper's SendRequest of THIS connection gets, and the host's
    answer comes back unchanged: the three crate functions in between pass the request through and return their callee's result"""
    chain = [("HttpConnectionContext", "send_request", r"TcpConnectionContext::send_request$"),
             ("TcpConnectionContext", "send_request", r"Client::send_request$"),
             ("Client", "send_request", r"SendRequest::send_request$")]
    MUT = re.compile(r"(headers_mut|uri_mut|method_mut|version_mut|body_mut|extensions_mut|into_parts|from_parts|map$|Request::new|Request::builder)")
    for owner, meth, nxt in chain:
        try:
            w = ctx.method(owner, meth) + "::{closure#0}"
        except Exception as e:
            rep.add(Query("relay chain: %s::%s located" % (owner, meth), "inconclusive", str(e), 0, "mirsym", key="C14.relay-chain"))
            continue
        eng = ctx.engine(loop_bound=2)
        paths = eng.explore(w)
        rep.functions_encoded.append(w)
        n_fwd = 0
        for i, r in enumerate(paths):
            env = origin(r.args[0])
            req = env.child(("f", 1))
            calls = [e for e in r.events if e.kind == "call" and re.search(nxt, e.callee)]
            awaits = [e for e in r.events if e.kind == "await" and re.search(nxt, e.callee)]
            if not calls:
                # no relay on this path: it must be an error result (closed / no upstream connection)
                ok = r.status == "return" and isinstance(r.ret, Agg) and r.ret.variant == "Err"
                rep.add(Query("relay chain %s::%s path %d: without a relay the result is an error" % (owner, meth, i), "holds" if ok else "violated", str(r.ret)[:80], 0, "mirsym", key="C14.relay-chain.no-relay", reproduced=None))
                continue
            n_fwd += 1
            touched = [e.callee for e in r.events if e.kind in ("call", "store") and MUT.search(e.callee) and e.rargs and derives(e.rargs[0], req, r.events)]
            same_req = len(calls) == 1 and same_origin(calls[0].rargs[1], req)
            own_sender = derives(calls[0].rargs[0], env, r.events) or any(derives(calls[0].rargs[0], e.ret, r.events) for e in r.events if e.kind == "await" and e.callee.endswith("Mutex::lock") and derives(e.rargs[0], env, r.events))
            rep.add(Query("relay chain %s::%s path %d: the request argument is passed on as it is, once, over this connection's own sender" % (owner, meth, i),
                          "holds" if same_req and own_sender and not touched else "violated", "same request %s, own sender %s, touched by %s" % (same_req, own_sender, touched), 0, "mirsym", key="C14.relay-chain.request", reproduced=None))
            # the result: the awaited answer itself, or its Ok payload with only the error mapped
            ret = r.ret
            o = origin(ret)
            back = bool(awaits) and (o is awaits[-1].ret or same_origin(ret, awaits[-1].ret) or (isinstance(o, Sym) and isinstance(o.tag, tuple) and o.tag[0] == "map_err" and same_origin(o.tag[1], awaits[-1].ret)))
            rep.add(Query("relay chain %s::%s path %d: the host's answer is returned as received (only an error is wrapped)" % (owner, meth, i), "holds" if back else "violated", str(ret)[:100], 0, "mirsym",
                          key="C14.relay-chain.response", reproduced=None))
        rep.add(Query("witness: %s::%s has a forwarding path" % (owner, meth), "witness-hit" if n_fwd else "witness-missed", "%d" % n_fwd, 0, "mirsym"))


def check_codec_defaults(rep, ctx):
    """the bytes on the wire are hyper's business (outside the claim) as long as hyper is used with its defaults: the upstream connection is
    opened by the plain handshake - any connection option set here (buffer / header-count / read limits, http09, ...) changes which of the
    host's responses reach the client and is a violation of transparency that the data-flow obligations cannot see"""
    c = [p for p in ctx.idx.files if re.search(r"hyper_client::build_http_sender::\{closure#0\}$", p)]
    if len(c) != 1:
        rep.add(Query("build_http_sender located", "inconclusive", "%d candidates" % len(c), 0, "mirsym", key="C14.codec-defaults"))
        return
    eng = ctx.engine(loop_bound=1)
    eng.auto_inline = ctx.new_function_auto()
    opts, n = set(), 0
    for r in eng.explore(c[0]):
        n += 1
        for e in r.events:
            m = re.search(r"http1::Builder(?:<[^>]*>)?::(\w+)$", e.callee) if e.kind in ("call", "await") else None
            if m and m.group(1) not in ("new", "handshake"):
                opts.add(m.group(1))
    rep.functions_encoded.append(c[0])
    rep.add(Query("upstream connection: opened with hyper's default HTTP/1 options (no limit or parsing option is set)", "holds" if n and not opts else "violated", "options set: %s" % sorted(opts), 0, "mirsym",
                  key="C14.codec-defaults", reproduced=None))


def check(rep, tier, seed):
    ctx = Ctx("agent")
    rep.extra["mir_dump"] = {"cache_hit": ctx.dump.cache_hit, "tree_hash": ctx.dump.hash, "seconds": round(ctx.dump.seconds, 1)}
    hm = HandlerModel(ctx, rep)
    CL, DT, AU = p_c05.const_str(ctx, "CLAIMS_HEADER"), p_c05.const_str(ctx, "DATE_HEADER"), p_c05.const_str(ctx, "AUTHORIZATION_HEADER")
    n = 0
    for p in hm.paths:
        if not p.relays:
            continue
        n += 1
        relay = p.relays[0]
        # one request, one upstream send: the obligations below are about THE relayed request; a second send on the same path (a resend
        # over another connection, a copy taken at some earlier point) would put a request on the wire that they do not cover
        ups = p.upstream_sends
        if len(ups) != 1:
            violated(rep, "path %d: the request is sent upstream exactly once" % p.i, "C14.one-relay", "upstream sends on this path: %s" % [e.callee for e in ups], p)
        else:
            rep.add(Query("path %d: the request is sent upstream exactly once" % p.i, "holds", "", 0, "mirsym", key="C14.one-relay"))
        pre = p.events[:p.index(relay)]

        def ob(name, ok, key, detail=""):
            qn = "path %d: %s" % (p.i, name)
            if ok:
                rep.add(Query(qn, "holds", detail, 0, "mirsym", key=key))
            else:
                violated(rep, qn, key, detail, p)
        sent, fp, ip = p_c05.relayed_request_chain(p, relay)
        ob("the relayed request's head is the head of the incoming request", fp is not None and ip is not None and same_origin(ip.rargs[0], p.request), "C14.req.head")
        muts = [e for e in pre if e.kind == "call" and p_c05.MUTATORS.search(e.callee)]
        inserts = [e for e in muts if e.callee.endswith("HeaderMap::insert")]
        names = [p_c05.header_name_of(p, e) for e in inserts]
        other = [e.callee.split("::")[-1] for e in muts if not (e.callee.endswith("HeaderMap::insert") or e.callee.endswith("Request::headers_mut"))]
        ob("method, uri, version and the client's headers are not modified: the only writes are inserts of the proxy-owned headers",
           not other and all(nm in (CL, DT, AU) for nm in names), "C14.req.untouched", "other mutators %s, inserted names %s" % (other, names))
        if fp is not None:
            body = fp.rargs[1] if len(fp.rargs) > 1 else None
            src, chain = body_source(p, body)
            good = src is not None and same_origin(src, p.request) and "to_bytes" in chain and "collect" in chain and ("new" in chain)
            ob("the relayed body is Full::new(collected bytes of the incoming request's body)", good, "C14.req.body", "chain %s" % chain)
            if good:
                bad = [c for c in chain if isinstance(c, str) and CHANGES.search("::" + c)]
                ob("no truncating/reordering operation between the collected body and the relayed body", not bad, "C14.req.body-ops", "%s" % bad)
        after = p.events[p.index(relay) + 1:]
        fw = [e for e in after if e.kind == "await" and e.callee.endswith("forward_response")]
        ob("the host's answer to this very relay is what forward_response receives", bool(fw) and same_origin(fw[0].rargs[1] if len(fw[0].rargs) > 1 else None, relay.ret), "C14.resp.source",
           "forward_response args %r" % ([repr(a)[:60] for a in fw[0].rargs] if fw else None))
        ob("the handler returns forward_response's result as is", p.response()[0] == "forward", "C14.resp.returned", "%s" % (p.response(),))
    rep.add(Query("witness: relay paths examined", "witness-hit" if n else "witness-missed", "%d" % n, 0, "mirsym"))
    check_forward(rep, ctx, AU)
    rep.bounds["handler"] = "%d complete paths (all), loop-free" % len(hm.paths)
    rep.assumptions += ["Request/Response::into_parts and from_parts are inverse; Full::new(b) is a body of exactly the bytes b; BodyExt::collect().to_bytes() is the concatenation of the body's data frames; "
                        "map_frame applies the closure to every frame in order (documented contracts of http, http-body-util)", "Future::poll returns Ready"]
    rep.outside_claim += ["bytes on the wire: hyper's HTTP/1 encoding/decoding, chunked vs content-length framing, regenerated framing and Date headers", "non-data frames (trailers) of the host's response",
                          "association of responses to requests on a keep-alive connection (hyper serves one request at a time per connection; the upstream sender is used under a mutex)",
                          "request bodies over the size limit (rejected by the RequestBodyLimit layer before the handler)"]
    rep.trusted += ["http / http-body-util / hyper crates", "mirsym", "z3"]
    import e2e
    check_relay_chain(rep, ctx)
    check_codec_defaults(rep, ctx)
    e2e.confirm(rep, "C14")
    # an operation the check does not know is a violation only if the end-to-end replay confirms it; otherwise undecided (exit 2)
    for q in rep.queries:
        if q.status == "violated" and "UNKNOWN-OP" in (q.detail or "") and not q.reproduced:
            q.status = "inconclusive"


def check_forward(rep, ctx, AU):
    w = ctx.method("ProxyServer", "forward_response")
    body = w + "::{closure#0}"
    eng = ctx.engine()
    paths = eng.explore(body)
    rep.functions_encoded.append(body)
    cap = None
    n_ok = 0
    frame_closure = None
    for i, r in enumerate(paths):
        if r.status != "return":
            continue
        fp = [e for e in r.events if e.kind == "call" and e.callee.endswith("Response::from_parts")]
        if not fp:
            # no response is built from parts: legitimate only when the host could not be reached (the argument is Err: an empty 502/503).
            # A path that holds the host's response (into_parts of it / argument Ok) and answers with something else drops its head.
            host_resp = [e for e in r.events if e.kind == "call" and e.callee.endswith("Response::into_parts")]
            arg_ok = False
            co_ = origin(r.args[0])
            if isinstance(co_, Sym):
                for k_, ch in list(co_._kids.items()):
                    pass
            if host_resp:
                rep.add(Query("forward_response path %d: a response received from the host is relayed from its own head and body" % i, "violated",
                              "the host's response is taken apart but the value returned is %r" % (r.ret,), 0, "mirsym", key="C14.resp.built", reproduced=None))
            continue
        n_ok += 1
        fp = fp[-1]

        def ob(name, ok, key, detail=""):
            rep.add(Query("forward_response path %d: %s" % (i, name), "holds" if ok else "violated", detail, 0, "mirsym", key=key, reproduced=None))
        ret_ok = isinstance(r.ret, Agg) and r.ret.variant == "Ok" and same_origin(r.ret.fields[0], fp.ret)
        ob("the value returned is the response built by from_parts", ret_ok, "C14.resp.built")
        ip = [e for e in r.events if e.kind == "call" and e.callee.endswith("Response::into_parts")]
        co = origin(r.args[0])
        src_ok = bool(ip) and isinstance(origin(ip[0].rargs[0]), Sym) and is_part_of(origin(ip[0].rargs[0]), co) and \
            [k for k in _chain(origin(ip[0].rargs[0]), co) if k == ("v", "Ok", 0)]
        ob("into_parts is applied to the host's response (the Ok payload of the argument)", bool(src_ok), "C14.resp.from-host")
        head_ok = bool(ip) and is_part_of(origin(fp.rargs[0]), ip[0].ret, [("f", 0)])
        ob("status, version and headers: the head of the host's response is reused", head_ok, "C14.resp.head")
        mf = [e for e in r.events if e.kind == "call" and e.callee.endswith("map_frame")]
        bx = origin(fp.rargs[1])
        body_ok = False
        if mf and ip:
            m0 = mf[-1]
            via_boxed = [e for e in r.events if e.ret is bx and re.search(r"::boxed$|::boxed_unsync$", e.callee) and same_origin(e.rargs[0], m0.ret)]
            body_ok = (same_origin(bx, m0.ret) or bool(via_boxed)) and is_part_of(origin(m0.rargs[0]), ip[0].ret, [("f", 1)])
            cl = m0.rargs[1] if len(m0.rargs) > 1 else None
            if isinstance(cl, Agg) and cl.kind == "closure" and cl.body_path:
                frame_closure = cl.body_path
        elif ip:
            body_ok = is_part_of(bx, ip[0].ret, [("f", 1)]) or any(e.ret is bx and re.search(r"::boxed$", e.callee) and is_part_of(origin(e.rargs[0]), ip[0].ret, [("f", 1)]) for e in r.events)
        ob("body: the host's response body, mapped frame by frame (or handed on as is)", body_ok, "C14.resp.body")
        muts = [e for e in r.events if e.kind == "call" and RESP_MUT.search(e.callee)]
        ins = [e for e in muts if e.callee.endswith("HeaderMap::insert")]
        names = []
        for e in ins:
            nm = origin(e.rargs[1])
            for x in r.events:
                if x.ret is nm and x.callee.endswith("HeaderName::from_static") and isinstance(x.rargs[0], StrV):
                    names.append(x.rargs[0].e.as_string())
        other = [e.callee.split("::")[-1] for e in muts if not (e.callee.endswith("HeaderMap::insert") or e.callee.endswith("Response::headers_mut"))]
        ob("the only change to the response is the insert of the proxy's marker header", not other and names == [AU] and len(ins) == 1, "C14.resp.marker-only", "other %s inserted %s" % (other, names))
    rep.add(Query("witness: forward_response has a relaying path", "witness-hit" if n_ok else "witness-missed", "%d" % n_ok, 0, "mirsym"))
    if frame_closure is None:
        return
    # ---- the frame mapper ----
    e2 = ctx.engine()
    fpaths = e2.explore(frame_closure)
    rep.functions_encoded.append(frame_closure)
    n_data = 0
    for i, r in enumerate(fpaths):
        if r.status != "return":
            rep.add(Query("frame mapper path %d returns" % i, "violated", "%s %s" % (r.status, r.note), 0, "mirsym", key="C14.frame.returns", reproduced=None))
            continue
        idt = [e for e in r.events if e.kind == "call" and e.callee.endswith("Frame::into_data")]
        if not idt:
            ok = same_origin(r.ret, r.args[1])
            rep.add(Query("frame mapper path %d: the frame is handed on as is" % i, "holds" if ok else "violated", "", 0, "mirsym", key="C14.frame.data", reproduced=None))
            continue
        rs, _m, _dt, _zm = check_sat(r.pc + [idt[0].ret.discr() == 0])
        if rs != "sat":
            continue          # a non-data frame (trailers): outside the claim
        n_data += 1
        fd = [e for e in r.events if e.kind == "call" and e.callee.endswith("Frame::data") and same_origin(e.ret, r.ret)]
        data = idt[0].ret.child(("v", "Ok", 0))
        ok, detail = False, "no Frame::data"
        if fd:
            ok, detail = preserves(ctx, rep, r, fd[0].rargs[0], data)
            if ok:
                # the data (or a value on the way) must not be cut or reordered in place either (split_to, truncate, advance, ...)
                idx_fd = r.events.index(fd[0])
                for e in r.events[:idx_fd]:
                    if e.kind == "call" and CHANGES.search(e.callee) and e.rargs and (same_origin(e.rargs[0], data) or same_origin(e.rargs[0], fd[0].rargs[0])):
                        ok, detail = False, "%s is applied to the frame's data before it is handed on" % e.callee.split("::")[-1]
                        break
        rep.add(Query("frame mapper path %d: a data frame's bytes are handed on unchanged, in order, all of them" % i, "holds" if ok else "violated", detail, 0, "mirsym+z3", key="C14.frame.data", reproduced=None))
    rep.add(Query("witness: the frame mapper has a data-frame path", "witness-hit" if n_data else "witness-missed", "%d" % n_data, 0, "mirsym"))


def _chain(part, whole):
    chain, cur = [], origin(part)
    whole = origin(whole)
    for _ in range(40):
        if cur is whole:
            break
        if isinstance(cur, Sym) and isinstance(cur.tag, tuple) and cur.tag[0] == "part":
            chain.append(cur.tag[2])
            cur = origin(cur.tag[1])
        else:
            break
    return chain


def preserves(ctx, rep, r, v, data):
    """v is `data` up to element-preserving sequence operations; map(f) only with f == identity (solver)"""
    cur = origin(v)
    steps = []
    for _ in range(16):
        if same_origin(cur, data):
            return True, "chain %s" % steps
        if not isinstance(cur, Sym):
            return False, "unexpected value %r" % (cur,)
        t = cur.tag
        if t[0] == "part" and t[2] == "*":
            cur = origin(t[1])
            continue
        if t[0] != "ret":
            return False, "source %r is not the frame's data" % (cur,)
        ev = [e for e in r.events if e.ret is cur]
        if not ev:
            return False, "no producer for %r" % (cur,)
        e = ev[0]
        name = e.callee
        steps.append(name.split("::")[-1])
        if re.search(r"Iterator>::map$", name) and len(e.rargs) == 2:
            cl = e.rargs[1]
            if not (isinstance(cl, Agg) and cl.kind == "closure" and cl.body_path):
                return False, "map with an opaque function"
            okf, d = identity_fn(ctx, rep, cl.body_path)
            if not okf:
                return False, d
        elif CHANGES.search(name):
            return False, "%s drops, adds or reorders bytes (chain %s)" % (name.split("::")[-1], steps)
        elif not KEEPS.search(name):
            return False, "UNKNOWN-OP operation %s is not known to keep the bytes (chain %s)" % (name, steps)
        if not e.rargs:
            return False, "no input"
        cur = origin(e.rargs[0])
    return False, "chain too long %s" % steps


def identity_fn(ctx, rep, path):
    eng = ctx.engine()
    ps = eng.explore(path)
    rep.functions_encoded.append(path)
    for r in ps:
        if r.status != "return":
            return False, "the per-byte function can %s" % r.status
        arg = r.args[1] if len(r.args) > 1 else None
        a = origin(arg)
        inp = a.child("*") if isinstance(a, Sym) else None
        if inp is None:
            return False, "per-byte function without a byte argument"
        out = r.ret
        if same_origin(out, inp):
            continue
        try:
            zi, zo = eng.to_z3(inp, "u8"), eng.to_z3(out, "u8")
        except Exception as ex:
            return False, "per-byte function result not expressible: %s" % ex
        bad = add_query(rep, "per-byte function of the frame mapper is the identity on every byte value", r.pc + [zi != zo], key="C14.frame.byte-identity")
        if bad:
            return False, "per-byte function changes byte %s" % bad[0]
    rep.add(Query("per-byte function of the frame mapper returns its argument on every path", "holds", "%d paths" % len(ps), 0, "mirsym+z3", key="C14.frame.byte-identity"))
    return True, ""


def replay(path):
    print(open(path).read())
    return 0
