#ifndef VERIF_SHIM_BPF_TRACING_H
#define VERIF_SHIM_BPF_TRACING_H
/* BPF_KPROBE(name, args...) in libbpf declares  int name(struct pt_regs *ctx)  and unpacks
   the probed function's arguments from the registers.  The shim keeps the unpacked form:
   int name(struct pt_regs *ctx, <args>)  -- the driver passes the first argument directly. */
#define BPF_KPROBE(name, args...) name(struct pt_regs *ctx, ##args)
#endif
