// append to proxy_agent/src/proxy/authorization_rules.rs; run the whole azure-proxy-agent test binary

#[cfg(test)]
mod verif_replay_c02_dup {
    use super::*;
    use crate::key_keeper::key::{AccessControlRules, AuthorizationItem, Identity, Privilege, Role, RoleAssignment};
    use crate::proxy::proxy_connection::ConnectionLogger;
    use std::{ffi::OsString, path::PathBuf, str::FromStr};
    fn decide(first: &str, second: &str, url: &str) -> bool {
        let p = |path: &str| Privilege { name: "p".to_string(), path: path.to_string(), queryParameters: None };
        let rules = AccessControlRules {
            roles: Some(vec![Role { name: "r".to_string(), privileges: vec!["p".to_string()] }]),
            privileges: Some(vec![p(first), p(second)]),          // two privileges under ONE name
            identities: Some(vec![Identity { name: "i".to_string(), exePath: None, groupName: None, processName: None, userName: Some("verif".to_string()) }]),
            roleAssignments: Some(vec![RoleAssignment { role: "r".to_string(), identities: vec!["i".to_string()] }]),
        };
        let item = AuthorizationItem { defaultAccess: "deny".to_string(), mode: "enforce".to_string(), rules: Some(rules), id: "0".to_string() };
        let computed = ComputedAuthorizationItem::from_authorization_item(item);
        let claims = crate::proxy::Claims { userId: 0, userName: "verif".to_string(), userGroups: vec![], processId: 1, processFullPath: PathBuf::from("/x"), clientIp: "0".to_string(), clientPort: 0,
            processName: OsString::from("x"), processCmdLine: "x".to_string(), runAsElevated: true };
        let mut logger = ConnectionLogger::new(0, 0);
        computed.is_allowed(&mut logger, hyper::Uri::from_str(url).unwrap(), claims)
    }
    #[test]
    fn c02_decision_does_not_depend_on_the_listing_order_of_same_named_privileges() {
        let (a, b) = (decide("/alpha", "/beta", "http://localhost/alpha/x"), decide("/beta", "/alpha", "http://localhost/alpha/x"));
        assert_eq!(a, b, "listing the two privileges named p in the other order changes the decision for http://localhost/alpha/x: {} vs {}", a, b);
    }
}
