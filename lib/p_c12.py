"""C12 the latched key value never leaves the key store (engine M + explicit-flow tracking, lib/taint.py). DESIGN.md 4/C12.

Every function of the agent that can hold the key value is executed symbolically on its MIR; the key (type-directed: the
`key` field of every `Key`-typed object; plus parameters/returns named below) is followed through the trace of each path.
Obligation per path: no value that contains key material reaches a call that makes data observable (log, status message,
telemetry event, console, file other than the key file, response/header to a client). Functions are analysed bottom-up;
what a callee's return value carries (per enum variant) is computed from the callee's own body and applied, with the
variant as a solver-checked guard, at its call sites."""
from mcommon import *
import taint
import callgraph

UNIT_MAX_PATHS = 6000
UNIT_LOOP_BOUND, CALLER_LEVELS = 2, 3


class Carry:
    """what the value returned by a function carries: [(chain of child keys, label)]"""

    def __init__(self, name):
        self.name, self.chains = name, {}

    def add(self, chain, label):
        cur = self.chains.get(tuple(chain))
        if cur is None:
            self.chains[tuple(chain)] = label
        elif label not in cur.split(" ;; "):
            self.chains[tuple(chain)] = cur + " ;; " + label        # the same part handed out for different reasons (causes)

    def rule(self, needs_arg=None):
        """ret rule for taint.PathTaint: marks the carried parts of the call's result (if the argument test passes)"""
        def fn(pt, e):
            if needs_arg is not None:
                idxs = needs_arg if isinstance(needs_arg, (list, tuple)) else [needs_arg]
                args = list(e.rargs or [])
                if not any(i < len(args) and pt.mentions(args[i]) for i in idxs):
                    return []
            out = []
            for chain, label in self.chains.items():
                v = e.ret
                ok = True
                for k in chain:
                    if not isinstance(v, Sym):
                        ok = False
                        break
                    v = v.child(k)
                if not ok:
                    out.append((None, label, None))
                    continue
                guard = pt._chain_guard(v, origin(e.ret)) if chain else None
                out.append((v if chain else None, label, guard))
            return out
        return fn


def leaves(pt, v, chain=(), out=None, depth=0):
    """chains to the parts of a returned value that contain key material"""
    if out is None:
        out = []
    if depth > 6:
        return out
    v0 = v
    if isinstance(v, Agg) and v.kind in ("enum",) and v.variant is not None:
        for i, f in enumerate(v.fields):
            leaves(pt, f, chain + (("v", v.variant, i),), out, depth + 1)
        return out
    if isinstance(v, Agg) and v.kind in ("struct", "tuple") and not (v.name or "").startswith("fmt::") and not re.search(r"(^|::)Key$", v.name or ""):
        for i, f in enumerate(v.fields):
            leaves(pt, f, chain + (("f", i),), out, depth + 1)
        return out
    o = origin(v0)
    if isinstance(o, Sym) and not pt.directly_tainted(o):
        # an opaque result (e.g. a callee's result handed on): name the parts that are secret, not the whole
        found = False
        for (m, lab, guard) in pt.marked:
            if is_part_of(m, o) and pt._guard_ok(guard):
                out.append((chain + tuple(part_chain(m, o)), lab))
                found = True
        for (w, lab) in pt.whole:
            if is_part_of(w, o):
                out.append((chain + tuple(part_chain(w, o)), lab))
                found = True
        if found:
            return out
    lab = pt.mentions(v0)
    if lab:
        out.append((chain, lab))
    return out


def part_chain(part, whole):
    chain, cur = [], origin(part)
    whole = origin(whole)
    for _ in range(40):
        if cur is whole or (isinstance(cur, Sym) and isinstance(whole, Sym) and cur.root() is whole.root()):
            break
        if isinstance(cur, Sym) and isinstance(cur.tag, tuple) and cur.tag[0] == "part":
            chain.append(cur.tag[2])
            cur = origin(cur.tag[1])
        else:
            break
    chain.reverse()
    return chain


def variant_names(chain):
    return "/".join(k[1] for k in chain if isinstance(k, tuple) and k[0] == "v")


def map_err_summary(engine, fr, callee, args, site, ret_ty):
    """Result::map_err with a closure whose body is in the dump: the closure is executed on the Err payload (an error that
    is re-built without the secret is then seen as clean); the Ok payload is handed on."""
    if len(args) != 2:
        return NotImplemented
    r0, clos = args[0], args[1]
    if isinstance(clos, Ref):
        try:
            clos = engine.deref(clos)
        except Exception:
            return NotImplemented
    if not (isinstance(clos, Agg) and clos.kind == "closure" and clos.body_path and clos.body_path in engine.idx.files):
        return NotImplemented
    if isinstance(r0, Agg) and r0.variant == "Ok":
        return r0
    if isinstance(r0, Agg) and r0.variant == "Err":
        payload = r0.fields[0]
    elif isinstance(r0, Sym):
        lab = engine.choose([("map_err-ok", r0.discr() == 0), ("map_err-err", r0.discr() == 1)])
        if lab == "map_err-ok":
            return engine.mk_enum("Result", "Ok", [r0.child(("v", "Ok", 0))])
        payload = r0.child(("v", "Err", 0))
    else:
        return NotImplemented
    engine.inlined.add(clos.body_path)
    res = engine.run_body(engine.idx.body(clos.body_path), [clos, payload], 2)
    return engine.mk_enum("Result", "Err", [res])


def map_summary(engine, fr, callee, args, site, ret_ty):
    """Option::map / and_then, Result::map / and_then with a closure whose body is in the dump: the closure is executed on the payload
    (so `.map(|k| k.guid)` is seen to hand on the guid only); the other variant is handed on."""
    if len(args) != 2:
        return NotImplemented
    m = re.search(r"(Option|Result)(?:<.*>)?::(map|and_then)$", callee)
    if not m:
        return NotImplemented
    kind, op = m.group(1), m.group(2)
    v, clos = args[0], args[1]
    if isinstance(clos, Ref):
        try:
            clos = engine.deref(clos)
        except Exception:
            return NotImplemented
    if not (isinstance(clos, Agg) and clos.kind == "closure" and clos.body_path and clos.body_path in engine.idx.files):
        return NotImplemented
    good, bad = ("Some", "None") if kind == "Option" else ("Ok", "Err")
    gi = 1 if kind == "Option" else 0
    if isinstance(v, Agg) and v.variant == bad:
        return v
    if isinstance(v, Agg) and v.variant == good:
        payload = v.fields[0]
    elif isinstance(v, Sym):
        lab = engine.choose([("map-" + good, v.discr() == gi), ("map-" + bad, v.discr() == 1 - gi)])
        if lab == "map-" + bad:
            return engine.mk_enum(kind, bad, [] if kind == "Option" else [v.child(("v", "Err", 0))])
        payload = v.child(("v", good, 0))
    else:
        return NotImplemented
    body = engine.idx.body(clos.body_path)
    if isinstance(payload, Sym) and payload.ty is None:
        payload.ty = body.arg_types.get(2)          # the closure's parameter type: keeps type-directed recognition of Key objects
    engine.inlined.add(clos.body_path)
    res = engine.run_body(body, [clos, payload], 2)
    return engine.mk_enum(kind, good, [res]) if op == "map" else res


SUMMARIES = [(r"Result::map_err$|Result<.*>::map_err$", map_err_summary), (r"(Option|Result)(<.*>)?::(map|and_then)$", map_summary)]


class Analysis:
    def __init__(self, ctx, rep):
        self.ctx, self.rep = ctx, rep
        self.flows = []
        self.n_paths = 0
        self.n_guard = 0
        self.units = []

    def unit(self, name, body, marks_of=None, rules=None, engine=None, paths=None, carry_label=None, ret_filter=None, extra_declass=None):
        """explore `body` (or take `paths`), run the taint pass on every complete path, return what the result carries"""
        ctx, rep = self.ctx, self.rep
        if paths is None:
            eng = engine or ctx.engine(loop_bound=UNIT_LOOP_BOUND, max_paths=UNIT_MAX_PATHS, timeout=300, summaries=SUMMARIES)
            paths = eng.explore(body)
            rep.functions_encoded += [body] + sorted(getattr(eng, "inlined", []))
        carry = Carry(name)
        n = nflow = 0
        for i, r in enumerate(paths):
            if r.status not in ("return", "cut", "panic", "stop"):
                continue
            n += 1
            marks = marks_of(r) if marks_of else []
            pt = taint.PathTaint(ctx, r, name, i, marks=marks, ret_rules=rules or [])
            fl = pt.run(extra_declass=extra_declass)
            self.n_guard += pt.solver_queries
            if r.status == "return" and r.ret is not None:
                lv = leaves(pt, r.ret)
                if lv:
                    # WHEN the function hands the secret out: the calls whose failure this path depends on (or a plain condition)
                    def is_result(v):
                        ks = [k for k in v._kids if isinstance(k, tuple) and k[0] == "v"]
                        return bool(ks) and all(k[1] in ("Ok", "Err") for k in ks) or ("Result<" in (v.ty or ""))
                    failing = sorted({e.callee.split("::")[-1] for e in r.events if e.kind in ("call", "await") and isinstance(e.ret, Sym) and is_result(e.ret)
                                      and check_sat(r.pc + [e.ret.discr() != 1], 5000)[0] == "unsat"})
                    cause = "+".join(failing) if failing else "condition"
                for chain, lab in lv:
                    vn = variant_names(chain)
                    carry.add(chain + (("cause", cause),) if False else chain, lab if "carried" in lab else "%s carried in %s()'s %s[%s]" % (lab, name, vn or "result", cause))
            seen = set()
            for f in fl:
                k = (f.sink, f.label)
                if k in seen:
                    continue
                seen.add(k)
                nflow += 1
                self.flows.append(f)
        self.n_paths += n
        self.units.append((name, n, nflow, dict(carry.chains)))
        rep.add(Query("%s: %d paths examined, key material reaches no observable output" % (name, n), "holds" if not nflow and n else ("witness-missed" if not n else "holds"),
                      "", 0, "mirsym+z3", nontrivial=bool(n))) if not nflow else None
        return carry


def coroutine_caps(ctx, wrapper):
    e0 = ctx.engine(auto=False)
    e0._reset([])
    wb = ctx.idx.body(wrapper)
    co = e0.run_body(wb, [Sym(("arg", i + 1)) for i in range(wb.nargs)], 0)
    if not isinstance(co, Agg) or not co.names:
        raise Inconclusive("%s does not build a coroutine aggregate" % wrapper)
    return {n: i for i, n in enumerate(co.names)}


def check(rep, tier, seed):
    global UNIT_LOOP_BOUND, CALLER_LEVELS
    UNIT_LOOP_BOUND, CALLER_LEVELS = (2, 3) if tier == "quick" else (3, 5)
    ctx = Ctx("agent")
    rep.extra["mir_dump"] = {"cache_hit": ctx.dump.cache_hit, "tree_hash": ctx.dump.hash, "seconds": round(ctx.dump.seconds, 1)}
    A = Analysis(ctx, rep)
    KEYV = "the key value"

    # ---- U1 helpers::compute_signature(key, input) ----
    p_sig = ctx.one("helpers::compute_signature")
    c_sig = A.unit("compute_signature", p_sig, marks_of=lambda r: [(r.args[0], KEYV)])
    sig_rule = (r"compute_signature$", c_sig.rule(needs_arg=0))

    # ---- U2 hyper_client::read_response_body: what its result carries of the response BODY ----
    p_rrb = ctx.one("hyper_client::read_response_body") + "::{closure#0}"
    frame_rule = (r"BodyExt>::frame$|Frame<.*>::(data_ref|into_data)$|Frame::(data_ref|into_data)$", lambda pt, e: [(e.ret.child(("v", "Some", 0)).child(("v", "Ok", 0)), "the key document (response body)", None)] if e.kind == "await" else
                  ([(None, "the key document (response body)", None)] if "data" in e.callee else []))
    c_rrb = A.unit("read_response_body", p_rrb, rules=[frame_rule])

    # ---- U3 hyper_client::build_request(method, url, headers, body, key_guid, key) ----
    p_br = ctx.one("hyper_client::build_request")
    c_br = A.unit("build_request", p_br, marks_of=lambda r: [(origin(r.args[5]).child(("v", "Some", 0)) if isinstance(origin(r.args[5]), Sym) else r.args[5], KEYV)], rules=[sig_rule])
    br_rule = (r"hyper_client::build_request$|(^|::)build_request$", c_br.rule(needs_arg=5))

    # ---- U4 hyper_client::get(url, headers, key_guid, key, log_fun) ----
    w_get = ctx.one("hyper_client::get")
    cap = coroutine_caps(ctx, w_get)
    if "key" not in cap:
        raise Inconclusive("hyper_client::get has no captured parameter `key`")
    c_get = A.unit("hyper_client::get", w_get + "::{closure#0}",
                   marks_of=lambda r: [(origin(r.args[0]).child(("f", cap["key"])).child(("v", "Some", 0)), KEYV)], rules=[br_rule, sig_rule])
    get_rule = (r"hyper_client::get$", c_get.rule(needs_arg=3))

    # ---- U5 key::acquire_key: the response body IS the key document ----
    w_acq = ctx.one("key::acquire_key")
    rrb_as_key = Carry("read_response_body")
    for chain, lab in c_rrb.chains.items():
        if any(isinstance(k, tuple) and k[0] == "v" and k[1] == "Err" for k in chain):
            rrb_as_key.add(chain, lab)
    c_acq = A.unit("acquire_key", w_acq + "::{closure#0}", rules=[(r"read_response_body$", rrb_as_key.rule()), br_rule, sig_rule])
    acq_rule = (r"(^|::)acquire_key$", c_acq.rule())

    # ---- U6 key::attest_key(base_url, &Key) ----
    w_att = ctx.one("key::attest_key")
    c_att = A.unit("attest_key", w_att + "::{closure#0}", rules=[br_rule, sig_rule])
    att_rule = (r"(^|::)attest_key$", c_att.rule(needs_arg=1))

    # ---- U7 the getters of the in-memory key (shared_state::key_keeper_wrapper) ----
    getter_rules = []
    for g in ("get_current_key_value", "get_current_key_guid_and_value", "get_current_key_guid", "get_current_key_incarnation"):
        try:
            w = ctx.method("KeyKeeperSharedState", g)
        except Inconclusive:
            continue
        cg_ = A.unit("KeyKeeperSharedState::" + g, w + "::{closure#0}")
        getter_rules.append((r"(^|::)%s$" % g, cg_.rule()))
        if g == "get_current_key_guid" and cg_.chains:
            rep.add(Query("get_current_key_guid returns the guid only", "violated", "its result carries %s" % list(cg_.chains.values())[:2], 0, "mirsym+z3", key="C12.getter:guid-carries-key", reproduced=None))
    witness_getter = any(c[0].endswith("get_current_key_value") and c[3] for c in A.units)

    # ---- the actor message that publishes the key in memory: what its result can carry back ----
    w_upd = ctx.method("KeyKeeperSharedState", "update_key")
    w_set = ctx.method("KeyKeeperSharedState", "set_key")
    c_upd = A.unit("KeyKeeperSharedState::update_key", w_upd + "::{closure#0}", engine=ctx.engine(inline=[(r"KeyKeeperSharedState::set_key$", w_set), (r"^\b$", w_set + "::{closure#0}")]),
                   extra_declass=re.compile(r"mpsc::(bounded::)?Sender<.*>::send$|Sender::send$|oneshot::channel$"))
    upd_rule = (r"(^|::)update_key$", c_upd.rule())

    # ---- the key actor itself (holds the key in memory; one iteration of its message loop from an arbitrary state) ----
    w_act = ctx.method("KeyKeeperSharedState", "start_new")
    act_body = w_act + "::{closure#0}"
    if act_body in ctx.idx.files:
        eng_act = ctx.engine(loop_bound=1, max_paths=8000, timeout=300, summaries=SUMMARIES)
        eng_act.auto_inline = ctx.new_function_auto()          # arm bodies moved into helpers are part of the actor unit
        A.unit("KeyKeeperSharedState actor loop", act_body, engine=eng_act)

    # ---- U8 KeyKeeper::loop_poll, key section (fetch / acquire / store / check / attest / publish), store helpers inlined ----
    import p_c08
    eng8, paths8 = p_c08.key_section(ctx, rep)
    A.unit("KeyKeeper::loop_poll[key section]", None, paths=paths8, rules=[acq_rule, att_rule, upd_rule] + getter_rules)

    # ---- U9 the request handler (signing route inlined) ----
    from handler_model import HandlerModel
    hm = HandlerModel(ctx, None)
    A.unit("ProxyServer::handle_new_http_request", None, paths=[p.r for p in hm.paths], rules=getter_rules + [sig_rule])
    for p in hm.paths:
        pass

    # ---- U10 every other function that reads the key: callers of the getters / of hyper_client::get with a key ----
    cg = callgraph.CallGraph(ctx.idx)
    cg.set_src(ctx.src)
    done = {"hyper_client::get", "acquire_key", "attest_key", "build_request", "compute_signature", "read_response_body"}
    src_names = ("get_current_key_value", "get_current_key_guid_and_value", "get_key")
    users = set()
    for p, callees in cg.callees.items():
        if any(callgraph.last_seg(c) in src_names for c in callees):
            users.add(p)
    analysed_bodies = {hm.body, eng8 and (ctx.method("KeyKeeper", "loop_poll") + "::{closure#0}")} | set(hm.engine.inlined)
    carriers = []      # functions whose result carries key material: their callers are looked at as well (two levels)
    pending = sorted(u for u in users if u not in analysed_bodies and "key_keeper_wrapper" not in u)
    level = 0
    seen_units = set()
    while pending and level < CALLER_LEVELS:
        nxt = []
        for body in pending:
            if body in seen_units:
                continue
            seen_units.add(body)
            short = "::".join(s for s in body.split("::") if not s.startswith("{closure") and not s.startswith("<impl"))
            try:
                c = A.unit(short, body, rules=getter_rules + [get_rule, br_rule, sig_rule] + [(rx, ca.rule()) for rx, ca in carriers])
            except Inconclusive as e:
                rep.add(Query("%s: analysable" % short, "inconclusive", str(e)[:200], 0, "mirsym"))
                continue
            if c.chains:
                fn = [s for s in body.split("::") if not s.startswith("{closure")][-1]
                carriers.append((r"(^|::)%s$" % re.escape(fn), c))
                base = body[:-len("::{closure#0}")] if body.endswith("::{closure#0}") else body
                for q, callees in cg.callees.items():
                    if any(callgraph.last_seg(cc) == fn for cc in callees) and base in cg.resolve([cc for cc in callees if callgraph.last_seg(cc) == fn][0], q):
                        if q not in seen_units and q not in analysed_bodies:
                            nxt.append(q)
        pending = sorted(set(nxt))
        level += 1
    if pending:
        rep.add(Query("callers of key-carrying functions beyond %d levels" % CALLER_LEVELS, "inconclusive", "%s" % pending[:5], 0, "mirsym"))

    # ---- completeness: every non-test function whose MIR mentions a Key-typed local is one of the analysed units ----
    analysed = set(seen_units) | analysed_bodies | {act_body, w_act, w_upd + "::{closure#0}", w_set + "::{closure#0}", w_set, w_upd} | {p_sig, p_rrb, p_br, w_get + "::{closure#0}", w_acq + "::{closure#0}", w_att + "::{closure#0}"} | set(eng8.inlined)
    import mcommon
    for _c, _e in mcommon.ALL_ENGINES:
        analysed |= set(getattr(_e, "inlined", ()))          # a helper inlined into an analysed unit was analysed as part of it
    key_users = []
    for p in ctx.idx.files:
        try:
            b = ctx.idx.body(p)
        except Exception:
            continue
        tys = list(getattr(b, "local_types", {}).values()) if hasattr(b, "local_types") else []
        if any(taint.is_key_type(t) or re.search(r"[<( ]key_keeper::key::Key[>,) ]|[<( ]Key[>,)]", t or "") for t in tys):
            key_users.append(p)
    missing = [p for p in key_users if p not in analysed and not any(p.startswith(a + "::{closure") or a.startswith(p + "::{closure") for a in analysed)
               and not re.search(r"key_keeper_wrapper.*::(get_current_key\w*|get_key|update_key|clear_key)($|::)|key::.*::(clone|empty|deserialize|serialize|fmt)|_::<impl|loop_poll$|::tests::", p)]
    rep.add(Query("every function with a Key-typed local is one of the analysed units (%d such functions)" % len(key_users), "holds" if not missing else "inconclusive", "%s" % missing[:6], 0, "mirsym",
                  key="C12.completeness"))
    rep.extra["key_typed_functions"] = len(key_users)
    rep.extra["key_typed_functions_not_analysed"] = missing[:20]

    # ---- key directory: restricted before the poll loop (which creates the first key file) starts ----
    check_key_dir(rep, ctx)

    # ---- report ----
    by_key = {}
    for f0 in A.flows:
        for lab in f0.label.split(" ;; "):
            f = taint.Flow(lab, f0.sink, f0.site, f0.unit, f0.path_index, f0.detail)
            sink = f.sink.split("::")[-1]
            carrier = "direct"
            m = re.search(r"carried in (\S+?)\(\)'s (\S+)", f.label)
            if m:
                carrier = "%s.%s" % (m.group(1).split("::")[-1], m.group(2))
            what = "key-document" if "document" in f.label else "key-value"
            key = "C12.leak:%s:%s:%s->%s" % (what, carrier, f.unit.split("[")[0].split("::")[-1].strip(), sink)
            by_key.setdefault(key, []).append(f)
    for key, fl in sorted(by_key.items()):
        f = fl[0]
        detail = "%s reaches %s in %s (path %d, site %s); %d path(s)" % (f.label, f.sink, f.unit, f.path_index, f.site, len(fl))
        rep.add(Query("%s: %s" % (f.unit, "key material reaches " + f.sink.split("::")[-1]), "violated", detail, 0, "mirsym+z3", key=key, reproduced=None,
                      replay=save_replay("C12", re.sub(r"\W+", "_", key) + ".json", json.dumps({"key": key, "label": f.label, "sink": f.sink, "unit": f.unit, "site": list(f.site) if isinstance(f.site, tuple) else f.site,
                                                                                                "paths": [x.path_index for x in fl][:20]}, indent=1))))
    rep.add(Query("witness: the analysis sees the key flow into the MAC (compute_signature receives key material in the handler)", "witness-hit" if witness_sig(hm, ctx, getter_rules) else "witness-missed", "", 0, "mirsym"))
    rep.add(Query("witness: get_current_key_value's result is recognised as carrying the key", "witness-hit" if witness_getter else "witness-missed", "", 0, "mirsym"))
    rep.extra["units"] = [{"unit": u, "paths": n, "flows": k, "result_carries": {variant_names(c) or "result": l for c, l in ch.items()}} for (u, n, k, ch) in A.units]
    rep.extra["states"] = A.n_paths
    rep.extra["transitions"] = A.n_paths + A.n_guard
    rep.bounds["flows"] = "%d complete paths over %d functions; explicit data flow only (values, parts, conversions, formatting, error wrapping, mutable receivers); loops unrolled %d times, callers followed %d levels" % (A.n_paths, len(A.units), UNIT_LOOP_BOUND, CALLER_LEVELS)
    rep.assumptions += ["uninterpreted library calls return a value that may contain anything their arguments contain (conservative), except HMAC finalisation, comparisons and lengths",
                        "Future::poll returns Ready", "serde/hyper/std do not write their inputs anywhere by themselves",
                        "tokio's mpsc SendError displays 'channel closed', not the message that could not be sent (the message is the key in KeyKeeperSharedState::update_key)"]
    rep.outside_claim += ["implicit flows (branching on the key), timing, memory dumps, core files", "what the key file's directory permissions achieve on the running system (chmod failure is logged and ignored by the code)",
                          "the Windows encrypted store", "bytes written by third-party crates"]
    rep.trusted += ["mirsym", "z3", "lib/taint.py propagation rules"]
    import batteries
    batteries.confirm(rep, "C12")


def witness_sig(hm, ctx, getter_rules):
    for p in hm.paths:
        evs = [e for e in p.r.events if e.kind == "call" and e.callee.endswith("compute_signature")]
        if not evs:
            continue
        pt = taint.PathTaint(ctx, p.r, "witness", p.i, ret_rules=getter_rules)
        pt.run()
        if pt.mentions(evs[0].rargs[0]):
            return True
    return False


def check_key_dir(rep, ctx):
    w = ctx.method("KeyKeeper", "poll_secure_channel_status")
    body = w + "::{closure#0}"
    eng = ctx.engine(loop_bound=1, max_paths=4000, timeout=300)
    lp = eng.find_blocks(body, r"(KeyKeeper|Self)::loop_poll$")
    paths = eng.explore(body, stop_calls=r"(KeyKeeper|Self)::loop_poll$")
    rep.functions_encoded.append(body + " [up to the call of loop_poll]")
    n = 0
    kd = None
    for i, r in enumerate(paths):
        if r.status == "panic":
            continue
        n += 1
        acl = [e for e in r.events if e.kind == "call" and e.callee.endswith("acl_directory")]
        me = origin(r.args[0])
        ok = False
        for e in acl:
            a = e.rargs[0]
            if re.search(r"key_dir|\.f\.%d\b" % ctx.field("KeyKeeper", "key_dir"), repr(a)) or any(
                    is_part_of(origin(x), me) for x in [a]):
                ok = True
        rep.add(Query("poll_secure_channel_status path %d: the key directory is passed to acl_directory before loop_poll starts" % i, "holds" if ok else "violated",
                      "acl_directory calls: %d" % len(acl), 0, "mirsym+z3", key="C12.keydir:acl-before-poll", reproduced=None))
        # ... and it is restricted AFTER it was made sure to exist: acl_directory on a folder that is not there yet does nothing, the folder
        # created afterwards has the process umask
        mk = [e for e in r.events if e.kind in ("call", "await") and re.search(r"(^|::)(try_create_folder|create_dir_all|create_dir)$", e.callee)
              and (re.search(r"key_dir|\.f\.%d\b" % ctx.field("KeyKeeper", "key_dir"), repr(e.rargs[0])) or is_part_of(origin(e.rargs[0]), me))]
        if acl:
            okc = all(r.events.index(m_) < r.events.index(acl[-1]) for m_ in mk)
            rep.add(Query("poll_secure_channel_status path %d: the key directory is restricted after it was created (no creation of it follows the last acl_directory)" % i, "holds" if okc else "violated",
                          "creations %d, of which after the acl: %d" % (len(mk), len([m_ for m_ in mk if r.events.index(m_) > r.events.index(acl[-1])])), 0, "mirsym", key="C12.keydir:acl-after-create", reproduced=None))
    rep.add(Query("witness: poll_secure_channel_status reaches loop_poll", "witness-hit" if n and lp else "witness-missed", "%d paths" % n, 0, "mirsym"))
    # acl_directory itself: owner root and mode 0700 on its argument, on every path
    try:
        pa = ctx.one("linux_acl::acl_directory")
    except Inconclusive:
        pa = ctx.one("acl::acl_directory")
    e2 = ctx.engine()
    for i, r in enumerate(e2.explore(pa)):
        if r.status != "return":
            continue
        ch = [e for e in r.events if e.kind == "call" and re.search(r"(^|::)chown$", e.callee)]
        sp = [e for e in r.events if e.kind == "call" and e.callee.endswith("set_permissions")]
        fm = [e for e in r.events if e.kind == "call" and e.callee.endswith("from_mode")]
        arg = r.args[0]
        ok_ch = bool(ch) and any(same_origin(origin(x), origin(arg)) or is_part_of(origin(x), origin(arg)) for x in ch[0].rargs[:1])
        ok_sp = bool(sp) and any(same_origin(origin(x), origin(arg)) for x in sp[0].rargs[:1])
        mode = None
        if fm:
            a0 = fm[0].rargs[0]
            if isinstance(a0, Scalar):
                s = z3.simplify(a0.e)
                mode = s.as_long() if z3.is_bv_value(s) else None
            elif isinstance(a0, ConstV):
                m = re.search(r"(\d+)", a0.text)
                mode = int(m.group(1)) if m else None
        ok_mode = mode == 0o700 and bool(sp) and any(same_origin(fm[0].ret, x) for x in sp[0].rargs[1:2])
        rep.add(Query("acl_directory path %d: chown and chmod 0700 are applied to the directory given" % i, "holds" if ok_ch and ok_sp and ok_mode else "violated",
                      "chown %s set_permissions %s mode %s" % (ok_ch, ok_sp, oct(mode) if mode is not None else None), 0, "mirsym+z3", key="C12.keydir:mode-0700", reproduced=None))
    rep.functions_encoded.append(pa)
    # the key folder comes into being only where it is restricted: nothing on the way to a key file (the key step of the poll loop with the
    # store / fetch / check helpers inlined) creates a directory - a folder re-created there would hold the key file with the process umask
    import p_c08
    eng8, paths8 = p_c08.key_section(ctx, rep)
    MK = re.compile(r"(^|::)(try_create_folder|create_dir_all|create_dir|DirBuilder::create)$")
    makers = sorted({e.callee.split("::")[-1] for r in paths8 for e in r.events if e.kind in ("call", "await") and MK.search(e.callee)})
    # helpers that are new since the obligations were written and stayed uninterpreted are looked into
    import callgraph
    cg = callgraph.CallGraph(ctx.idx)
    cg.set_src(ctx.src)
    bf = os.path.join(os.path.dirname(os.path.abspath(__file__)), "baseline_fn_names.txt")
    baseline = set(open(bf).read().split()) if os.path.exists(bf) else set()
    for callee in sorted(eng8.uninterpreted):
        if callgraph.last_seg(callee) in baseline:
            continue
        try:
            c = cg.resolve(callee, body)
        except Exception:
            c = []
        if len(c) == 1:
            try:
                e3 = ctx.engine(loop_bound=1, max_paths=2000, timeout=60)
                e3.auto_inline = ctx.new_function_auto()
                for r in e3.explore(next(iter(c))):
                    makers += [e.callee.split("::")[-1] + " (in %s)" % callgraph.last_seg(callee) for e in r.events if e.kind in ("call", "await") and MK.search(e.callee)]
            except Inconclusive:
                pass
    rep.add(Query("key step: no directory is created on the way to a key file (the key folder exists only as created and restricted before the poll loop)", "holds" if not makers else "violated",
                  "directory-creating calls in the key step: %s" % sorted(set(makers)), 0, "mirsym", key="C12.keydir:created-only-restricted", reproduced=None))


def replay(path):
    print(open(path).read())
    return 0
