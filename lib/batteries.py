"""Unit-level native replay batteries (generated #[test]s on the real functions) for properties whose counterexamples are
read off symbolic traces: C08, C09, C19. Run only when a check has violations that were not replayed; a FAILED test confirms."""
import os
from common import *
import replay as rp

C08_SHARED = '''
#[cfg(test)]
mod verif_battery_c08_file {
    use serde::ser::{Serialize, SerializeStruct, Serializer};
    struct Breaks;
    impl Serialize for Breaks {
        fn serialize<S: Serializer>(&self, s: S) -> Result<S::Ok, S::Error> {
            let mut st = s.serialize_struct("Key", 3)?;
            st.serialize_field("guid", "0123")?;
            st.serialize_field("key", "AAAA")?;
            Err(serde::ser::Error::custom("process killed / disk full in the middle of the write"))
        }
    }
    #[test]
    fn c08_interrupted_write_leaves_nothing_under_the_final_name() {
        let dir = std::env::temp_dir().join(format!("verif_c08_{}", std::process::id()));
        let _ = std::fs::remove_dir_all(&dir);
        std::fs::create_dir_all(&dir).unwrap();
        let fresh = dir.join("fresh.key");
        assert!(super::json_write_to_file(&Breaks, &fresh).is_err());
        assert!(!fresh.exists(), "a truncated file was left under the final name of a new key file");
        let existing = dir.join("existing.key");
        super::json_write_to_file(&serde_json::json!({"guid": "g", "key": "k"}), &existing).unwrap();
        let before = std::fs::read_to_string(&existing).unwrap();
        assert!(super::json_write_to_file(&Breaks, &existing).is_err());
        assert_eq!(before, std::fs::read_to_string(&existing).unwrap(), "an interrupted rewrite corrupted the existing file");
        let _ = std::fs::remove_dir_all(&dir);
    }
    #[test]
    #[cfg(not(windows))]
    fn c08_a_write_that_cannot_reach_the_disk_is_not_published_as_success() {
        // the temp name leads to /dev/full: every write fails with ENOSPC, as on a full disk
        let dir = std::env::temp_dir().join(format!("verif_c08_full_{}", std::process::id()));
        let _ = std::fs::remove_dir_all(&dir);
        std::fs::create_dir_all(&dir).unwrap();
        let target = dir.join("k.key");
        std::os::unix::fs::symlink("/dev/full", dir.join("k.tmp")).unwrap();
        let r = super::json_write_to_file(&serde_json::json!({"guid": "g", "key": "0123456789abcdef"}), &target);
        let published = std::fs::symlink_metadata(&target).is_ok();
        let _ = std::fs::remove_dir_all(&dir);
        assert!(r.is_err(), "the write could not reach the disk, yet json_write_to_file returned Ok (published under the final name: {})", published);
        assert!(!published, "a file that was never written was put under the final name");
    }
}
'''

C08_AGENT = '''
#[cfg(test)]
mod verif_battery_c08_key {
    use super::*;
    fn key(guid: &str, value: &str) -> Key { let mut k = Key::empty(); k.guid = guid.to_string(); k.key = value.to_string(); k }
    fn dir(tag: &str) -> std::path::PathBuf {
        let d = std::env::temp_dir().join(format!("verif_c08_{}_{}", tag, std::process::id()));
        let _ = std::fs::remove_dir_all(&d); std::fs::create_dir_all(&d).unwrap(); d
    }
    #[test]
    fn c08_read_back_check_compares_guid_and_key_value() {
        let d = dir("check");
        KeyKeeper::store_key(&d, &key("11111111-1111-1111-1111-111111111111", "AAAA")).unwrap();
        assert!(KeyKeeper::check_key(&d, &key("11111111-1111-1111-1111-111111111111", "AAAA")).is_ok());
        assert!(KeyKeeper::check_key(&d, &key("11111111-1111-1111-1111-111111111111", "BBBB")).is_err(), "read-back accepted a file whose key VALUE differs");
        assert!(KeyKeeper::check_key(&d, &key("22222222-2222-2222-2222-222222222222", "AAAA")).is_err(), "read-back accepted a missing file");
        let _ = std::fs::remove_dir_all(&d);
    }
    #[test]
    fn c08_stored_key_is_found_by_guid_after_restart() {
        let d = dir("fetch");
        let k = key("33333333-3333-3333-3333-333333333333", "CCCC");
        KeyKeeper::store_key(&d, &k).unwrap();
        let f = KeyKeeper::fetch_key(&d, "33333333-3333-3333-3333-333333333333").expect("stored key not found under its guid");
        assert!(f.guid == k.guid && f.key == k.key);
        // a guid with upper-case hex digits and one with surrounding blanks: whatever the host issues is what is looked up after a restart
        for g in ["ABCDEF12-3333-4333-8333-ABCDEFABCDEF", "AbCdEf12-3333-4333-8333-abcdefABCDEF"] {
            let k2 = key(g, "DDDD");
            KeyKeeper::store_key(&d, &k2).unwrap();
            assert!(KeyKeeper::check_key(&d, &k2).is_ok());
            let f2 = KeyKeeper::fetch_key(&d, g).unwrap_or_else(|e| panic!("the key stored under guid {} is not found again: {}", g, e));
            assert!(f2.guid == k2.guid && f2.key == k2.key);
        }
        let _ = std::fs::remove_dir_all(&d);
    }
}
'''

C09_KEY = '''
#[cfg(test)]
mod verif_battery_c09_status {
    use super::*;
    fn status(ws: Option<&str>, imds: Option<&str>, hostga: Option<&str>) -> KeyStatus {
        let item = |id: &str, mode: &str| format!(r#"{{"defaultAccess":"allow","mode":"{}","id":"{}"}}"#, mode, id);
        let mut parts = vec![];
        if let Some(m) = ws { parts.push(format!(r#""wireserver":{}"#, item("ws-id", m))); }
        if let Some(m) = imds { parts.push(format!(r#""imds":{}"#, item("imds-id", m))); }
        if let Some(m) = hostga { parts.push(format!(r#""hostga":{}"#, item("hga-id", m))); }
        let json = format!(r#"{{"authorizationScheme":"Azure-HMAC-SHA256","keyDeliveryMethod":"http","keyGuid":null,"requiredClaimsHeaderPairs":[],"secureChannelEnabled":true,"version":"2.0","authorizationRules":{{{}}}}}"#, parts.join(","));
        serde_json::from_str(&json).unwrap()
    }
    #[test]
    fn c09_validate_accepts_exactly_the_complete_documents() {
        let doc = |version: &str, enabled: Option<bool>, state: Option<&str>| -> KeyStatus {
            let mut parts = vec![r#""authorizationScheme":"Azure-HMAC-SHA256","keyDeliveryMethod":"http","keyGuid":null,"requiredClaimsHeaderPairs":[]"#.to_string(), format!(r#""version":"{}""#, version)];
            if let Some(e) = enabled { parts.push(format!(r#""secureChannelEnabled":{}"#, e)); }
            if let Some(s) = state { parts.push(format!(r#""secureChannelState":"{}""#, s)); }
            serde_json::from_str(&format!("{{{}}}", parts.join(","))).unwrap()
        };
        let states = [None, Some("Wireserver"), Some("WireserverAndImds"), Some("disabled"), Some("bogus")];
        for version in ["1.0", "2.0", "3.0"] {
            for enabled in [None, Some(true), Some(false)] {
                for state in states {
                    let state_ok = match state { Some(s) => ["disabled", "wireserver", "wireserverandimds"].contains(&s.to_lowercase().as_str()), None => true };
                    let expect = !(enabled.is_none() && state.is_none()) && state_ok && !(state.is_none() && version == "1.0") && !(enabled.is_none() && version == "2.0");
                    let got = doc(version, enabled, state).validate().is_ok();
                    assert_eq!(expect, got, "version {} secureChannelEnabled {:?} secureChannelState {:?}", version, enabled, state);
                }
            }
        }
    }
    #[test]
    fn c09_rule_getters_return_their_own_endpoint() {
        let s = status(Some("enforce"), Some("audit"), Some("disabled"));
        assert_eq!(s.get_wireserver_rule_id(), "ws-id"); assert_eq!(s.get_imds_rule_id(), "imds-id"); assert_eq!(s.get_hostga_rule_id(), "hga-id");
        assert_eq!(s.get_wireserver_rules().unwrap().mode, "enforce"); assert_eq!(s.get_imds_rules().unwrap().mode, "audit"); assert_eq!(s.get_hostga_rules().unwrap().mode, "disabled");
    }
    #[test]
    fn c09_mode_getters_fold_the_letter_case_of_the_mode() {
        for m in ["Disabled", "DISABLED", "disabled"] {
            let s = status(Some(m), Some(m), None);
            assert_eq!(s.get_wire_server_mode(), "disabled", "WireServer mode {:?}", m);
            assert_eq!(s.get_imds_mode(), "disabled", "IMDS mode {:?}: the poll loop compares this with 'disabled' to switch interception off", m);
        }
        assert_eq!(status(Some("Enforce"), Some("AUDIT"), None).get_imds_mode(), "audit");
        assert_eq!(status(None, None, None).get_imds_mode(), "disabled");
    }
    #[test]
    fn c09_state_string_changes_when_any_mode_changes() {
        let modes = [None, Some("disabled"), Some("audit"), Some("enforce")];
        for ws in modes { for a in modes { for b in modes {
            let (da, db) = (a.is_none() || a == Some("disabled"), b.is_none() || b == Some("disabled"));
            if a.unwrap_or("disabled") != b.unwrap_or("disabled") {
                assert_ne!(status(ws, a, None).get_secure_channel_state(), status(ws, b, None).get_secure_channel_state(), "IMDS mode {:?} -> {:?} does not change the reported state (ws {:?}) {} {}", a, b, ws, da, db);
                assert_ne!(status(a, ws, None).get_secure_channel_state(), status(b, ws, None).get_secure_channel_state(), "WireServer mode {:?} -> {:?} does not change the reported state", a, b);
            }
        } } }
    }
}
'''

C09_WRAPPER = '''
#[cfg(test)]
mod verif_battery_c09_wrapper {
    use super::*;
    #[tokio::test(flavor = "current_thread")]
    async fn c09_update_wrappers_report_and_store_changes() {
        let s = KeyKeeperSharedState::start_new();
        assert_eq!(s.update_wireserver_rule_id("a".to_string()).await.unwrap().0, true);
        assert_eq!(s.update_wireserver_rule_id("a".to_string()).await.unwrap().0, false);
        assert_eq!(s.get_wireserver_rule_id().await.unwrap(), "a");
        assert_eq!(s.update_imds_rule_id("b".to_string()).await.unwrap().0, true);
        assert_eq!(s.get_imds_rule_id().await.unwrap(), "b");
        assert_eq!(s.update_hostga_rule_id("c".to_string()).await.unwrap().0, true);
        assert_eq!(s.get_hostga_rule_id().await.unwrap(), "c");
        assert_eq!(s.get_wireserver_rule_id().await.unwrap(), "a");
        // a document that no longer carries rules for an endpoint offers the empty id: that is a change too
        assert_eq!(s.update_wireserver_rule_id(String::new()).await.unwrap().0, true, "rules removed (empty id) must be reported as an update");
        assert_eq!(s.get_wireserver_rule_id().await.unwrap(), "");
        assert_eq!(s.update_imds_rule_id(String::new()).await.unwrap().0, true, "rules removed (empty id) must be reported as an update");
        assert_eq!(s.update_hostga_rule_id(String::new()).await.unwrap().0, true, "rules removed (empty id) must be reported as an update");
        assert_eq!(s.update_wireserver_rule_id(String::new()).await.unwrap().0, false);
        // every slot keeps its own value: rules, rule ids and state of the three endpoints set to distinct values and read back
        let item = |id: &str| Some(crate::key_keeper::key::AuthorizationItem { defaultAccess: "deny".to_string(), mode: "enforce".to_string(), rules: None, id: id.to_string() });
        s.set_wireserver_rules(item("ws-rules")).await.unwrap();
        s.set_imds_rules(item("imds-rules")).await.unwrap();
        s.set_hostga_rules(item("hga-rules")).await.unwrap();
        s.update_wireserver_rule_id("ws-id".to_string()).await.unwrap();
        s.update_imds_rule_id("imds-id".to_string()).await.unwrap();
        s.update_hostga_rule_id("hga-id".to_string()).await.unwrap();
        assert_eq!(s.get_wireserver_rules().await.unwrap().map(|r| r.id), Some("ws-rules".to_string()));
        assert_eq!(s.get_imds_rules().await.unwrap().map(|r| r.id), Some("imds-rules".to_string()));
        assert_eq!(s.get_hostga_rules().await.unwrap().map(|r| r.id), Some("hga-rules".to_string()));
        assert_eq!(s.get_wireserver_rule_id().await.unwrap(), "ws-id");
        assert_eq!(s.get_imds_rule_id().await.unwrap(), "imds-id");
        assert_eq!(s.get_hostga_rule_id().await.unwrap(), "hga-id");
        s.set_imds_rules(None).await.unwrap();
        assert!(s.get_imds_rules().await.unwrap().is_none());
        assert_eq!(s.get_wireserver_rules().await.unwrap().map(|r| r.id), Some("ws-rules".to_string()));
        assert_eq!(s.get_hostga_rules().await.unwrap().map(|r| r.id), Some("hga-rules".to_string()));
        assert_eq!(s.update_current_secure_channel_state("x".to_string()).await.unwrap(), true);
        assert_eq!(s.update_current_secure_channel_state("x".to_string()).await.unwrap(), false);
        assert_eq!(s.get_current_secure_channel_state().await.unwrap(), "x");
    }
}
'''

C19_SHARED = '''
#[cfg(test)]
mod verif_battery_c19_log {
    use super::*;
    #[test]
    fn c19_rolling_logger_keeps_at_most_the_configured_number_of_files() {
        for max_count in [1u16, 2, 3] {
            let dir = std::env::temp_dir().join(format!("verif_c19_roll_{}_{}", max_count, std::process::id()));
            let _ = std::fs::remove_dir_all(&dir);
            for name in ["verif", "ProxyAgent.Connection", "UPPER.lower.Mixed"] {
                let _ = std::fs::remove_dir_all(&dir);
                let logger = RollingLogger::create_new(dir.clone(), String::from(name), 200, max_count);
                for i in 0..40 {
                    logger.write(log::Level::Info, format!("message number {:04} {}", i, "x".repeat(80))).unwrap();
                    std::thread::sleep(std::time::Duration::from_millis(2));
                    let n = std::fs::read_dir(&dir).unwrap().count();
                    assert!(n <= max_count as usize, "{} log files of {} on disk with max_log_file_count = {}", n, name, max_count);
                }
            }
            let _ = std::fs::remove_dir_all(&dir);
        }
    }
}
'''

C19_RESTART = '''
#[cfg(test)]
mod verif_battery_c19_restart {
    use super::*;
    #[test]
    fn c19_batch_writes_keep_the_size_bound() {
        let dir = std::env::temp_dir().join(format!("verif_c19_many_{}", std::process::id()));
        let _ = std::fs::remove_dir_all(&dir);
        let logger = RollingLogger::create_new(dir.clone(), String::from("verif.many"), 100, 5);
        let batch = || vec!["y".repeat(59)];          // one write of 60 bytes
        for step in 0..12 {
            logger.write_many(batch()).unwrap();
            std::thread::sleep(std::time::Duration::from_millis(2));
            for e in std::fs::read_dir(&dir).unwrap().flatten() {
                let len = e.metadata().unwrap().len();
                assert!(len < 100 + 60 + 1, "step {}: {:?} is {} bytes with a limit of 100 and writes of 60 bytes", step, e.path(), len);
            }
            assert!(std::fs::read_dir(&dir).unwrap().count() <= 5);
        }
        let _ = std::fs::remove_dir_all(&dir);
    }
    #[test]
    fn c19_log_size_limit_holds_across_restarts() {
        let dir = std::env::temp_dir().join(format!("verif_c19_restart_{}", std::process::id()));
        let _ = std::fs::remove_dir_all(&dir);
        let line = "x".repeat(56);
        for run in 0..6 {
            // every run finds the files left by the earlier runs and writes less than the limit itself
            let logger = RollingLogger::create_new(dir.clone(), String::from("verif"), 200, 4);
            for step in 0..2 {
                logger.write(log::Level::Info, line.clone()).unwrap();
                std::thread::sleep(std::time::Duration::from_millis(2));
                for e in std::fs::read_dir(&dir).unwrap().flatten() {
                    let len = e.metadata().unwrap().len();
                    assert!(len <= 200 + 200, "run {} step {}: {:?} is {} bytes with a limit of 200 and writes of ~100 bytes", run, step, e.path(), len);
                }
                assert!(std::fs::read_dir(&dir).unwrap().count() <= 4);
            }
        }
        let _ = std::fs::remove_dir_all(&dir);
    }
}
'''

C19_EVENTS = '''
#[cfg(test)]
mod verif_battery_c19_events {
    /// uses the process-wide event queue: run alone (own cargo invocation with this module's name as the filter)
    #[tokio::test]
    async fn c19_event_folder_cap_holds_for_bursts() {
        let root = std::env::temp_dir().join(format!("verif_c19_events_{}", std::process::id()));
        let _ = std::fs::remove_dir_all(&root);
        let events_dir = root.join("Events");
        let cap = 3usize;
        let d = events_dir.clone();
        tokio::spawn(async move { super::start(d, std::time::Duration::from_millis(100), cap, |_| async {}).await; });
        for burst in [150, 250, 250, 250, 1200] {
            for _ in 0..burst {
                super::write_event(log::Level::Info, "verif burst event".to_string(), "c19_event_folder_cap_holds_for_bursts", "verif", "verif_c19_events");
            }
            tokio::time::sleep(std::time::Duration::from_millis(500)).await;
            let n = crate::misc_helpers::get_files(&events_dir).map(|f| f.len()).unwrap_or(0);
            assert!(n <= cap, "after a burst of {} events the event folder holds {} files, cap is {}", burst, n, cap);
        }
        super::stop();
        let _ = std::fs::remove_dir_all(&root);
    }
}
'''

C19_AGENT = '''
#[cfg(test)]
mod verif_battery_c19_dumps {
    use super::*;
    #[test]
    fn c19_at_most_max_rule_dumps_are_kept() {
        for (existing, max) in [(0usize, 3usize), (2, 3), (3, 3), (5, 3), (7, 2), (4, 1)] {
            let dir = std::env::temp_dir().join(format!("verif_c19_dumps_{}_{}_{}", existing, max, std::process::id()));
            let _ = std::fs::remove_dir_all(&dir);
            std::fs::create_dir_all(&dir).unwrap();
            for i in 0..existing { std::fs::write(dir.join(format!("AuthorizationRules_2020-01-0{}T00.00.00.000-{}.json", i + 1, i)), "{}").unwrap(); }
            let rules = AuthorizationRulesForLogging::new(None, ComputedAuthorizationRules { imds: None, wireserver: None, hostga: None });
            rules.write_all(&dir, max);
            let n = std::fs::read_dir(&dir).unwrap().count();
            assert!(n <= max, "{} rule dumps on disk with max_file_count = {} ({} existed before)", n, max, existing);
            assert!(n >= 1, "the new dump was not written");
            if existing >= max { assert!(!dir.join("AuthorizationRules_2020-01-01T00.00.00.000-0.json").exists(), "the oldest dump survived"); }
            let _ = std::fs::remove_dir_all(&dir);
        }
    }

    #[test]
    fn c19_the_oldest_rule_dump_goes_first_whatever_the_rules_say() {
        use crate::key_keeper::key::AuthorizationItem;
        let item = |mode: &str| Some(ComputedAuthorizationItem::from_authorization_item(AuthorizationItem { defaultAccess: "deny".to_string(), mode: mode.to_string(), rules: None, id: mode.to_string() }));
        let dir = std::env::temp_dir().join(format!("verif_c19_dump_order_{}", std::process::id()));
        let _ = std::fs::remove_dir_all(&dir);
        std::fs::create_dir_all(&dir).unwrap();
        let max = 2usize;
        let mut written: Vec<std::path::PathBuf> = Vec::new();
        // rule sets change between every two dumps, in both alphabetical directions
        for (step, mode) in ["enforce", "enforce", "audit", "audit", "disabled", "enforce", "audit", "disabled", "disabled"].iter().enumerate() {
            let before: std::collections::HashSet<_> = std::fs::read_dir(&dir).unwrap().flatten().map(|e| e.path()).collect();
            let rules = AuthorizationRulesForLogging::new(None, ComputedAuthorizationRules { imds: item(mode), wireserver: item(mode), hostga: item(mode) });
            rules.write_all(&dir, max);
            std::thread::sleep(std::time::Duration::from_millis(3));
            let after: std::collections::HashSet<_> = std::fs::read_dir(&dir).unwrap().flatten().map(|e| e.path()).collect();
            let new: Vec<_> = after.difference(&before).cloned().collect();
            assert_eq!(1, new.len(), "step {}: exactly one new dump", step);
            written.push(new[0].clone());
            let newest: std::collections::HashSet<_> = written.iter().rev().take(max).cloned().collect();
            assert_eq!(newest, after, "step {} (mode {}): the dumps kept are not the newest {}", step, mode, max);
        }
        let _ = std::fs::remove_dir_all(&dir);
    }
}
'''


C12_HELPERS = '''
#[cfg(test)]
mod verif_battery_c12_hex {
    const SECRET: &str = "ZZ-not-hex-SECRET-KEY-MATERIAL-0123456789";
    #[test]
    fn c12_hex_compute_signature_error_does_not_carry_the_key() {
        let e = super::compute_signature(SECRET, b"input").unwrap_err();
        assert!(!e.to_string().contains(SECRET), "the error text echoes the key: {}", e);
        assert!(!format!("{:?}", e).contains(SECRET), "the error debug text echoes the key");
    }
}
'''

C12_KEY = '''
#[cfg(test)]
mod verif_battery_c12_key {
    use super::*;
    const SECRET: &str = "ZZ-not-hex-SECRET-KEY-MATERIAL-0123456789";
    fn key() -> Key {
        serde_json::from_str(&format!(r#"{{"authorizationScheme":"Azure-HMAC-SHA256","guid":"9cf81e97-0316-4ad3-94a7-8ccbdee8ddbf","issued":"2021-05-05T12:00:00Z","key":"{}"}}"#, SECRET)).unwrap()
    }
    #[tokio::test(flavor = "current_thread")]
    async fn c12_hex_attest_key_error_does_not_carry_the_key() {
        let uri: hyper::Uri = "http://127.0.0.1:9/".parse().unwrap();
        let e = attest_key(&uri, &key()).await.unwrap_err();
        assert!(!format!("{} {:?}", e, e).contains(SECRET), "attest_key's error (logged by the poll loop) echoes the key: {}", e);
    }
    async fn acquire_from(body: String) -> crate::common::error::Error {
        use std::io::{Read, Write};
        let l = std::net::TcpListener::bind("127.0.0.1:0").unwrap();
        let port = l.local_addr().unwrap().port();
        std::thread::spawn(move || {
            let (mut s, _) = l.accept().unwrap();
            let mut buf = [0u8; 4096];
            let _ = s.read(&mut buf);
            let _ = s.write_all(format!("HTTP/1.1 200 OK\\r\\ncontent-type: application/json; charset=utf-8\\r\\ncontent-length: {}\\r\\n\\r\\n{}", body.len(), body).as_bytes());
            std::thread::sleep(std::time::Duration::from_millis(300));
        });
        let uri: hyper::Uri = format!("http://127.0.0.1:{}/", port).parse().unwrap();
        match acquire_key(&uri).await { Ok(_) => panic!("the malformed key document was accepted"), Err(e) => e }
    }
    #[tokio::test(flavor = "current_thread")]
    async fn c12_doc_acquire_key_error_does_not_carry_a_truncated_key_document() {
        // a key document cut short after the key field (syntax error instead of a type error)
        let e = acquire_from(format!(r#"{{"authorizationScheme":"Azure-HMAC-SHA256","guid":"9cf81e97-0316-4ad3-94a7-8ccbdee8ddbf","issued":"2021-05-05T12:00:00Z","key":"{}""#, SECRET)).await;
        assert!(!format!("{} {:?}", e, e).contains(SECRET), "acquire_key's error echoes the key: {}", e);
        let e = acquire_from(format!(r#"{{"key":"{}","guid":7}} trailing"#, SECRET)).await;
        assert!(!format!("{} {:?}", e, e).contains(SECRET), "acquire_key's error echoes the key: {}", e);
    }
    #[tokio::test(flavor = "current_thread")]
    async fn c12_doc_acquire_key_error_does_not_carry_the_key_document() {
        use std::io::{Read, Write};
        let l = std::net::TcpListener::bind("127.0.0.1:0").unwrap();
        let port = l.local_addr().unwrap().port();
        std::thread::spawn(move || {
            let (mut s, _) = l.accept().unwrap();
            let mut buf = [0u8; 4096];
            let _ = s.read(&mut buf);
            // a key document the agent cannot parse (incarnationId has the wrong type), with the key value in it
            let body = format!(r#"{{"authorizationScheme":"Azure-HMAC-SHA256","incarnationId":"one","guid":"9cf81e97-0316-4ad3-94a7-8ccbdee8ddbf","issued":"2021-05-05T12:00:00Z","key":"{}"}}"#, SECRET);
            let _ = s.write_all(format!("HTTP/1.1 200 OK\\r\\ncontent-type: application/json; charset=utf-8\\r\\ncontent-length: {}\\r\\n\\r\\n{}", body.len(), body).as_bytes());
            std::thread::sleep(std::time::Duration::from_millis(300));
        });
        let uri: hyper::Uri = format!("http://127.0.0.1:{}/", port).parse().unwrap();
        let e = match acquire_key(&uri).await { Ok(_) => panic!("the malformed key document was accepted"), Err(e) => e };
        assert!(!format!("{} {:?}", e, e).contains(SECRET), "acquire_key's error (put into the status message and the log by the poll loop) echoes the key: {}", e);
    }
}
'''

C12_WIRE = '''
#[cfg(test)]
mod verif_battery_c12_wire {
    use super::*;
    const SECRET: &str = "ZZ-not-hex-SECRET-KEY-MATERIAL-0123456789";
    #[tokio::test(flavor = "current_thread")]
    async fn c12_hex_goalstate_error_does_not_carry_the_key() {
        let state = crate::shared_state::key_keeper_wrapper::KeyKeeperSharedState::start_new();
        let key: crate::key_keeper::key::Key = serde_json::from_str(&format!(r#"{{"authorizationScheme":"Azure-HMAC-SHA256","guid":"9cf81e97-0316-4ad3-94a7-8ccbdee8ddbf","issued":"2021-05-05T12:00:00Z","key":"{}"}}"#, SECRET)).unwrap();
        state.update_key(key).await.unwrap();
        let client = WireServerClient::new("127.0.0.1", 9, state);
        let e = match client.get_goalstate().await { Ok(_) => panic!("unexpected goal state"), Err(e) => e };
        assert!(!format!("{} {:?}", e, e).contains(SECRET), "get_goalstate's error (logged by the telemetry reader) echoes the key: {}", e);
    }
}
'''

# C17: the REAL setup binary driven through command sequences in a private mount namespace (unshare -m; /etc and /usr covered
# by overlay mounts whose upper layers are on a tmpfs inside the namespace; systemctl is a logging stub). Needs root, util-linux
# and overlayfs; it is only run when the symbolic check reports a violation. Release build: clap's debug assertions reject the
# tool's `restore [DELETE_BACKUP]` positional in debug builds.
C17_ROUNDTRIP = r'''
#![cfg(not(windows))]
use std::path::PathBuf;
use std::process::Command;

const PROLOGUE: &str = r#"
set -eu
S="$1"; BIN="$2"
mount -t tmpfs tmpfs "$S"
mkdir -p "$S/eu" "$S/ew" "$S/uu" "$S/uw" "$S/bin" "$S/pkg/ProxyAgent" "$S/snap"
mount -t overlay overlay -o "lowerdir=/etc,upperdir=$S/eu,workdir=$S/ew" /etc
mount -t overlay overlay -o "lowerdir=/usr,upperdir=$S/uu,workdir=$S/uw" /usr
EXE=/usr/sbin/azure-proxy-agent
CFG=/etc/azure/proxy-agent.json
EBPF=/usr/lib/azure-proxy-agent/ebpf_cgroup.o
UNIT=/usr/lib/systemd/system/azure-proxy-agent.service
printf '#!/bin/sh\necho "$@" >> "%s/systemctl.log"\nfor f in %s %s %s %s; do if [ -e "$f" ]; then cksum "$f"; else echo absent "$f"; fi; done >> "%s/systemctl.log"\nexit 0\n' "$S" "$EXE" "$CFG" "$EBPF" "$UNIT" "$S" > "$S/bin/systemctl"
chmod +x "$S/bin/systemctl"
PATH="$S/bin:$PATH"; export PATH
agent() { printf '#!/bin/sh\n# agent build %s\necho %s\n' "$1" "$1" > "$2"; chmod +x "$2"; }
unit()  { printf '[Unit]\nDescription=proxy agent %s\n[Service]\nExecStart=/usr/sbin/azure-proxy-agent\n%s\n' "$1" "$2" > "$3"; }
mkdir -p /etc/azure /usr/lib/azure-proxy-agent /usr/lib/systemd/system
agent 1.0.0 "$EXE"
echo '{"wireServerSupport":1,"pollKeyStatusIntervalInSeconds":15}' > "$CFG"
echo 'ebpf-object-v1' > "$EBPF"
unit 1.0.0 'Restart=always' "$UNIT"
cp "$BIN" "$S/pkg/proxy_agent_setup"
agent 2.0.0 "$S/pkg/ProxyAgent/azure-proxy-agent"
echo '{"wireServerSupport":2,"pollKeyStatusIntervalInSeconds":30}' > "$S/pkg/ProxyAgent/proxy-agent.json"
echo 'ebpf-object-v2' > "$S/pkg/ProxyAgent/ebpf_cgroup.o"
unit 2.0.0 'Restart=on-failure' "$S/pkg/azure-proxy-agent.service"
SETUP="$S/pkg/proxy_agent_setup"
run() { echo "+ setup $*"; "$SETUP" "$@" > "$S/last.out" 2>&1 || { echo "setup $* exited $?"; cat "$S/last.out"; }; }
snapshot() { cp "$EXE" "$S/snap/exe"; cp "$CFG" "$S/snap/cfg"; cp "$EBPF" "$S/snap/ebpf"; cp "$UNIT" "$S/snap/unit"; }
compare() {
  for p in "exe $EXE" "cfg $CFG" "ebpf $EBPF" "unit $UNIT"; do
    set -- $p
    if [ ! -e "$2" ]; then echo "RESULT $1 ABSENT"; elif cmp -s "$S/snap/$1" "$2"; then echo "RESULT $1 same"; else echo "RESULT $1 DIFF"; fi
  done
  if [ -e "$S/pkg/ProxyAgent/Backup" ]; then echo "BACKUP present"; else echo "BACKUP absent"; fi
  echo "SYSTEMCTL $(grep -v -e '^[0-9]' -e '^absent' "$S/systemctl.log" 2>/dev/null | tr '\n' ';')"
}
"#;

fn run_scenario(name: &str, scenario: &str) -> String {
    let dir: PathBuf = std::env::temp_dir().join(format!("verif_c17_{}_{}", name, std::process::id()));
    let _ = std::fs::remove_dir_all(&dir);
    std::fs::create_dir_all(dir.join("mnt")).unwrap();
    let script = dir.join("scenario.sh");
    std::fs::write(&script, format!("{}\n{}", PROLOGUE, scenario)).unwrap();
    let output = Command::new("unshare").arg("-m").arg("sh").arg(&script).arg(dir.join("mnt")).arg(env!("CARGO_BIN_EXE_proxy_agent_setup")).output().expect("unshare");
    let stdout = String::from_utf8_lossy(&output.stdout).to_string();
    println!("---- stdout ----\n{}\n---- stderr ----\n{}", stdout, String::from_utf8_lossy(&output.stderr));
    let _ = std::fs::remove_dir_all(&dir);
    assert!(output.status.success(), "HARNESS scenario script failed: {:?}", output.status);
    stdout
}
fn all(stdout: &str, what: &str) -> bool { ["exe", "cfg", "ebpf", "unit"].iter().all(|f| stdout.contains(&format!("RESULT {} {}", f, what))) }

#[test]
fn c17_roundtrip_from_a_fresh_backup() {
    let o = run_scenario("fresh", "snapshot\nrun backup\nrun install\ncmp -s \"$CFG\" \"$S/pkg/ProxyAgent/proxy-agent.json\" && cmp -s \"$UNIT\" \"$S/pkg/azure-proxy-agent.service\" && echo 'CHECK installed'\nrun restore\ncompare\ncat \"$S/systemctl.log\"");
    assert!(o.contains("CHECK installed"), "install did not place the packaged files");
    assert!(all(&o, "same"), "after backup; install; restore a file differs from its content before the upgrade");
}
#[test]
fn c17_roundtrip_with_an_older_backup_left_behind() {
    let o = run_scenario("kept", "run backup\nrun install\necho '{\"edited\":true}' > \"$CFG\"\nagent 2.0.1-hotfix \"$EXE\"\necho 'ebpf-hotfix' > \"$EBPF\"\nunit hotfix 'Restart=no' \"$UNIT\"\nsnapshot\nrun backup\nrun install\nrun restore\ncompare");
    assert!(all(&o, "same"), "with an older backup present, backup; install; restore does not reinstate the files from before this upgrade");
}
#[test]
fn c17_restore_without_a_backup_changes_nothing() {
    let o = run_scenario("nobackup", "snapshot\nrun restore\ncompare");
    assert!(all(&o, "same") && o.contains("SYSTEMCTL ;") || o.contains("SYSTEMCTL \n") || (all(&o, "same") && !o.contains("stop")), "restore without a backup touched files or the service: {}", o);
}
#[test]
fn c17_purge_removes_only_the_backup() {
    let o = run_scenario("purge", "run backup\nsnapshot\nrun purge\ncompare");
    assert!(all(&o, "same") && o.contains("BACKUP absent"), "purge must remove the backup folder and nothing else");
}
#[test]
fn c17_uninstall_package_removes_the_installed_files() {
    let o = run_scenario("uninstall", "snapshot\nrun uninstall package\ncompare");
    assert!(all(&o, "ABSENT"), "uninstall package must remove the four installed files: {}", o);
}
#[test]
fn c17_files_are_replaced_only_while_the_service_is_stopped() {
    // the systemctl stub records the checksums of the four files at every call: between `stop` and `start` they may change, outside they may not
    let o = run_scenario("order", "run backup\nrun install\ncat \"$S/systemctl.log\"");
    let lines: Vec<&str> = o.lines().collect();
    let idx = |w: &str| lines.iter().position(|l| l.starts_with(w));
    let (stop, start) = (idx("stop "), lines.iter().rposition(|l| l.starts_with("start ")));
    assert!(stop.is_some() && start.is_some(), "install must stop and start the service: {}", o);
    let sums_at = |i: usize| lines[i + 1..].iter().take(4).cloned().collect::<Vec<_>>();
    // at `stop` the old files are still in place; at the last `start` the packaged ones are
    assert!(sums_at(stop.unwrap()) != sums_at(start.unwrap()), "nothing was replaced between stop and start");
    assert!(stop.unwrap() < start.unwrap());
}
'''

# C12, sink level: the REAL poll loop (KeyKeeper::poll_secure_channel_status) runs against a scripted host; afterwards every file
# the agent wrote outside the key store (its log folders, the test binary's logger folder, event files), the KeyKeeper status
# message and the provision error text are searched for the key values that the host handed out.
C12_LOOP = r'''
#[cfg(test)]
#[cfg(not(windows))]
mod verif_battery_c12_loop {
    use super::*;
    use hyper::server::conn::http1;
    use hyper::service::service_fn;
    use hyper::{Request, Response, StatusCode};
    use hyper_util::rt::TokioIo;
    use std::os::unix::fs::PermissionsExt;
    use std::path::{Path, PathBuf};
    use std::sync::{Arc, Mutex};

    #[derive(Clone)]
    struct Script { status_body: String, key_body: String, attest_status: u16 }
    const G1: &str = "c12c12c1-2c12-4c12-8c12-c12c12c12c01";
    const G2: &str = "c12c12c1-2c12-4c12-8c12-c12c12c12c02";
    fn status_doc(key_guid: Option<&str>) -> String {
        format!(r#"{{"authorizationScheme": "Azure-HMAC-SHA256", "keyDeliveryMethod": "http", "keyGuid": {}, "requiredClaimsHeaderPairs": ["isRoot"], "secureChannelState": "Wireserver", "version": "1.0"}}"#,
            match key_guid { Some(g) => format!("\"{}\"", g), None => "null".to_string() })
    }
    fn key_doc(guid: &str, value: &str) -> String {
        format!(r#"{{"authorizationScheme": "Azure-HMAC-SHA256", "guid": "{}", "issued": "2021-05-05T12:00:00Z", "key": "{}"}}"#, guid, value)
    }
    async fn start_host(script: Arc<Mutex<Script>>, token: CancellationToken) -> u16 {
        let listener = tokio::net::TcpListener::bind("127.0.0.1:0").await.unwrap();
        let port = listener.local_addr().unwrap().port();
        tokio::spawn(async move {
            loop {
                tokio::select! {
                    _ = token.cancelled() => return,
                    r = listener.accept() => {
                        let (stream, _) = match r { Ok(x) => x, Err(_) => return };
                        let script = script.clone();
                        tokio::spawn(async move {
                            let service = service_fn(move |req: Request<hyper::body::Incoming>| { let script = script.clone(); async move {
                                let sc = script.lock().unwrap().clone();
                                let path = req.uri().path().to_string();
                                let (status, body) = if path == "/secure-channel/status" { (200u16, sc.status_body) }
                                    else if path == "/secure-channel/key" { (200, sc.key_body) }
                                    else if path.ends_with("/key-attestation") { (sc.attest_status, String::new()) }
                                    else { (404, String::new()) };
                                Response::builder().status(StatusCode::from_u16(status).unwrap()).header(hyper::header::CONTENT_TYPE, "application/json; charset=utf-8")
                                    .body(crate::common::hyper_client::full_body(body.into_bytes()))
                            }});
                            let _ = http1::Builder::new().serve_connection(TokioIo::new(stream), service).await;
                        });
                    }
                }
            }
        });
        port
    }
    fn keeper(port: u16, root: &Path, token: CancellationToken) -> KeyKeeper {
        KeyKeeper { base_url: format!("http://127.0.0.1:{}/", port).parse().unwrap(), key_dir: root.join("Keys"), log_dir: root.join("Logs"), interval: Duration::from_millis(10),
            cancellation_token: token, key_keeper_shared_state: crate::key_keeper::KeyKeeperSharedState::start_new(), telemetry_shared_state: crate::key_keeper::TelemetrySharedState::start_new(),
            redirector_shared_state: crate::key_keeper::RedirectorSharedState::start_new(), provision_shared_state: crate::key_keeper::ProvisionSharedState::start_new(),
            agent_status_shared_state: crate::key_keeper::AgentStatusSharedState::start_new() }
    }
    fn scan(dir: &Path, skip: &Path, needles: &[&str], found: &mut Vec<String>) {
        if dir == skip { return; }
        if let Ok(entries) = std::fs::read_dir(dir) { for e in entries.flatten() { let p = e.path();
            if p.is_dir() { scan(&p, skip, needles, found); }
            else if let Ok(data) = std::fs::read(&p) { let t = String::from_utf8_lossy(&data); for n in needles { if t.contains(n) { found.push(format!("{} contains {}", p.display(), n)); } } } } }
    }
    /// run the loop for `millis`, applying `mid` to the host script half way; returns every place a needle was seen
    async fn observe(name: &str, first: Script, mid: Option<Script>, needles: &[&str], millis: u64, pre: impl FnOnce(&Path)) -> (Vec<String>, PathBuf) {
        let root = std::env::temp_dir().join(format!("verif_c12_{}_{}", name, std::process::id()));
        let _ = std::fs::remove_dir_all(&root);
        std::fs::create_dir_all(&root).unwrap();
        pre(&root);
        let token = CancellationToken::new();
        let script = Arc::new(Mutex::new(first));
        let port = start_host(script.clone(), token.clone()).await;
        let kk = keeper(port, &root, token.clone());
        tokio::spawn({ let kk = kk.clone(); async move { kk.poll_secure_channel_status().await } });
        tokio::time::sleep(Duration::from_millis(millis / 2)).await;
        if let Some(m) = mid { *script.lock().unwrap() = m; }
        tokio::time::sleep(Duration::from_millis(millis / 2)).await;
        let mut found = Vec::new();
        let msg = kk.agent_status_shared_state.get_module_status(crate::shared_state::agent_status_wrapper::AgentStatusModule::KeyKeeper).await.message;
        for n in needles { if msg.contains(n) { found.push(format!("KeyKeeper status message contains {}: {}", n, msg)); } }
        token.cancel();
        tokio::time::sleep(Duration::from_millis(50)).await;
        scan(&root, &root.join("Keys"), needles, &mut found);
        scan(&std::env::temp_dir().join("proxy_agent_test"), Path::new("/nonexistent"), needles, &mut found);
        (found, root)
    }
    const K1: &str = "C0FFEE12C0FFEE12C0FFEE12C0FFEE12C0FFEE12C0FFEE12C0FFEE12C0FFEEA1";
    const K2: &str = "BADC0DE2BADC0DE2BADC0DE2BADC0DE2BADC0DE2BADC0DE2BADC0DE2BADC0DE2";
    const NONHEX: &str = "ZZ-not-hex-SECRET-KEY-MATERIAL-0123456789";

    #[tokio::test(flavor = "multi_thread", worker_threads = 2)]
    async fn c12_loop_attest_refused_key_stays_in_the_store() {
        let (found, root) = observe("refused", Script { status_body: status_doc(None), key_body: key_doc(G1, K1), attest_status: 503 }, None, &[K1], 600, |_| {}).await;
        let _ = std::fs::remove_dir_all(&root);
        assert!(found.is_empty(), "a host that refuses the attestation makes the key value visible: {:?}", found);
    }
    #[tokio::test(flavor = "multi_thread", worker_threads = 2)]
    async fn c12_loop_latch_and_rotation_keys_stay_in_the_store() {
        let (found, root) = observe("rotate", Script { status_body: status_doc(None), key_body: key_doc(G1, K1), attest_status: 200 },
            Some(Script { status_body: status_doc(Some(G2)), key_body: key_doc(G2, K2), attest_status: 200 }), &[K1, K2], 1200, |_| {}).await;
        let rotated = root.join("Keys").join(format!("{}.key", G2)).exists();
        let _ = std::fs::remove_dir_all(&root);
        assert!(rotated, "HARNESS the rotation did not happen");
        assert!(found.is_empty(), "latching / rotating the key makes a key value visible: {:?}", found);
    }
    #[tokio::test(flavor = "multi_thread", worker_threads = 2)]
    async fn c12_doc_loop_unparsable_key_documents_stay_out_of_logs_and_status() {
        let bad1 = format!(r#"{{"authorizationScheme":"Azure-HMAC-SHA256","incarnationId":"one","guid":"{}","issued":"x","key":"{}"}}"#, G1, K1);
        let bad2 = format!(r#"{{"authorizationScheme":"Azure-HMAC-SHA256","guid":"{}","issued":"x","key":"{}""#, G1, K2);
        let (found, root) = observe("baddoc", Script { status_body: status_doc(None), key_body: bad1, attest_status: 200 },
            Some(Script { status_body: status_doc(None), key_body: bad2, attest_status: 200 }), &[K1, K2], 800, |_| {}).await;
        let _ = std::fs::remove_dir_all(&root);
        assert!(found.is_empty(), "a key document the agent cannot parse makes the key value visible: {:?}", found);
    }
    #[tokio::test(flavor = "multi_thread", worker_threads = 2)]
    async fn c12_hex_loop_non_hex_key_stays_out_of_logs_and_status() {
        let (found, root) = observe("nonhex", Script { status_body: status_doc(None), key_body: key_doc(G1, NONHEX), attest_status: 200 }, None, &[NONHEX], 600, |_| {}).await;
        let _ = std::fs::remove_dir_all(&root);
        assert!(found.is_empty(), "a key that is not valid hex is echoed: {:?}", found);
    }
    #[tokio::test(flavor = "multi_thread", worker_threads = 2)]
    async fn c12_keydir_existing_loose_folder_is_restricted_before_the_first_key_file() {
        let (_found, root) = observe("keydir", Script { status_body: status_doc(None), key_body: key_doc(G1, K1), attest_status: 200 }, None, &[K1], 600,
            |root| { let d = root.join("Keys"); std::fs::create_dir_all(&d).unwrap(); std::fs::set_permissions(&d, std::fs::Permissions::from_mode(0o755)).unwrap(); }).await;
        let has_key = root.join("Keys").join(format!("{}.key", G1)).exists();
        let mode = std::fs::metadata(root.join("Keys")).map(|m| m.permissions().mode() & 0o777).unwrap_or(0);
        let _ = std::fs::remove_dir_all(&root);
        assert!(has_key, "HARNESS no key file was written");
        assert_eq!(0o700, mode, "the key folder has mode {:o} while it holds a key file", mode);
    }
}
'''

# C13, key-keeper task: notifications (what `GET /provision` with the notify header sends) arriving at arbitrary times while the
# real poll loop runs with a short interval; the loop must keep running (debug build: an arithmetic overflow panics the task).
C13_NOTIFY = r'''
#[cfg(test)]
#[cfg(not(windows))]
mod verif_battery_c13_notify {
    use super::*;
    use hyper::server::conn::http1;
    use hyper::service::service_fn;
    use hyper::{Request, Response, StatusCode};
    use hyper_util::rt::TokioIo;

    #[tokio::test(flavor = "multi_thread", worker_threads = 4)]
    async fn c13_notifications_at_any_time_do_not_stop_the_key_keeper() {
        let root = std::env::temp_dir().join(format!("verif_c13_notify_{}", std::process::id()));
        let _ = std::fs::remove_dir_all(&root);
        let token = CancellationToken::new();
        let listener = tokio::net::TcpListener::bind("127.0.0.1:0").await.unwrap();
        let port = listener.local_addr().unwrap().port();
        let polls = std::sync::Arc::new(std::sync::atomic::AtomicUsize::new(0));
        let polls2 = polls.clone();
        let t2 = token.clone();
        tokio::spawn(async move { loop { tokio::select! { _ = t2.cancelled() => return, r = listener.accept() => {
            let (stream, _) = match r { Ok(x) => x, Err(_) => return };
            let polls = polls2.clone();
            tokio::spawn(async move {
                let service = service_fn(move |req: Request<hyper::body::Incoming>| { let polls = polls.clone(); async move {
                    let path = req.uri().path().to_string();
                    let (status, body) = if path == "/secure-channel/status" { polls.fetch_add(1, std::sync::atomic::Ordering::SeqCst);
                            (200u16, r#"{"authorizationScheme": "Azure-HMAC-SHA256", "keyDeliveryMethod": "http", "keyGuid": null, "requiredClaimsHeaderPairs": ["isRoot"], "secureChannelState": "Wireserver", "version": "1.0"}"#.to_string()) }
                        else if path == "/secure-channel/key" { (200, r#"{"authorizationScheme": "Azure-HMAC-SHA256", "guid": "c13c13c1-3c13-4c13-8c13-c13c13c13c01", "issued": "2021-05-05T12:00:00Z", "key": "4A404E635266556A586E3272357538782F413F4428472B4B6250645367566B59"}"#.to_string()) }
                        else if path.ends_with("/key-attestation") { (200, String::new()) } else { (404, String::new()) };
                    Response::builder().status(StatusCode::from_u16(status).unwrap()).header(hyper::header::CONTENT_TYPE, "application/json; charset=utf-8").body(crate::common::hyper_client::full_body(body.into_bytes()))
                }});
                let _ = http1::Builder::new().serve_connection(TokioIo::new(stream), service).await;
            }); } } } });
        let kk = KeyKeeper { base_url: format!("http://127.0.0.1:{}/", port).parse().unwrap(), key_dir: root.join("Keys"), log_dir: root.join("Logs"), interval: Duration::from_millis(10),
            cancellation_token: token.clone(), key_keeper_shared_state: crate::key_keeper::KeyKeeperSharedState::start_new(), telemetry_shared_state: crate::key_keeper::TelemetrySharedState::start_new(),
            redirector_shared_state: crate::key_keeper::RedirectorSharedState::start_new(), provision_shared_state: crate::key_keeper::ProvisionSharedState::start_new(),
            agent_status_shared_state: crate::key_keeper::AgentStatusSharedState::start_new() };
        let task = tokio::spawn({ let kk = kk.clone(); async move { kk.poll_secure_channel_status().await } });
        tokio::time::sleep(Duration::from_millis(300)).await;      // first polls: the state becomes known
        // a busy machine: other work keeps the runtime's workers occupied for a few milliseconds at a time, so a woken task runs a little late
        for _ in 0..4 { let t = token.clone(); tokio::spawn(async move { while !t.is_cancelled() { std::thread::sleep(Duration::from_millis(2)); tokio::task::yield_now().await; } }); }
        let state = kk.key_keeper_shared_state.clone();
        let mut alive = true;
        for i in 0..800u32 {
            // (kept under ~30 s: after 60 s of process uptime the loop starts the event threads, which need a config file this sandbox lacks)
            // one notification every two to four poll intervals, at drifting phases: some arrive while the loop waits in its select
            let _ = state.notify().await;
            tokio::time::sleep(Duration::from_millis(21 + ((i * 5) % 17) as u64)).await;
            if task.is_finished() { alive = false; break; }
        }
        let before = polls.load(std::sync::atomic::Ordering::SeqCst);
        tokio::time::sleep(Duration::from_millis(400)).await;
        let after = polls.load(std::sync::atomic::Ordering::SeqCst);
        let finished = task.is_finished();
        token.cancel();
        let _ = std::fs::remove_dir_all(&root);
        assert!(alive && !finished, "the key-keeper task ended while notifications were arriving (a panic in loop_poll)");
        assert!(after > before, "the key keeper stopped polling the secure channel status ({} polls, then none in 400 ms = 40 intervals)", before);
    }
}
'''

# C18: what send_events measures is what it posts (bodies captured on a loopback listener, as they arrive on the wire),
# and no field of a stored event adds structure
C18_WIRE = r'''
#[cfg(test)]
mod verif_battery_c18 {
    use super::*;
    use std::io::{Read, Write};
    use std::sync::{Arc, Mutex};

    fn capture() -> (u16, Arc<Mutex<Vec<Vec<u8>>>>) {
        let listener = std::net::TcpListener::bind("127.0.0.1:0").unwrap();
        let port = listener.local_addr().unwrap().port();
        let bodies = Arc::new(Mutex::new(Vec::new()));
        let sink = bodies.clone();
        std::thread::spawn(move || {
            for stream in listener.incoming() {
                let mut stream = match stream { Ok(s) => s, Err(_) => continue };
                let sink = sink.clone();
                std::thread::spawn(move || {
                    let mut buf: Vec<u8> = Vec::new();
                    let mut chunk = [0u8; 8192];
                    loop {
                        let head_end = loop {
                            if let Some(p) = buf.windows(4).position(|w| w == b"\r\n\r\n") { break p + 4; }
                            match stream.read(&mut chunk) { Ok(0) | Err(_) => return, Ok(n) => buf.extend_from_slice(&chunk[..n]) }
                        };
                        let head = String::from_utf8_lossy(&buf[..head_end]).to_lowercase();
                        let len: usize = head.lines().find_map(|l| l.strip_prefix("content-length:")).map(|v| v.trim().parse().unwrap()).unwrap_or(0);
                        while buf.len() < head_end + len {
                            match stream.read(&mut chunk) { Ok(0) | Err(_) => return, Ok(n) => buf.extend_from_slice(&chunk[..n]) }
                        }
                        sink.lock().unwrap().push(buf[head_end..head_end + len].to_vec());
                        buf.drain(..head_end + len);
                        if stream.write_all(b"HTTP/1.1 200 OK\r\ncontent-length: 0\r\n\r\n").is_err() { return; }
                    }
                });
            }
        });
        (port, bodies)
    }

    fn event(message: String, other: &str) -> Event {
        Event { EventLevel: other.to_string(), Message: message, Version: other.to_string(), TaskName: other.to_string(), EventPid: other.to_string(),
                EventTid: other.to_string(), OperationId: other.to_string(), TimeStamp: other.to_string() }
    }

    fn rendered(events: &[Event], vm: &VmMetaData) -> usize {
        let mut data = TelemetryData::new();
        for e in events { data.add_event(TelemetryEvent::from_event_log(e, vm.clone())); }
        data.to_xml().len()
    }

    #[test]
    fn c18_size_is_the_rendered_length_after_every_step() {
        let vm = VmMetaData::empty();
        let mut data = TelemetryData::new();
        assert_eq!(data.get_size(), data.to_xml().len());
        for n in [0usize, 1, 100, 70000] {
            data.add_event(TelemetryEvent::from_event_log(&event("m".repeat(n), "7"), vm.clone()));
            assert_eq!(data.get_size(), data.to_xml().len(), "after add");
        }
        assert_eq!(4, data.event_count());
        while data.remove_last_event().is_some() {
            assert_eq!(data.get_size(), data.to_xml().len(), "after remove");
        }
        assert_eq!(0, data.event_count());
    }

    #[tokio::test]
    async fn c18_every_posted_batch_is_below_64k_at_the_boundary() {
        let (port, bodies) = capture();
        let client = WireServerClient::new("127.0.0.1", port, KeyKeeperSharedState::start_new());
        let vm = VmMetaData::empty();
        let envelope = rendered(&[], &vm);
        let one = rendered(&[event(String::new(), "7")], &vm) - envelope;
        let max = EventReader::MAX_MESSAGE_SIZE;
        // two events whose joint document has exactly `total` bytes, around the limit and across one envelope beyond it
        let mut totals = vec![max - 2, max - 1, max, max + 1, max + envelope - 1, max + envelope, max + envelope + 1, max + one];
        totals.extend((0..8).map(|k| max + k * envelope / 8));
        for total in totals {
            let text = total - envelope - 2 * one;
            let make = || vec![event("a".repeat(text / 2), "7"), event("b".repeat(text - text / 2), "7")];
            assert_eq!(total, rendered(&make(), &vm));
            bodies.lock().unwrap().clear();
            EventReader::send_events(make(), &client, &vm).await;
            let got = bodies.lock().unwrap().clone();
            let uploaded: usize = got.iter().map(|b| String::from_utf8_lossy(b).matches("<Event id=").count()).sum();
            assert_eq!(2, uploaded, "total {}: each event uploaded once", total);
            for b in &got { assert!(b.len() < max, "total {}: a batch of {} bytes was posted", total, b.len()); }
        }
        // an event too large for any batch is dropped, the others still go out
        bodies.lock().unwrap().clear();
        EventReader::send_events(vec![event("x".repeat(10), "7"), event("y".repeat(max), "7"), event("z".repeat(10), "7")], &client, &vm).await;
        let got = bodies.lock().unwrap().clone();
        let uploaded: usize = got.iter().map(|b| String::from_utf8_lossy(b).matches("<Event id=").count()).sum();
        assert_eq!(2, uploaded, "the two small events are uploaded, the oversize one is dropped");
        for b in &got { assert!(b.len() < max); }
    }

    #[tokio::test]
    async fn c18_an_oversize_event_of_any_text_is_dropped_and_the_rest_goes_out() {
        let (port, bodies) = capture();
        let vm = VmMetaData::empty();
        let max = EventReader::MAX_MESSAGE_SIZE;
        // oversize events whose text has multi-byte characters at every alignment around the first kilobytes
        for pad in 0..4usize {
            for ch in ["\u{e9}", "\u{20ac}", "\u{1f600}"] {
                bodies.lock().unwrap().clear();
                let big = "a".repeat(pad) + &ch.repeat(max / ch.len() + 10);
                let client = WireServerClient::new("127.0.0.1", port, KeyKeeperSharedState::start_new());
                let vm2 = vm.clone();
                let events = vec![event("x".repeat(10), "7"), event(big, "7"), event("z".repeat(10), "7")];
                let r = tokio::spawn(async move { EventReader::send_events(events, &client, &vm2).await }).await;
                assert!(r.is_ok(), "send_events panicked on an oversize event of {:?} characters shifted by {} bytes", ch, pad);
                let got = bodies.lock().unwrap().clone();
                let uploaded: usize = got.iter().map(|b| String::from_utf8_lossy(b).matches("<Event id=").count()).sum();
                assert_eq!(2, uploaded, "the two small events around an oversize one are uploaded");
            }
        }
    }

    #[tokio::test]
    async fn c18_no_field_of_a_stored_event_adds_structure() {
        let (port, bodies) = capture();
        let client = WireServerClient::new("127.0.0.1", port, KeyKeeperSharedState::start_new());
        let vm = VmMetaData::empty();
        bodies.lock().unwrap().clear();
        EventReader::send_events(vec![event("plain".to_string(), "7")], &client, &vm).await;
        let plain = String::from_utf8(bodies.lock().unwrap()[0].clone()).unwrap();
        let shape = |x: &str| (x.matches('<').count(), x.matches('>').count(), x.matches('"').count(), x.matches("]]>").count(), x.matches("<Param ").count());
        for text in ["7\" T=\"mt:uint64\" /><Param Name=\"Context1\" Value=\"forged", "7\" />]]></Event><Event id=\"7\"><![CDATA[<Param Name=\"C\" Value=\"f", "<&>'\"]]>"] {
            bodies.lock().unwrap().clear();
            EventReader::send_events(vec![event(text.to_string(), text)], &client, &vm).await;
            let got = bodies.lock().unwrap().clone();
            assert_eq!(1, got.len());
            let xml = String::from_utf8(got[0].clone()).unwrap();
            assert_eq!(shape(&plain), shape(&xml), "markup in the event text changed the document: {}", xml);
        }
    }
}
'''


# C11: every one of many concurrent denials is counted (the status actor's queue holds 100 actions)
C11_BURST = r'''
#[cfg(test)]
mod verif_battery_c11 {
    use super::*;
    #[tokio::test(flavor = "current_thread")]
    async fn c11_every_concurrent_denial_is_counted() {
        let state = AgentStatusSharedState::start_new();
        fn summary() -> ProxySummary {
            ProxySummary {
                id: 1, method: "GET".to_string(), url: "/x".to_string(), clientIp: "127.0.0.1".to_string(), clientPort: 1, ip: "169.254.169.254".to_string(), port: 80,
                userId: 1000, userName: "u".to_string(), userGroups: vec![], processFullPath: std::path::PathBuf::from("/p"), processCmdLine: "p x".to_string(), runAsElevated: false,
                responseStatus: "403".to_string(), elapsedTime: 1, errorDetails: String::new(),
            }
        }
        let mut tasks = Vec::new();
        for _ in 0..250 {
            let st = state.clone();
            tasks.push(tokio::spawn(async move { st.add_one_failed_connection_summary(summary()).await.is_ok() }));
        }
        let mut reported = 0;
        for t in tasks { if t.await.unwrap() { reported += 1; } }
        let all = state.get_all_failed_connection_summary().await.unwrap();
        let counted: u64 = all.iter().map(|x| x.count).sum();
        assert_eq!(250, counted, "250 concurrent denials, {} acknowledged, {} counted in the published summary", reported, counted);
        // publishing (reading) the summary does not consume it: a second read and later denials see the same entry
        let again = state.get_all_failed_connection_summary().await.unwrap();
        assert_eq!(250u64, again.iter().map(|x| x.count).sum::<u64>(), "the failed-authorization summary is emptied by reading it");
        state.add_one_failed_connection_summary(summary()).await.unwrap();
        let third = state.get_all_failed_connection_summary().await.unwrap();
        assert_eq!(251u64, third.iter().map(|x| x.count).sum::<u64>(), "denials on either side of a publication do not accumulate");
    }
}
'''


# C08 at loop level: the scaffolding of the C12 loop battery (scripted host, real poll loop) with C08's own questions
C08_LOOP = C12_LOOP[:C12_LOOP.index("    #[tokio::test")].replace("verif_battery_c12_loop", "verif_battery_c08_loop").replace("verif_c12_", "verif_c08_") + r'''
    #[tokio::test(flavor = "multi_thread", worker_threads = 2)]
    async fn c08_key_file_survives_a_failed_attestation() {
        // from the agent's side a lost attest response and a refusal look alike: the host may already regard the key as latched
        let (_found, root) = observe("attestfail", Script { status_body: status_doc(None), key_body: key_doc(G1, K1), attest_status: 503 }, None, &[K1], 600, |_| {}).await;
        let stored = std::fs::read_to_string(root.join("Keys").join(format!("{}.key", G1)));
        let _ = std::fs::remove_dir_all(&root);
        let text = stored.expect("the key that was sent for attestation is no longer in the key store");
        assert!(text.contains(K1), "the stored key file is not the key that was sent for attestation: {}", text);
    }
    #[test]
    fn c08_interrupted_store_leaves_nothing_under_the_final_name() {
        let d = std::env::temp_dir().join(format!("verif_c08_interrupted_{}", std::process::id()));
        let _ = std::fs::remove_dir_all(&d);
        std::fs::create_dir_all(&d).unwrap();
        // the write of the temporary file cannot start (a directory sits on its name): the store fails before the rename
        std::fs::create_dir_all(d.join(format!("{}.tmp", G1))).unwrap();
        let mut k = Key::empty(); k.guid = G1.to_string(); k.key = K1.to_string();
        let r = KeyKeeper::store_key(&d, &k);
        let final_name = d.join(format!("{}.key", G1));
        let left = std::fs::metadata(&final_name).ok().map(|m| m.len());
        let _ = std::fs::remove_dir_all(&d);
        assert!(r.is_err(), "HARNESS the store was expected to fail");
        assert!(left.is_none(), "an interrupted store left a file of {:?} bytes under the key's final name", left);
    }
}
'''


# C02: the query splitter and the order-independence of the decision over overlapping privileges
C02_QUERY = r'''
#[cfg(test)]
mod verif_battery_c02_query {
    use super::*;
    #[test]
    fn c02_query_pairs_cut_each_piece_at_its_first_equals_sign() {
        let uri: hyper::Uri = "/machine?comp=goalstate=x&a=&b&=c&d=1==2&e=%3D".parse().unwrap();
        let got = query_pairs(&uri);
        let want: Vec<(String, String)> = [("comp", "goalstate=x"), ("a", ""), ("b", ""), ("d", "1==2"), ("e", "%3D")].iter().map(|(k, v)| (k.to_string(), v.to_string())).collect();
        assert_eq!(want, got);
    }
}
'''

C04_ORDER = r'''
#[cfg(test)]
mod verif_battery_c04_order {
    use super::*;
    #[test]
    fn c04_canonical_headers_are_ordered_by_name() {
        // names where one is a prefix of another and the next character sorts below ':'
        let mut headers = hyper::HeaderMap::new();
        for (n, v) in [("accept-encoding", "gzip"), ("accept", "*/*"), ("x-a", "1"), ("x-a-b", "2"), ("x-a.c", "3"), ("b", "4")] {
            headers.insert(hyper::header::HeaderName::from_static(n), hyper::header::HeaderValue::from_static(v));
        }
        let got = headers_to_canonicalized_string(&headers);
        let mut names: Vec<&str> = vec!["accept-encoding", "accept", "x-a", "x-a-b", "x-a.c", "b"];
        names.sort();
        let want: String = names.iter().map(|n| format!("{}:{}\n", n, headers.get(*n).unwrap().to_str().unwrap())).collect();
        assert_eq!(want, got, "the canonical header block is not in the order of the sorted header names");
    }
}
'''

C02_RULES = r'''
#[cfg(test)]
mod verif_battery_c02_rules {
    use super::*;
    use crate::key_keeper::key::{AccessControlRules, AuthorizationItem, Identity, Privilege, Role, RoleAssignment};
    #[test]
    fn c02_overlapping_privileges_decide_the_same_in_every_build() {
        // two privileges match the URL, the caller holds only one of them: allowed, whichever the table yields first
        let claims = crate::proxy::Claims { userId: 0, userName: "u1".to_string(), userGroups: vec![], processId: 1, processFullPath: std::path::PathBuf::from("/p"), clientIp: "0".to_string(), clientPort: 0,
            processName: std::ffi::OsString::from("p"), processCmdLine: "p".to_string(), runAsElevated: true };
        let mut denied = 0;
        for round in 0..64 {
            let mut privileges = vec![];
            for k in 0..(1 + round % 5) { privileges.push(Privilege { name: format!("filler{}", k), path: format!("/other{}", k), queryParameters: None }); }
            privileges.push(Privilege { name: "broad".to_string(), path: "/machine".to_string(), queryParameters: None });
            privileges.push(Privilege { name: "narrow".to_string(), path: "/machine/plugins".to_string(), queryParameters: None });
            let rules = AccessControlRules {
                roles: Some(vec![Role { name: "r".to_string(), privileges: vec!["narrow".to_string()] }, Role { name: "other".to_string(), privileges: vec!["broad".to_string()] }]),
                privileges: Some(privileges),
                identities: Some(vec![Identity { name: "i".to_string(), userName: Some("u1".to_string()), groupName: None, exePath: None, processName: None },
                                      Identity { name: "someone-else".to_string(), userName: Some("u2".to_string()), groupName: None, exePath: None, processName: None }]),
                roleAssignments: Some(vec![RoleAssignment { role: "r".to_string(), identities: vec!["i".to_string()] }, RoleAssignment { role: "other".to_string(), identities: vec!["someone-else".to_string()] }]),
            };
            let item = ComputedAuthorizationItem::from_authorization_item(AuthorizationItem { defaultAccess: "deny".to_string(), mode: "enforce".to_string(), rules: Some(rules), id: "x".to_string() });
            let mut logger = crate::proxy::proxy_connection::ConnectionLogger::new(0, 0);
            if !item.is_allowed(&mut logger, "/machine/plugins?comp=config".parse().unwrap(), claims.clone()) { denied += 1; }
        }
        assert_eq!(0, denied, "a caller granted `narrow` was denied in {} of 64 rule-set builds (a privilege it does not hold matched first)", denied);
    }
    #[test]
    fn c02_a_dangling_name_in_a_list_does_not_hide_its_neighbours() {
        let claims = |user: &str| crate::proxy::Claims { userId: 0, userName: user.to_string(), userGroups: vec![], processId: 1, processFullPath: std::path::PathBuf::from("/p"), clientIp: "0".to_string(), clientPort: 0,
            processName: std::ffi::OsString::from("p"), processCmdLine: "p".to_string(), runAsElevated: true };
        let id = |n: &str, u: &str| Identity { name: n.to_string(), userName: Some(u.to_string()), groupName: None, exePath: None, processName: None };
        for order in [vec!["alice", "ghost", "bob"], vec!["ghost", "alice", "bob"], vec!["alice", "bob", "ghost"], vec!["bob", "ghost", "alice"]] {
            for roles in [vec!["nowhere", "r"], vec!["r", "nowhere"]] {
                let rules = AccessControlRules {
                    roles: Some(vec![Role { name: "r".to_string(), privileges: vec!["ghost-privilege".to_string(), "p".to_string()] }]),
                    privileges: Some(vec![Privilege { name: "p".to_string(), path: "/x".to_string(), queryParameters: None }]),
                    identities: Some(vec![id("alice", "ua"), id("bob", "ub")]),
                    roleAssignments: Some(roles.iter().map(|r| RoleAssignment { role: r.to_string(), identities: order.iter().map(|s| s.to_string()).collect() }).collect()),
                };
                let item = ComputedAuthorizationItem::from_authorization_item(AuthorizationItem { defaultAccess: "deny".to_string(), mode: "enforce".to_string(), rules: Some(rules), id: "x".to_string() });
                let mut logger = crate::proxy::proxy_connection::ConnectionLogger::new(0, 0);
                for u in ["ua", "ub"] {
                    assert!(item.is_allowed(&mut logger, "/x".parse().unwrap(), claims(u)), "user {} is listed in the assignment {:?} (roles {:?}) but is denied", u, order, roles);
                }
            }
        }
    }
}
'''


# C13 at loop level: the key-keeper task survives every sequence of status documents (scaffolding of the C12 loop battery)
C13_KEYSTEP = C12_LOOP[:C12_LOOP.index("    #[tokio::test")].replace("verif_battery_c12_loop", "verif_battery_c13_keystep").replace("verif_c12_", "verif_c13k_") + r'''
    #[tokio::test(flavor = "multi_thread", worker_threads = 2)]
    async fn c13_key_keeper_task_survives_every_status_sequence() {
        let root = std::env::temp_dir().join(format!("verif_c13k_{}", std::process::id()));
        let _ = std::fs::remove_dir_all(&root);
        std::fs::create_dir_all(&root).unwrap();
        let token = CancellationToken::new();
        let script = Arc::new(Mutex::new(Script { status_body: status_doc(None), key_body: key_doc(G1, K1), attest_status: 200 }));
        let port = start_host(script.clone(), token.clone()).await;
        let kk = keeper(port, &root, token.clone());
        let task = tokio::spawn({ let kk = kk.clone(); async move { kk.poll_secure_channel_status().await } });
        // latch with a host that names no key; then the host names the key; names another; names none again; answers nonsense
        let steps = vec![
            Script { status_body: status_doc(None), key_body: key_doc(G1, K1), attest_status: 200 },
            Script { status_body: status_doc(Some(G1)), key_body: key_doc(G1, K1), attest_status: 200 },
            Script { status_body: status_doc(Some(G2)), key_body: key_doc(G2, K2), attest_status: 200 },
            Script { status_body: status_doc(None), key_body: key_doc(G1, K1), attest_status: 503 },
            Script { status_body: "{\"not\": \"a status\"}".to_string(), key_body: "nonsense".to_string(), attest_status: 500 },
            Script { status_body: status_doc(None), key_body: key_doc(G2, K2), attest_status: 200 },
        ];
        for (i, s) in steps.into_iter().enumerate() {
            *script.lock().unwrap() = s;
            tokio::time::sleep(Duration::from_millis(300)).await;
            assert!(!task.is_finished(), "the key-keeper task ended (panicked) during step {} of the status sequence", i);
        }
        token.cancel();
        let _ = std::fs::remove_dir_all(&root);
    }
}
'''


BATTERIES = {
    "C02": [("azure-proxy-agent", [("proxy_agent/src/common/hyper_client.rs", C02_QUERY), ("proxy_agent/src/proxy/authorization_rules.rs", C02_RULES)], "verif_battery_c02", True)],
    "C04": [("azure-proxy-agent", [("proxy_agent/src/common/helpers.rs", __import__("p_c04").MAC_TEST), ("proxy_agent/src/common/hyper_client.rs", C02_QUERY.replace("verif_battery_c02_query", "verif_battery_c04_query").replace("fn c02_", "fn c04_") + C04_ORDER)], "verif_battery_c04", True)],
    "C08": [("proxy_agent_shared", [("proxy_agent_shared/src/misc_helpers.rs", C08_SHARED)], "verif_battery_c08_file", False),
            ("azure-proxy-agent", [("proxy_agent/src/key_keeper.rs", C08_AGENT + C08_LOOP)], "verif_battery_c08_key", True)],
    "C09": [("azure-proxy-agent", [("proxy_agent/src/key_keeper/key.rs", C09_KEY), ("proxy_agent/src/shared_state/key_keeper_wrapper.rs", C09_WRAPPER)], "verif_battery_c09", True)],
    "C12": [("azure-proxy-agent", [("proxy_agent/src/common/helpers.rs", C12_HELPERS), ("proxy_agent/src/key_keeper/key.rs", C12_KEY),
                                   ("proxy_agent/src/host_clients/wire_server_client.rs", C12_WIRE), ("proxy_agent/src/key_keeper.rs", C12_LOOP)], "verif_battery_c12", True)],
    "C11": [("azure-proxy-agent", [("proxy_agent/src/shared_state/agent_status_wrapper.rs", C11_BURST)], "verif_battery_c11", True)],
    "C13": [("azure-proxy-agent", [("proxy_agent/src/key_keeper.rs", C13_NOTIFY)], "verif_battery_c13", True)],
    # C07: a REAL kernel audit_map (map-only BPF object, no program attached; needs the bpf() syscall, i.e. root): the test plays the kernel,
    # writes attribution records for chosen source ports and drives the real TcpConnectionContext::new / ProxyServer accept path
    "C07": [("azure-proxy-agent", [("@patch", os.path.join(os.path.dirname(os.path.dirname(os.path.abspath(__file__))), "harness", "native", "c07_real_audit_map.diff"))], "c07_", True)],
    "C17": [("proxy_agent_setup", [("proxy_agent_setup/tests/verif_roundtrip.rs", C17_ROUNDTRIP)], "c17_", False, ["--release", "--test", "verif_roundtrip"])],
    "C18": [("azure-proxy-agent", [("proxy_agent/src/telemetry/event_reader.rs", C18_WIRE)], "verif_battery_c18", True)],
    "C19": [("proxy_agent_shared", [("proxy_agent_shared/src/logger/rolling_logger.rs", C19_SHARED + C19_RESTART)], "verif_battery_c19_", False),
            ("proxy_agent_shared", [("proxy_agent_shared/src/telemetry/event_logger.rs", C19_EVENTS)], "verif_battery_c19_events", False),
            ("azure-proxy-agent", [("proxy_agent/src/proxy/authorization_rules.rs", C19_AGENT)], "verif_battery_c19_dumps", True)],
}


def confirm(rep, pid):
    # violations listed in known_findings.json were replayed when they were recorded (artefacts under /verif/findings)
    known = {f.get("key") for f in load_known_findings().get("findings", []) if f.get("property") == pid}
    if getattr(rep, "tier", "quick") == "thorough":
        known = set()          # the thorough tier replays the listed findings again (a finding that stopped reproducing shows as "symbolic only")
    pending = [q for q in rep.queries if q.status == "violated" and q.reproduced is None and q.key not in known]
    if not pending or pid not in BATTERIES:
        return
    failed, ran, texts = [], [], []
    for entry in BATTERIES[pid]:
        pkg, inj, flt, no_args = entry[:4]
        res, out = rp.run_rust_tests(pkg, inj, flt, no_args=no_args, cargo_args=entry[4] if len(entry) > 4 else None)
        for name, st in (res or {}).items():
            if name.startswith("c%s_" % pid[1:].lower()):
                if st in ("ok", "FAILED"):
                    ran.append(name)
                if st == "FAILED":
                    failed.append(name)
        texts += ["// append to %s\n%s" % (f, code) for f, code in inj]
    path = save_replay(pid, "unit_battery.rs", "\n".join(texts))
    for q in pending:
        mine = failed
        if pid == "C12":
            # a replay confirms the violations of its own carrier only: c12_hex_* the Error::Hex echo, c12_doc_* the echoed key document
            k = q.key or ""
            wants = ["c12_hex_"] if "Hex" in k else (["c12_doc_"] if "key-document" in k else [])
            if k.startswith("C12.keydir"):
                wants = ["c12_keydir_"]
            elif ":loop_poll->" in k and "Hex" not in k and "key-document" not in k:
                wants = ["c12_loop_"]          # any other leak inside the poll loop: the sink-level runs of the real loop
            mine = [f for f in failed if any(f.startswith(w) for w in wants)]
            if not mine:
                if ran:
                    q.detail += " || no native replay for this flow: reported from the symbolic trace"
                continue
        if mine:
            q.reproduced = True
            q.replay = path
            q.detail += " || native replay battery: FAILED %s" % mine
            rep.traces_validated += 1
        elif ran:
            q.detail += " || native battery (%d tests) passed: the violation is reported from the symbolic trace only" % len(ran)
    rep.extra["unit_battery"] = {"ran": ran, "failed": failed}
