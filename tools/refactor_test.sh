#!/bin/bash
# no-false-alarm test: apply each behaviour-preserving patch given on the command line to /repo, run every registered quick
# check (or the ones named in $CHECKS), expect exit 0 and no VIOLATION line, undo. Never leaves /repo modified.
cd "$(dirname "$(readlink -f "$0")")/.."
R=${VERIF_REPO:-/repo}
if ! git -C $R diff --quiet; then echo "$R has uncommitted changes"; exit 2; fi
all=$(python3 -c "import json;print(' '.join(c['property_id'] for c in json.load(open('MANIFEST.json'))['checks']))")
fail=0
for patch in "$@"; do
  patch=$(readlink -f "$patch")
  git -C $R apply "$patch" || { echo "$patch: does not apply"; fail=1; continue; }
  files=$(git -C $R diff --name-only | tr '\n' ' ')
  for p in ${CHECKS:-$all}; do
    # the eBPF and Kani checks only read these files; skip them (slow) when the patch is elsewhere
    if [ -z "$CHECKS" ]; then
      case $p in
        C06) echo "$files" | grep -qE "linux-ebpf|ebpf_obj|bpf_prog|redirector" || continue;;
        C20) echo "$files" | grep -qE "proxy_agent_extension|proxy_agent_shared" || continue;;
        C17) echo "$files" | grep -qE "proxy_agent_setup|proxy_agent_shared" || continue;;
      esac
    fi
    s=$(date +%s); out=$(./check $p --tier quick 2>&1); rc=$?; e=$(( $(date +%s) - s ))
    n=$(echo "$out" | grep -c '^VIOLATION')
    if [ $rc -ne 0 ] || [ $n -gt 0 ]; then
      echo "FALSE-ALARM $(basename $(dirname $patch))/$(basename $patch) $p rc=$rc ${e}s"; fail=1
      mkdir -p /var/tmp/gpa-verif-cache/refactor; echo "$out" > /var/tmp/gpa-verif-cache/refactor/$(basename $(dirname $patch))-$(basename $patch)-$p.log
    else echo "quiet       $(basename $(dirname $patch))/$(basename $patch) $p ${e}s"; fi
  done
  git -C $R checkout -- .
done
exit $fail
