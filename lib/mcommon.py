"""Shared helpers for the mirsym-based checks."""
import os, re, time
import z3
from common import *
from mirparse import MirIndex, MirError, find_matching, split_top
import mirsym
from mirsym import *
import mirdump


class Ctx:
    def __init__(self, crate="agent"):
        d = mirdump.get_dump(crate)
        self.dump = d
        self.src = d.src
        self.idx = MirIndex(d.dir)
        dirs = [os.path.join(d.src, x) for x in os.listdir(d.src) if os.path.isdir(os.path.join(d.src, x))]
        self.enums = scan_enums(dirs)
        self.structs = scan_structs(dirs)

    def field(self, struct, name):
        fs = self.structs.get(struct)
        if not fs or name not in fs:
            raise Inconclusive("struct %s has no field %s in the source (renamed?)" % (struct, name))
        return fs.index(name)

    def engine(self, auto=True, **kw):
        e = Engine(self.idx, enums=self.enums, src_root=self.src, **kw)
        ALL_ENGINES.append((self, e))
        if auto:
            e.auto_inline = self.default_auto()
        return e

    # ---- default automatic inlining: "a repo function the checks do not know by name is looked into" ----
    # A behaviour-preserving "extract helper" refactoring introduces a function whose name no obligation refers to; left
    # uninterpreted it would hide the events the obligations look for (false alarm). Such callees are inlined when they
    # resolve to exactly one body and a stand-alone exploration of that body succeeds with few paths.
    AUTO_KEEP = re.compile(r"(SharedState::|::log$|Logger::|logger::|event_logger::|logger_manager::|telemetry::|misc_helpers::|helpers::|"
                           r"::clone$|::fmt$|::to_string$|::drop$|::default$|::eq$|::ne$|::from$|::into$|::new$|::deserialize$|::serialize$)")

    def default_auto(self):
        if getattr(self, "_auto", None) is not None:
            return self._auto
        import callgraph
        cg = callgraph.CallGraph(self.idx)
        cg.set_src(self.src)
        known = known_names()
        # functions that existed when the obligations were written and that no obligation names stay uninterpreted as before
        # (inlining them only multiplies paths); only functions that appeared since are looked into.
        bf = os.path.join(os.path.dirname(os.path.abspath(__file__)), "baseline_fn_names.txt")
        baseline = set(open(bf).read().split()) if os.path.exists(bf) else set()
        ok = {}
        ctx = self

        def inlinable(path, stack):
            if path in ok:
                return ok[path]
            if path in stack or len(stack) > 3:
                return False
            ok[path] = False
            try:
                e2 = Engine(ctx.idx, enums=ctx.enums, src_root=ctx.src, loop_bound=1, max_paths=24, timeout=20)
                e2.auto_inline = lambda engine, callee, caller: pick(callee, caller, stack + [path])
                ps = e2.explore(path)
                # a helper holding a loop ends some stand-alone paths at the loop bound ("cut"): still inlinable, the caller's own bound applies
                good = 0 < len(ps) <= 12 and all(p.status in ("return", "panic", "cut") for p in ps) and any(p.status == "return" for p in ps)
            except Exception:
                good = False
            ok[path] = good
            return good

        def pick(callee, caller, stack):
            if Ctx.AUTO_KEEP.search(callee):
                return None
            seg = callgraph.last_seg(callee)
            if seg in known or seg in baseline:
                return None
            c = cg.resolve(callee, caller)
            if len(c) != 1:
                return None
            p = next(iter(c))
            if "{closure" in p.split("::")[-1] or Ctx.AUTO_KEEP.search(p):
                return None
            return p if inlinable(p, stack) else None

        self._auto = lambda engine, callee, caller: pick(callee, caller, [])
        self.auto_decisions = ok
        return self._auto

    def new_function_auto(self):
        """inline EVERY crate function that did not exist when the obligations were written (not in the baseline list, not named by a
        check), whatever module it lives in: for small units (listers, name builders) where a helper extracted by a refactoring
        must not turn into an unknown predicate"""
        import callgraph
        cg = callgraph.CallGraph(self.idx)
        cg.set_src(self.src)
        known = known_names()
        bf = os.path.join(os.path.dirname(os.path.abspath(__file__)), "baseline_fn_names.txt")
        baseline = set(open(bf).read().split()) if os.path.exists(bf) else set()
        default = self.default_auto()

        def pick(engine, callee, caller):
            p = default(engine, callee, caller)
            if p is not None:
                return p
            seg = callgraph.last_seg(callee)
            if seg in known or seg in baseline or re.search(r"(::clone$|::fmt$|::to_string$|::drop$|::default$|::eq$|::ne$|::from$|::into$)", callee):
                return None
            c = cg.resolve(callee, caller)
            if len(c) != 1:
                return None
            p = next(iter(c))
            return None if "{closure" in p.split("::")[-1] else p
        return pick

    def one(self, suffix):
        c = self.idx.find(suffix)
        if len(c) != 1:
            raise Inconclusive("expected exactly one MIR body for %s, found %d" % (suffix, len(c)))
        return c[0]

    def method(self, type_name, method, trait=None):
        c = find_method(self.idx, self.src, type_name, method, trait)
        if len(c) != 1:
            raise Inconclusive("expected exactly one impl body %s::%s, found %d" % (type_name, method, len(c)))
        return c[0]


_KNOWN = None
ALL_ENGINES = []          # (ctx, engine) of every engine a check created: for the audit of uninterpreted crate callees


def audit_uninterpreted():
    """crate functions (exactly one MIR body) that some exploration of this run left uninterpreted -> {name: body path}"""
    import callgraph
    out = {}
    cgs = {}
    for ctx, e in ALL_ENGINES:
        cg = cgs.get(id(ctx))
        if cg is None:
            cg = cgs[id(ctx)] = callgraph.CallGraph(ctx.idx)
            cg.set_src(ctx.src)
        for c in sorted(e.uninterpreted):
            try:
                r = cg.resolve(c, None)
            except Exception:
                continue
            if len(r) == 1:
                out[c] = next(iter(r))
    return out


def known_names():
    """every identifier-like token in the check sources: the function names obligations can refer to"""
    global _KNOWN
    if _KNOWN is None:
        _KNOWN = set()
        d = os.path.dirname(os.path.abspath(__file__))
        for f in os.listdir(d):
            if f.endswith(".py") and (f.startswith("p_c") or f in ("handler_model.py", "e2e.py", "taint.py")):
                _KNOWN |= set(re.findall(r"[A-Za-z_]\w{2,}", open(os.path.join(d, f)).read()))
    return _KNOWN


def scan_structs(src_dirs):
    """{StructName: [field names in declaration order]} for named-field structs."""
    structs = {}
    for d in src_dirs:
        for root, _dirs, files in os.walk(d):
            for f in files:
                if not f.endswith(".rs"):
                    continue
                try:
                    txt = open(os.path.join(root, f), errors="replace").read()
                except OSError:
                    continue
                for m in re.finditer(r"\bstruct\s+(\w+)\s*(?:<[^>{]*>)?\s*\{", txt):
                    start = m.end() - 1
                    try:
                        end = find_matching(txt, start)
                    except MirError:
                        continue
                    body = re.sub(r"//[^\n]*", "", txt[start + 1:end])
                    body = re.sub(r"#\[[^\]]*\]", "", body)
                    names = []
                    for part in split_top(body):
                        mm = re.match(r"\s*(?:pub(?:\([^)]*\))?\s+)?(\w+)\s*:", part)
                        if mm:
                            names.append(mm.group(1))
                    if names and m.group(1) not in structs:
                        structs[m.group(1)] = names
    return structs


def check_sat(constraints, timeout_ms=60000):
    s = z3.Solver()
    s.set("timeout", timeout_ms)
    for c in constraints:
        s.add(c)
    t0 = time.time()
    r = s.check()
    dt = time.time() - t0
    model, zm = None, None
    if r == z3.sat:
        zm = s.model()
        model = {str(d): str(zm[d]) for d in zm.decls()}
    return str(r), model, dt, zm


def add_query(rep, name, constraints, expect="unsat", key=None, detail="", engine="mirsym+z3", nontrivial=True, path=None):
    """Discharge one query. expect='unsat': property obligation (sat = violation candidate, returned to the caller);
    expect='sat': reachability witness."""
    r, model, dt, zm = check_sat(constraints)
    if r == "unknown":
        rep.add(Query(name, "inconclusive", "z3 returned unknown", dt, engine, key=key))
        return None
    if expect == "unsat":
        if r == "unsat":
            rep.add(Query(name, "holds", detail, dt, engine, key=key, nontrivial=nontrivial))
            return None
        return (model, dt, zm)
    else:
        rep.add(Query(name, "witness-hit" if r == "sat" else "witness-missed", detail, dt, engine, key=key))
        return None


def describe_path(r, maxc=8):
    calls = [e.callee.split("::")[-1] for e in r.events if e.kind in ("call", "await")]
    return {"status": r.status, "decisions": r.decisions[:40], "calls": calls[:40]}


def wrapper_variant_unit(rep, ctx, type_name, fn, variant, key, payload_arg=None):
    """An actor wrapper `fn` (async) sends exactly the message `variant` - carrying its own argument when it has one - with the waiting send,
    and returns the actor's reply as received. The obligations of the checks name these wrappers; this decides what is behind the name."""
    from p_c08 import derives
    try:
        w = ctx.method(type_name, fn) + "::{closure#0}"
    except Inconclusive as ex:
        rep.add(Query("wrapper %s::%s located" % (type_name, fn), "inconclusive", str(ex), 0, "mirsym", key=key))
        return
    if w not in ctx.idx.files:
        rep.add(Query("wrapper %s::%s located" % (type_name, fn), "inconclusive", "no async body", 0, "mirsym", key=key))
        return
    eng = ctx.engine(loop_bound=2, max_paths=2000)
    n = 0
    for i, r in enumerate(eng.explore(w)):
        if r.status != "return":
            continue
        env = origin(r.args[0])
        sends = [e for e in r.events if e.kind == "await" and re.search(r"mpsc::Sender::send$", e.callee)]
        lossy = [e.callee.split("::")[-1] for e in r.events if e.kind == "call" and re.search(r"mpsc::\w*Sender::(try_send|send_timeout|blocking_send)$", e.callee)]
        is_err = isinstance(r.ret, Agg) and r.ret.variant == "Err"
        if is_err and not lossy:
            continue
        n += 1
        msg = sends[0].rargs[1] if sends and len(sends[0].rargs) > 1 else None
        ok = len(sends) == 1 and not lossy and isinstance(msg, Agg) and msg.variant == variant
        detail = "sends %s" % ([getattr(e.rargs[1], "variant", "?") for e in sends if len(e.rargs) > 1] + lossy)
        if ok and payload_arg is not None:
            arg = env.child(("f", payload_arg))
            ok = any(same_origin(f, arg) or derives(f, arg, r.events) for f in msg.fields)
            detail += "; payload is the wrapper's argument: %s" % ok
        if ok:
            rx = [e for e in r.events if e.kind == "await" and r.events.index(e) > r.events.index(sends[0])]
            ok = bool(rx)
            if ok and not (isinstance(r.ret, Agg) and r.ret.variant == "Ok" and r.ret.fields and isinstance(r.ret.fields[0], Agg) and r.ret.fields[0].kind == "tuple" and not r.ret.fields[0].fields):
                o = origin(r.ret.fields[0]) if isinstance(r.ret, Agg) and r.ret.fields else origin(r.ret)
                ok = derives(o, rx[-1].ret, r.events) or (isinstance(o, Sym) and isinstance(o.tag, tuple) and o.tag[0] == "map_err" and derives(o.tag[1], rx[-1].ret, r.events))
                detail += "; returns the reply: %s" % ok
        rep.add(Query("wrapper %s path %d: sends %s (waiting send%s) and returns the actor's reply" % (fn, i, variant, ", carrying its argument" if payload_arg is not None else ""), "holds" if ok else "violated", detail, 0, "mirsym",
                      key=key, reproduced=None))
    rep.functions_encoded.append(w)
    rep.add(Query("witness: wrapper %s has a completing path" % fn, "witness-hit" if n else "witness-missed", "%d" % n, 0, "mirsym"))
