"""C01 complete mediation (engine M). See DESIGN.md 4/C01."""
from mcommon import *
from handler_model import *

REFUSALS = [  # (cause name, how to get the cause's condition, required status)
    ("traversal", lambda p: p.var_traversal(), "NOT_FOUND"),
    ("no-destination", lambda p: p.var_dest_none(), "MISDIRECTED_REQUEST"),
    ("no-claims", lambda p: p.var_claims_none(), "MISDIRECTED_REQUEST"),
    ("rules-error", lambda p: p.var_rules_err(), "INTERNAL_SERVER_ERROR"),
    ("forbidden", lambda p: p.var_forbidden(), "FORBIDDEN"),
]
ERROR_STATUSES = {"NOT_FOUND", "MISDIRECTED_REQUEST", "INTERNAL_SERVER_ERROR", "FORBIDDEN"}


def violated(rep, name, key, detail, p, dt=0.0, model=None):
    path = save_replay(rep.pid, "path%d_%s.json" % (p.i, re.sub(r"\W+", "_", key)), json.dumps({"obligation": name, "detail": detail, "path": p.describe(), "model": model}, indent=1, default=str))
    rep.add(Query(name, "violated", detail, dt, "mirsym+z3", key=key, model=model, replay=path, reproduced=None))


def check_mediation(rep, hm):
    ctx = hm.ctx
    n_relay = 0
    for p in hm.paths:
        if p.r.status != "return":
            rep.add(Query("path %d completes" % p.i, "inconclusive", "%s: %s" % (p.r.status, p.r.note), 0, "mirsym"))
            continue
        resp = p.response()
        relays = p.relays
        if relays:
            n_relay += 1
            first_relay = p.index(relays[0])
            # (a) every mediation condition is implied by the path condition
            conds = [("no traversal characters", p.var_traversal(), True), ("attributed destination present", p.var_dest_none(), True),
                     ("caller claims present", p.var_claims_none(), True), ("rules lookup succeeded", p.var_rules_err(), True),
                     ("authorize() did not return Forbidden", p.var_forbidden(), True)]
            for cname, var, negate in conds:
                qn = "path %d relays => %s" % (p.i, cname)
                key = "C01.mediation:" + cname
                if var is None:
                    violated(rep, qn, key, "the relay path never evaluates this condition", p)
                    continue
                bad = add_query(rep, qn, p.pc + [var], key=key)
                if bad:
                    violated(rep, qn, key, "relay reachable with the condition false", p, bad[1], bad[0])
            # (b) the checks precede the relay and authorize() sees the connection's own attribution
            au = p.first(r"(^|::)authorize$", ("call",))
            ru = p.first(r"get_access_control_rules$", ("await",))
            ok_order = au is not None and ru is not None and p.index(ru) < p.index(au) < first_relay
            rep.add(Query("path %d: rules lookup < authorize < relay in trace order" % p.i, "holds" if ok_order else "violated",
                          "", 0, "mirsym", key="C01.order", reproduced=None if ok_order else None))
            if au is not None and len(au.rargs) == 6:
                dip = ctx.field("TcpConnectionContext", "destination_ip")
                checks = [
                    ("ip argument = context.destination_ip", is_part_of(au.rargs[0], p.tctx, [("f", dip), ("v", "Some", 0)])),
                    ("port argument = context.destination_port", is_part_of(au.rargs[1], p.tctx, [("f", ctx.field("TcpConnectionContext", "destination_port"))])),
                    ("claims argument = context.claims", is_part_of(au.rargs[4], p.tctx, [("f", ctx.field("TcpConnectionContext", "claims")), ("v", "Some", 0)])),
                    ("rules argument = Ok payload of this request's rules lookup", ru is not None and is_part_of(au.rargs[5], ru.ret, [("v", "Ok", 0)])),
                    ("uri argument = uri of the incoming request", _is_uri_of(p, au.rargs[3])),
                ]
                if ru is not None and len(ru.rargs) >= 2:
                    checks.append(("rules are looked up for the same destination", same_origin(ru.rargs[0], au.rargs[0]) and same_origin(ru.rargs[1], au.rargs[1])))
                for cname, ok in checks:
                    qn = "path %d: authorize() %s" % (p.i, cname)
                    if ok:
                        rep.add(Query(qn, "holds", "", 0, "mirsym", key="C01.args:" + cname))
                    else:
                        violated(rep, qn, "C01.args:" + cname, "data-flow origin mismatch: %r" % (au.rargs,), p)
            elif au is not None:
                rep.add(Query("path %d: authorize() has 6 arguments" % p.i, "inconclusive", "signature changed", 0, "mirsym"))
        else:
            # refusal paths: an error status, nothing relayed
            if resp[0] == "status":
                pass
        # (c) refusal causes: whenever the path condition admits a cause, nothing is relayed and the status is right
        first_cause = None
        for cname, getter, status in REFUSALS:
            var = getter(p)
            if var is None:
                continue
            if not p.implied(var):
                continue
            if first_cause is None:
                first_cause = (cname, status)
            qn = "path %d: cause %s => no relay" % (p.i, cname)
            if relays:
                violated(rep, qn, "C01.refusal-relays:" + cname, "request relayed although %s holds on the path" % cname, p)
            else:
                rep.add(Query(qn, "holds", "", 0, "mirsym+z3", key="C01.refusal-relays:" + cname))
        if first_cause:
            qn = "path %d: cause %s => status %s" % (p.i, first_cause[0], first_cause[1])
            if resp == ("status", first_cause[1]):
                rep.add(Query(qn, "holds", "", 0, "mirsym+z3", key="C01.refusal-status:" + first_cause[0]))
            elif resp[0] == "status" and resp[1] in ERROR_STATUSES and not relays:
                rep.add(Query(qn, "holds", "status %s (another listed error status; several causes hold)" % resp[1], 0, "mirsym+z3", key="C01.refusal-status:" + first_cause[0]))
            else:
                violated(rep, qn, "C01.refusal-status:" + first_cause[0], "response is %r" % (resp,), p)
        # (d) no upstream-sending primitive hides in an uninterpreted callee before/without the relay
        limit = p.index(relays[0]) if relays else len(p.events)
        for e in p.events[:limit]:
            if e.kind != "call" or RELAY.search(e.callee):
                continue
            hs = hm.hidden_sinks(e.callee)
            if hs:
                violated(rep, "path %d: callee %s cannot send upstream" % (p.i, e.callee), "C01.hidden-sink:" + e.callee.split("::")[-1],
                         "statically reaches %s" % hs[:4], p)
    rep.add(Query("no upstream-sending primitive reachable from uninterpreted callees before the relay (all paths)", "holds", "", 0, "callgraph"))
    rep.add(Query("witness: some path relays", "witness-hit" if n_relay else "witness-missed", "%d relay paths" % n_relay, 0, "mirsym"))
    for cname, getter, status in REFUSALS:
        hit = any(getter(p) is not None and p.implied(getter(p)) and p.response() == ("status", status) for p in hm.paths)
        rep.add(Query("witness: refusal path for cause %s with %s" % (cname, status), "witness-hit" if hit else "witness-missed", "", 0, "mirsym+z3"))


def _is_uri_of(p, v):
    o = origin(v)
    if isinstance(o, Sym) and o.tag[0] == "ret" and o.tag[1].endswith("Request::uri"):
        for e in p.events:
            if e.ret is o:
                return same_origin(e.rargs[0], p.request)
    return False


def check_rules_selection(rep, ctx):
    """get_access_control_rules: the rule slot of the same endpoint is read."""
    w = ctx.one("proxy_authorizer::get_access_control_rules")
    body = w + "::{closure#0}"
    cap = {}
    e0 = ctx.engine(); e0._reset([])
    wb = ctx.idx.body(w)
    co = e0.run_body(wb, [Sym(("arg", i + 1)) for i in range(wb.nargs)], 0)
    cap = {n: i for i, n in enumerate(co.names)}
    eng = ctx.engine()
    paths = eng.explore(body)
    rep.functions_encoded.append(body)
    expected = {("168.63.129.16", 80): "get_wireserver_rules", ("168.63.129.16", 32526): "get_hostga_rules", ("169.254.169.254", 80): "get_imds_rules"}
    for (ip, port), getter in expected.items():
        for i, r in enumerate(paths):
            a = r.args[0]
            ipz = a.child(("f", cap["ip"])).string()
            pz = a.child(("f", cap["port"])).scalar("u16")
            used = [e.callee.split("::")[-1] for e in r.events if e.kind == "await" and re.search(r"get_\w+_rules$", e.callee)]
            bad = add_query(rep, "rules slot path %d: (%s,%d) reads only %s" % (i, ip, port, getter),
                            r.pc + [ipz == z3.StringVal(ip), pz == port, z3.BoolVal(used != [getter])], key="C01.rules-slot:" + getter)
            if bad:
                rep.add(Query("rules slot path %d: (%s,%d) reads only %s" % (i, ip, port, getter), "violated", "reads %s" % used, bad[1], "mirsym+z3",
                              key="C01.rules-slot:" + getter, model=bad[0], reproduced=None))
    # any other destination: no rules (Ok(None)), no getter
    for i, r in enumerate(paths):
        a = r.args[0]
        ipz = a.child(("f", cap["ip"])).string()
        pz = a.child(("f", cap["port"])).scalar("u16")
        other = z3.And([z3.Not(z3.And(ipz == z3.StringVal(ip), pz == port)) for (ip, port) in expected])
        used = [e.callee for e in r.events if e.kind == "await" and re.search(r"get_\w+_rules$", e.callee)]
        bad = add_query(rep, "rules slot path %d: other destinations read no slot" % i, r.pc + [other, z3.BoolVal(bool(used))], key="C01.rules-slot:other")
        if bad:
            rep.add(Query("rules slot path %d: other destinations read no slot" % i, "violated", "reads %s" % used, bad[1], "mirsym+z3", key="C01.rules-slot:other", model=bad[0], reproduced=None))


def check_traversal_predicate(rep, ctx):
    """HttpConnectionContext::contains_traversal_characters is `the url path contains ".."` (the handler model keeps it uninterpreted)"""
    try:
        p = ctx.method("HttpConnectionContext", "contains_traversal_characters")
    except Inconclusive:
        return
    eng = ctx.engine()
    paths = eng.explore(p)
    rep.functions_encoded.append(p)
    ok = False
    detail = "%d paths" % len(paths)
    if len(paths) == 1 and paths[0].status == "return":
        r = paths[0]
        me = origin(r.args[0])
        up = [e for e in r.events if e.kind == "call" and e.callee.endswith("Uri::path") and is_part_of(origin(e.rargs[0]), me)]
        ct = [e for e in r.events if e.kind == "call" and re.search(r"str::contains$|str>::contains$", e.callee) and up and same_origin(e.rargs[0], up[0].ret)
              and isinstance(origin(e.rargs[1]), StrV) and origin(e.rargs[1]).e.as_string() == ".."]
        fd = [e for e in r.events if e.kind == "call" and re.search(r"str::find$", e.callee) and up and same_origin(e.rargs[0], up[0].ret)
              and isinstance(origin(e.rargs[1]), StrV) and origin(e.rargs[1]).e.as_string() == ".."]
        if ct and same_origin(r.ret, ct[0].ret):
            ok = True
        elif fd and any(e.kind == "call" and e.callee.endswith("Option::is_some") and same_origin(e.rargs[0], fd[0].ret) and same_origin(r.ret, e.ret) for e in r.events):
            ok = True
        else:
            detail = "UNKNOWN-SHAPE result %r; calls %s" % (r.ret, [e.callee.split("::")[-1] for e in r.events if e.kind == "call"])
    else:
        detail = "UNKNOWN-SHAPE %d paths" % len(paths)
    rep.add(Query("contains_traversal_characters() is true exactly when the request url's path contains \"..\"", "holds" if ok else "violated", detail, 0, "mirsym", key="C01.traversal-predicate", reproduced=None))


def check_empty_response(rep, ctx, prefix="C01"):
    """the refusals are `empty_response(status)`: the helper the handler's paths leave uninterpreted returns a response carrying exactly
    the status it was given, on every path"""
    try:
        w = ctx.method("ProxyServer", "empty_response")
    except Exception as e:
        rep.add(Query("empty_response located", "inconclusive", str(e), 0, "mirsym", key=prefix + ".empty-response"))
        return
    eng = ctx.engine()
    paths = eng.explore(w)
    rep.functions_encoded.append(w)
    for i, r in enumerate(paths):
        new = [e for e in r.events if e.kind == "call" and e.callee.endswith("Response::new")]
        sm = [e for e in r.events if e.kind == "call" and e.callee.endswith("status_mut")]
        st = [e for e in r.events if e.kind == "store" and e.callee.endswith("status_mut")]
        builder = [e for e in r.events if e.kind == "call" and re.search(r"Builder::status$", e.callee)]
        ok = r.status == "return" and len(new) == 1 and same_origin(r.ret, new[0].ret) and len(sm) == 1 and same_origin(sm[0].rargs[0], new[0].ret) and \
            len(st) == 1 and st[0].rargs[0] is sm[0].ret and same_origin(st[0].rargs[1], r.args[0])
        if not ok and builder:
            ok = r.status == "return" and len(builder) == 1 and same_origin(builder[0].rargs[1], r.args[0]) and derives_chain(r, builder[0])
        rep.add(Query("empty_response path %d: the response returned carries the status it was given (one write of the argument through status_mut)" % i,
                      "holds" if ok else "violated", "status %s, status_mut calls %d, stores %d" % (r.status, len(sm), len(st)), 0, "mirsym", key=prefix + ".empty-response", reproduced=None))
    rep.add(Query("witness: empty_response explored", "witness-hit" if paths else "witness-missed", "%d paths" % len(paths), 0, "mirsym"))


def derives_chain(r, builder_ev):
    """Response::builder().status(s).body(..).unwrap(): the returned value comes from that builder"""
    from p_c08 import derives
    return derives(r.ret, builder_ev.ret, r.events) or any(e.kind == "call" and e.callee.endswith("Builder::body") and derives(e.rargs[0], builder_ev.ret, r.events) and derives(r.ret, e.ret, r.events) for e in r.events)


def check(rep, tier, seed):
    ctx = Ctx("agent")
    rep.extra["mir_dump"] = {"cache_hit": ctx.dump.cache_hit, "tree_hash": ctx.dump.hash, "seconds": round(ctx.dump.seconds, 1)}
    hm = HandlerModel(ctx, rep)
    rep.bounds["handler"] = "%d complete paths; loop bound 2 (the handler has no loops besides await polling); inline depth <= 3; every .await assumed to complete (Pending pruned)" % len(hm.paths)
    check_mediation(rep, hm)
    check_empty_response(rep, ctx)
    check_rules_selection(rep, ctx)
    check_traversal_predicate(rep, ctx)
    # the built-in authorizers the handler delegates to are part of "authorized": their obligations (non-elevated callers of
    # WireServer/HostGAPlugin and requests to the proxy's own listener are Forbidden on EVERY path of authorize(), also on paths
    # that decide without consulting the destination's authorizer) are discharged here as well (same queries as C03)
    import p_c03
    p_c03.check_authorize(rep, ctx)
    # "a request is relayed only if ... attributed": what authorize() is given is the context's destination and claims, and the context is
    # bound to the kernel's record by TcpConnectionContext::new - its obligations (destination address and host-order port, claims, upstream
    # connection all from the one record; C07) are discharged here as well, a wrong binding being a wrong authorization
    import p_c07
    p_c07.check(rep, tier, seed)
    rep.stubs += ["every callee not inlined is uninterpreted: arbitrary result of its type, one trace event (list in coverage.uninterpreted_callees)"]
    rep.assumptions += ["Future::poll returns Ready (progress); Pending branches are not explored",
                        "nightly built-phase MIR = semantics of the stable build"]
    rep.outside_claim += ["bytes on the wire (hyper)", "correctness of the kernel record (C06)", "the rule decision itself (C02) and the authorizers (C03)",
                          "TcpConnectionContext::new (checked under C07)"]
    rep.trusted += ["z3", "mirsym"]

    import e2e
    e2e.confirm(rep, "C01")
    # a predicate shape the check does not know is a violation only if the end-to-end witnesses confirm it; otherwise undecided
    for q in rep.queries:
        if q.status == "violated" and "UNKNOWN-SHAPE" in (q.detail or "") and not q.reproduced:
            q.status = "inconclusive"


def replay(path):
    print(open(path).read())
    return 0
