"""Shared plumbing for the /verif checks: scratch copies of /repo, evidence files, known findings,
exit-code policy.

Exit codes (DESIGN.md section 3):
  0  every query discharged, every reachability witness hit (KNOWN-FINDING lines allowed)
  1  a solver counterexample that replayed natively and is not a listed known finding
  2  inconclusive (time-out, solver error, extractor did not recognise the code, non-reproducing cex)
"""
import json, os, shutil, subprocess, sys, tempfile, time, hashlib, fcntl

VERIF = os.path.dirname(os.path.dirname(os.path.abspath(__file__)))
REPO = os.environ.get("VERIF_REPO", "/repo")
CACHE = os.environ.get("VERIF_CACHE", "/var/tmp/gpa-verif-cache")
EVIDENCE_DIR = os.path.join(VERIF, "evidence")
REPLAY_DIR = os.path.join(VERIF, "replays")
KNOWN_FINDINGS = os.path.join(VERIF, "known_findings.json")

ENV = dict(os.environ)
ENV.update({"CARGO_NET_OFFLINE": "true", "GOPROXY": "off", "PIP_NO_INDEX": "1"})


def log(*a):
    print(*a, file=sys.stderr, flush=True)


def run(cmd, cwd=None, timeout=None, env=None, input=None):
    """Run a command, return (rc, stdout, stderr, seconds). rc = -9 on timeout."""
    t0 = time.time()
    try:
        p = subprocess.run(cmd, cwd=cwd, env=env or ENV, input=input, capture_output=True, text=True,
                           timeout=timeout)
        return p.returncode, p.stdout, p.stderr, time.time() - t0
    except subprocess.TimeoutExpired as e:
        out = e.stdout.decode() if isinstance(e.stdout, bytes) else (e.stdout or "")
        err = e.stderr.decode() if isinstance(e.stderr, bytes) else (e.stderr or "")
        return -9, out, err, time.time() - t0


class Scratch:
    """A copy of /repo's working tree (no target/, no .git) outside /repo and /verif; removed on exit."""

    def __init__(self, tag):
        self.dir = tempfile.mkdtemp(prefix="gpa-verif-%s-" % tag)
        self.repo = os.path.join(self.dir, "repo")

    def __enter__(self):
        rc, out, err, _ = run(["rsync", "-a", "--exclude", "/target", "--exclude", ".git", REPO + "/", self.repo + "/"])
        if rc != 0:
            raise RuntimeError("rsync failed: " + err)
        return self

    def __exit__(self, *a):
        shutil.rmtree(self.dir, ignore_errors=True)


def tree_hash(paths):
    """Content hash of the given files/directories under REPO (sorted walk)."""
    h = hashlib.sha256()
    for p in paths:
        full = os.path.join(REPO, p)
        if os.path.isfile(full):
            files = [full]
        else:
            files = []
            for root, dirs, fs in os.walk(full):
                dirs[:] = sorted(d for d in dirs if d not in ("target", ".git"))
                for f in sorted(fs):
                    files.append(os.path.join(root, f))
        for f in files:
            h.update(os.path.relpath(f, REPO).encode())
            with open(f, "rb") as fh:
                h.update(fh.read())
    return h.hexdigest()[:20]


class Lock:
    def __init__(self, name):
        os.makedirs(CACHE, exist_ok=True)
        self.path = os.path.join(CACHE, name + ".lock")

    def __enter__(self):
        self.f = open(self.path, "w")
        fcntl.flock(self.f, fcntl.LOCK_EX)
        return self

    def __exit__(self, *a):
        fcntl.flock(self.f, fcntl.LOCK_UN)
        self.f.close()


def load_known_findings():
    if not os.path.exists(KNOWN_FINDINGS):
        return {"findings": [], "fixed": []}
    return json.load(open(KNOWN_FINDINGS))


class Query:
    """One solver obligation."""

    def __init__(self, name, status, detail="", seconds=0.0, engine="", nontrivial=True, key=None, model=None,
                 replay=None, reproduced=None):
        self.name = name          # human-readable obligation
        self.status = status      # 'holds' | 'violated' | 'inconclusive' | 'witness-hit' | 'witness-missed'
        self.detail = detail
        self.seconds = seconds
        self.engine = engine
        self.nontrivial = nontrivial
        self.key = key or name    # stable key used to match known findings
        self.model = model        # counterexample values
        self.replay = replay      # path of the replay artefact
        self.reproduced = reproduced

    def to_json(self):
        d = {"obligation": self.name, "status": self.status, "engine": self.engine, "seconds": round(self.seconds, 3)}
        if self.detail:
            d["detail"] = self.detail
        if self.model is not None:
            d["counterexample"] = self.model
        if self.replay:
            d["replay"] = self.replay
        if self.reproduced is not None:
            d["reproduced_natively"] = self.reproduced
        return d


class Report:
    def __init__(self, pid, tier, seed):
        self.pid = pid
        self.tier = tier
        self.seed = seed
        self.t0 = time.time()
        self.queries = []
        self.functions_encoded = []
        self.bounds = {}
        self.stubs = []
        self.assumptions = []
        self.outside_claim = []
        self.trusted = []
        self.notes = []
        self.extra = {}
        self.solver_time = 0.0
        self.traces_validated = 0

    def add(self, q):
        self.queries.append(q)
        self.solver_time += q.seconds
        return q

    # ------------------------------------------------------------------
    def finish(self):
        """Write the evidence file, print VIOLATION / KNOWN-FINDING lines, return the exit code."""
        kf = load_known_findings()
        known = [f for f in kf.get("findings", []) if f.get("property") == self.pid]
        violations, known_hits, inconclusive = [], [], []
        for q in self.queries:
            if q.status == "violated":
                if q.reproduced is False:
                    inconclusive.append(q)
                    continue
                hit = None
                for f in known:
                    if f.get("key") == q.key:
                        hit = f
                if hit:
                    known_hits.append((q, hit))
                else:
                    violations.append(q)
            elif q.status in ("inconclusive", "witness-missed"):
                inconclusive.append(q)
        holds = [q for q in self.queries if q.status in ("holds", "witness-hit")]
        discharged = [q for q in self.queries if q.status in ("holds", "witness-hit", "violated")]
        samples = [q.to_json() for q in self.queries[:40]]
        cov = {
            "evaluations": len(discharged),
            "distinct_nontrivial": len({q.name for q in discharged if q.nontrivial}),
            "rule": "one evaluation = one solver query (SAT/SMT verdict over all values of the symbolic inputs within the "
                    "stated bounds); non-trivial = the formula was not decided by constant folding and its reachability "
                    "witness was hit; distinct = distinct obligation names",
            "samples": samples,
            "states": max(1, int(self.extra.get("states", len(discharged)))),
            "transitions": max(1, int(self.extra.get("transitions", len(discharged)))),
            "traces_validated_against_impl": self.traces_validated,
            "queries_total": len(self.queries),
            "queries_holds": len(holds),
            "queries_violated": len(violations) + len(known_hits),
            "queries_inconclusive": len(inconclusive),
            "functions_encoded": self.functions_encoded,
            "bounds": self.bounds,
            "stubs": self.stubs,
            "outside_claim": self.outside_claim,
            "trusted_base": self.trusted,
            "solver_time_s": round(self.solver_time, 3),
            "known_findings_matched": [h.get("key") for _, h in known_hits],
            "notes": self.notes,
            "exhaustive": False,
        }
        for k, v in self.extra.items():
            if k not in cov:
                cov[k] = v
        ev = {
            "property_id": self.pid,
            "tier": self.tier,
            "seed": self.seed,
            "level": "model_checking",
            "coverage": cov,
            "assumptions": self.assumptions,
            "wall_s": round(time.time() - self.t0, 3),
            "violations": len(violations),
        }
        os.makedirs(EVIDENCE_DIR, exist_ok=True)
        tmp = os.path.join(EVIDENCE_DIR, self.pid + ".json.tmp")
        with open(tmp, "w") as f:
            json.dump(ev, f, indent=1)
        os.replace(tmp, os.path.join(EVIDENCE_DIR, self.pid + ".json"))

        for q, f in known_hits:
            print("KNOWN-FINDING: property=%s %s" % (self.pid, f.get("what", q.name)), flush=True)
        for q in violations:
            print("VIOLATION property=%s replay=%s" % (self.pid, q.replay or "-"), flush=True)
            log("  violated: %s :: %s" % (q.name, q.detail))
        for q in inconclusive:
            log("INCONCLUSIVE property=%s %s :: %s" % (self.pid, q.name, q.detail))
        log("[%s/%s] %d queries: %d hold, %d violated (%d known), %d inconclusive; solver %.1fs wall %.1fs" % (
            self.pid, self.tier, len(self.queries), len(holds), len(violations) + len(known_hits), len(known_hits),
            len(inconclusive), self.solver_time, time.time() - self.t0))
        if violations:
            return 1
        if inconclusive:
            return 2
        if len(discharged) < 2:
            log("INCONCLUSIVE property=%s fewer than two obligations discharged" % self.pid)
            return 2
        return 0


def save_replay(pid, name, content):
    os.makedirs(os.path.join(REPLAY_DIR, pid), exist_ok=True)
    path = os.path.join(REPLAY_DIR, pid, name)
    with open(path, "w") as f:
        f.write(content)
    return path
