"""C03: WireServer/HostGAPlugin are root-only under every policy; no self-proxying.
Engine M: symbolic execution of proxy_authorizer::authorize with get_authorizer and the five Authorizer impls
inlined (dyn call resolved from the unsizing cast); ComputedAuthorizationItem::is_allowed is left uninterpreted,
i.e. the rules may decide ANYTHING, which covers every rule set / mode / default access."""
from mcommon import *

WS = "168.63.129.16"


def authorize_paths(ctx, rep):
    eng = ctx.engine(inline=[
        (r"^get_authorizer$", ctx.one("proxy_authorizer::get_authorizer")),
        (r"^<dyn Authorizer as Authorizer>::authorize$", dyn_dispatch(ctx.src, "Authorizer", "authorize")),
    ])
    path = ctx.one("proxy_authorizer::authorize")
    body = ctx.idx.body(path)
    if body.nargs != 6:
        raise Inconclusive("authorize() no longer has 6 parameters")
    holder = {}

    def mkargs(engine):
        a = [Sym(("arg", i + 1), body.arg_types.get(i + 1)) for i in range(body.nargs)]
        holder["args"] = a
        return a
    res = []
    # explore keeps per-path args: capture through a wrapper
    results = []
    orig_explore_args = mkargs
    paths = eng.explore(path, args=mkargs)
    rep.functions_encoded += [path] + sorted(eng.inlined)
    rep.stubs += ["uninterpreted (any result): " + ", ".join(sorted(eng.uninterpreted))]
    return eng, paths


def path_inputs(ctx, r):
    """z3 handles of the inputs of authorize() on path r (arguments are rebuilt per path with stable meaning)."""
    # authorize(ip, port, logger, request_uri, claims, rules): the inputs are its own arguments, whether or not a path goes on to
    # get_authorizer (a path that decides without consulting the destination's authorizer is exactly what must be examined)
    ip, port, claims = r.args[0], r.args[1], r.args[4]
    ipz = origin(ip).string() if isinstance(origin(ip), Sym) else None
    portz = origin(port).scalar("u16")
    elev = origin(claims).child(("f", ctx.field("Claims", "runAsElevated")), "bool").scalar("bool")
    return ipz, portz, elev


def url_path_of(r, zm):
    """the request path the model chose (value of Uri::path(request_uri) on this path), if the path reads it"""
    for e in r.events:
        if e.kind == "call" and e.callee.endswith("Uri::path") and e.rargs and (same_origin(e.rargs[0], r.args[3]) or is_part_of(origin(e.rargs[0]), origin(r.args[3]))):
            try:
                v = zm.eval(e.ret.string(), model_completion=True)
                return v.as_string()
            except Exception:
                return None
    return None


def caller_ids(ctx, r, zm):
    """user id / process id of the caller in a counterexample model (a decision may hang on them), if the path reads them"""
    out = {}
    cl = origin(r.args[4])
    for nm, ty, key in (("userId", "u64", "user_id"), ("processId", "u32", "process_id")):
        try:
            f = cl.child(("f", ctx.field("Claims", nm)), ty)
            v = zm.eval(f.scalar(ty), model_completion=False)
            if z3.is_bv_value(v):
                out[key] = v.as_long()
        except Exception:
            pass
    return out


def concretize(ctx, r, zm):
    """Concrete (rules present?, rule decision, mode) of a counterexample model on path r."""
    ent = [e for e in r.events if e.kind == "enter" and e.callee.endswith("::authorize") and len(e.args) == 4]
    present, allowed, mode = False, True, "enforce"
    if ent or len(r.args) > 5:
        rules = origin(ent[0].args[3]) if ent else origin(r.args[5])
        if isinstance(rules, Sym):
            present = zm.eval(rules.discr(), model_completion=True).as_long() == 1
            some = rules.child(("v", "Some", 0))
            md = some.child(("f", ctx.field("ComputedAuthorizationItem", "mode")))
            mi = zm.eval(md.discr(), model_completion=True).as_long()
            names = [x.lower() for x in ctx.enums["AuthorizationMode"]]
            mode = names[mi] if 0 <= mi < len(names) else "enforce"
    ia = [e for e in r.events if e.kind == "call" and e.callee.endswith("is_allowed")]
    if ia:
        allowed = z3.is_true(zm.eval(ia[0].ret.scalar("bool"), model_completion=True))
    return present, allowed, mode


def confirm(rep, qname, key, cases, models, dts, paths_desc):
    """Replay the counterexamples natively; add violated / inconclusive queries accordingly."""
    import replay
    code = replay.AUTHORIZE_TEST % {"tests": "".join(c[1] for c in cases)}
    res, out = replay.run_rust_tests("azure-proxy-agent", [("proxy_agent/src/proxy/proxy_authorizer.rs", code)], "verif_replay_authorize")
    path = save_replay("C03", "authorize_replay.rs", "// append to proxy_agent/src/proxy/proxy_authorizer.rs and run: cargo test -p azure-proxy-agent verif_replay_authorize\n" + code)
    for (tname, _code, label), model, dt in zip(cases, models, dts):
        st = (res or {}).get(tname)
        if st == "FAILED":
            rep.traces_validated += 1
            rep.add(Query(label, "violated", "counterexample reproduced by generated test %s; model %s" % (tname, model), dt, "mirsym+z3", key=key(label), model=model, replay=path, reproduced=True))
        elif st == "ok":
            rep.add(Query(label, "violated", "counterexample did NOT reproduce natively (test %s passed): encoding admits an answer the real callee cannot give" % tname, dt, "mirsym+z3", key=key(label), model=model, replay=path, reproduced=False))
        else:
            rep.add(Query(label, "inconclusive", "replay test did not run: %s" % (out[-400:] if out else ""), dt, "mirsym+z3", key=key(label), model=model, replay=path))


def ret_discr(ctx, r):
    v = r.ret
    if isinstance(v, Agg) and v.name == "AuthorizeResult" and v.vindex is not None:
        return v.vindex
    raise Inconclusive("authorize() returned %r on some path" % (v,))


def check_handler_enforces(rep, ctx):
    """'never relayed': the handler acts on authorize()'s Forbidden on every one of its paths (any method, URL, headers)"""
    from handler_model import HandlerModel
    hm = HandlerModel(ctx, rep)
    n_relay = n_forb = 0
    for p in hm.paths:
        if p.r.status != "return":
            continue
        var = p.var_forbidden()
        if p.relays:
            n_relay += 1
            qn = "handler path %d relays => authorize() was consulted and did not return Forbidden" % p.i
            if var is None:
                rep.add(Query(qn, "violated", "the relay path never evaluates authorize()'s result", 0, "mirsym", key="C03.handler:forbidden-enforced", reproduced=None))
                continue
            bad = add_query(rep, qn, p.pc + [var], key="C03.handler:forbidden-enforced")
            if bad:
                rep.add(Query(qn, "violated", "relay reachable although authorize() returned Forbidden; path %s" % (p.describe() if hasattr(p, "describe") else p.i,), bad[1], "mirsym+z3",
                              key="C03.handler:forbidden-enforced", model=bad[0], reproduced=None))
        elif var is not None and p.implied(var):
            n_forb += 1
            resp = p.response()
            rep.add(Query("handler path %d: Forbidden => 403, nothing relayed" % p.i, "holds" if resp == ("status", "FORBIDDEN") else "violated", "response %r" % (resp,), 0, "mirsym+z3",
                          key="C03.handler:forbidden-status", reproduced=None))
    rep.add(Query("witness: handler has relay paths and Forbidden refusals", "witness-hit" if n_relay and n_forb else "witness-missed", "%d/%d" % (n_relay, n_forb), 0, "mirsym"))
    rep.bounds["handler"] = "%d complete handler paths; every .await assumed to complete" % len(hm.paths)


def check(rep, tier, seed):
    ctx = Ctx("agent")
    rep.extra["mir_dump"] = {"cache_hit": ctx.dump.cache_hit, "tree_hash": ctx.dump.hash, "seconds": round(ctx.dump.seconds, 1)}
    check_handler_enforces(rep, ctx)
    # "a caller that is not running elevated": what the elevation bit of the claims means - the record's is_admin word is exactly 1
    import p_c07
    p_c07.check_claims_unit(rep, ctx)
    import p_c01
    p_c01.check_empty_response(rep, ctx, "C03")
    check_authorize(rep, ctx)


def check_authorize(rep, ctx):
    eng, paths = authorize_paths(ctx, rep)
    FORB = ctx.enums["AuthorizeResult"].index("Forbidden")
    OK = ctx.enums["AuthorizeResult"].index("Ok")
    rep.bounds["authorize"] = "loop-free; %d complete paths, inline depth <= 2" % len(paths)
    rep.extra["states"] = eng.stats["blocks"]
    rep.extra["transitions"] = eng.stats["blocks"] + eng.solver_calls
    if any(p.status != "return" for p in paths):
        rep.add(Query("authorize(): every path returns", "inconclusive", str([p.status + ":" + p.note for p in paths if p.status != "return"][:3]), 0, "mirsym"))
        return
    witness_elev_ok = []
    cases, models, dts = [], [], []
    import replay
    for i, r in enumerate(paths):
        ipz, portz, elev = path_inputs(ctx, r)
        d = ret_discr(ctx, r)
        notforb = z3.BoolVal(d != FORB)
        for (label, ipc, port) in (("WireServer", WS, 80), ("HostGAPlugin", WS, 32526)):
            prem = z3.And(ipz == z3.StringVal(ipc), portz == port, z3.Not(elev))
            qn = "path %d: non-elevated caller to %s => Forbidden" % (i, label)
            bad = add_query(rep, qn, r.pc + [prem, notforb], key="C03.root-only:" + label, detail=str(describe_path(r)["calls"]))
            if bad:
                present, allowed, mode = concretize(ctx, r, bad[2])
                tn = "c03_path%d_%s" % (i, label.lower())
                cases.append((tn, replay.authorize_case(tn, ipc, port, False, present, allowed, mode, "r == AuthorizeResult::Forbidden",
                                                        "non-elevated caller to %s must be Forbidden" % label, url_path=url_path_of(r, bad[2]), **caller_ids(ctx, r, bad[2])), qn))
                models.append(bad[0]); dts.append(bad[1])
        prem = z3.And(ipz == z3.StringVal("127.0.0.1"), portz == 3080)
        qn = "path %d: destination = proxy listener => Forbidden (any caller)" % i
        bad = add_query(rep, qn, r.pc + [prem, notforb], key="C03.self-proxy")
        if bad:
            present, allowed, mode = concretize(ctx, r, bad[2])
            el = z3.is_true(bad[2].eval(elev, model_completion=True))
            tn = "c03_path%d_self" % i
            cases.append((tn, replay.authorize_case(tn, "127.0.0.1", 3080, el, present, allowed, mode, "r == AuthorizeResult::Forbidden",
                                                    "a request whose destination is the proxy listener must be Forbidden", url_path=url_path_of(r, bad[2]), **caller_ids(ctx, r, bad[2])), qn))
            models.append(bad[0]); dts.append(bad[1])
        if d == OK:
            witness_elev_ok.append(z3.And(r.pc + [ipz == z3.StringVal(WS), portz == 80, elev]))
    if cases:
        confirm(rep, None, lambda label: "C03.self-proxy" if "listener" in label else "C03.root-only:" + label.split(" to ")[1].split(" ")[0], cases, models, dts, None)
    # reachability witnesses: the premises are satisfiable and an elevated caller can be allowed
    add_query(rep, "witness: an elevated caller to WireServer can obtain Ok", [z3.Or(witness_elev_ok)] if witness_elev_ok else [z3.BoolVal(False)], expect="sat")
    forb_ws = [z3.And(r.pc + [path_inputs(ctx, r)[0] == z3.StringVal(WS), path_inputs(ctx, r)[1] == 80, z3.Not(path_inputs(ctx, r)[2])])
               for r in paths if ret_discr(ctx, r) == FORB]
    add_query(rep, "witness: a non-elevated WireServer request reaches a Forbidden return", [z3.Or(forb_ws)] if forb_ws else [z3.BoolVal(False)], expect="sat")
    # the constants the four authorizers are keyed on
    consts = {}
    for name in ("WIRE_SERVER_IP", "WIRE_SERVER_PORT", "GA_PLUGIN_IP", "GA_PLUGIN_PORT", "PROXY_AGENT_IP", "PROXY_AGENT_PORT", "IMDS_IP", "IMDS_PORT"):
        e2 = ctx.engine()
        e2._reset([])
        v = e2.eval_const("common::constants::" + name)
        consts[name] = str(v.e) if hasattr(v, "e") else repr(v)
    exp = {"WIRE_SERVER_IP": '"168.63.129.16"', "WIRE_SERVER_PORT": "80", "GA_PLUGIN_IP": '"168.63.129.16"', "GA_PLUGIN_PORT": "32526",
           "PROXY_AGENT_IP": '"127.0.0.1"', "PROXY_AGENT_PORT": "3080", "IMDS_IP": '"169.254.169.254"', "IMDS_PORT": "80"}
    for k, v in exp.items():
        rep.add(Query("constant %s = %s" % (k, v), "holds" if consts.get(k) == v else "violated", "dumped value %s" % consts.get(k), 0, "mirsym",
                      key="C03.const:" + k, reproduced=True if consts.get(k) != v else None, nontrivial=False))
    rep.assumptions += ["rustc nightly MIR (built phase) is the semantics of the stable build",
                        "is_allowed / logger / to_string are uninterpreted: any return value, no effect on the decision other than through it"]
    rep.outside_claim += ["correctness of the kernel's elevation bit (C06)"]
    rep.trusted += ["z3 4.8.12 (sequence theory for the ip string)", "mirsym MIR semantics (lib/mirsym.py)"]

    import e2e
    e2e.confirm(rep, "C03")


def replay(path):
    print(open(path).read())
    return 0
