// append to proxy_agent/src/proxy/proxy_summary.rs; run the whole azure-proxy-agent test binary

#[cfg(test)]
mod verif_replay_c11_key {
    use super::*;
    fn summary(user: &str, path: &str, cmd: &str) -> ProxySummary {
        ProxySummary { id: 1, method: "GET".to_string(), url: "/x".to_string(), clientIp: "127.0.0.1".to_string(), clientPort: 1, ip: "169.254.169.254".to_string(), port: 80, userId: 1000,
            userName: user.to_string(), userGroups: vec![], processFullPath: PathBuf::from(path), processCmdLine: cmd.to_string(), runAsElevated: false, responseStatus: "403".to_string(),
            elapsedTime: 0, errorDetails: String::new() }
    }
    #[test]
    fn c11_different_callers_have_different_summary_keys() {
        let (a, b) = (summary("ab//", "ba", "c bb"), summary("ab//", "ba c", "bb"));
        assert_ne!(a.to_key_string(), b.to_key_string(), "two different callers share one failed-authorization entry (their denials are counted under the first one)");
    }
}
