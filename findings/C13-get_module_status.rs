// append to proxy_agent/src/shared_state/agent_status_wrapper.rs

#[cfg(test)]
mod verif_replay_c13_status {
    use super::*;
    #[tokio::test(flavor = "current_thread")]
    async fn c13_get_module_status_long_multibyte_message() {
        let st = AgentStatusSharedState::start_new();
        let message: String = "a".repeat(1023) + "\u{e9}" + &"b".repeat(16);
        st.set_module_status_message(message, AgentStatusModule::KeyKeeper).await.unwrap();
        let _ = st.get_module_status(AgentStatusModule::KeyKeeper).await;
    }
}
