#!/usr/bin/env python3
"""rewrite the query counts of DESIGN.md's summary table from evidence/*.json (run after tools/run_all.sh on the unchanged tree)"""
import json, re, os
root = os.path.dirname(os.path.dirname(os.path.abspath(__file__)))
p = os.path.join(root, "DESIGN.md")
s = open(p).read()
for i in range(1, 21):
    pid = "C%02d" % i
    n = json.load(open(os.path.join(root, "evidence", pid + ".json")))["coverage"].get("evaluations")
    m = re.search(r"^\| %s \|([^|]*)\|([^|]*)\|([^|]*)\|$" % pid, s, re.M)
    if not m:
        continue
    last = re.sub(r"\((\d+)( queries| harnesses)?([;)])", lambda mm: "(%d%s%s" % (n, mm.group(2) or "", mm.group(3)), m.group(3), count=1)
    s = s.replace(m.group(0), "| %s |%s|%s|%s|" % (pid, m.group(1), m.group(2), last), 1)
open(p, "w").write(s)
