"""C11 enforce / audit / disabled and record-once (engine M). See DESIGN.md 4/C11."""
from mcommon import *
from handler_model import *
from p_c01 import violated
import p_c03


def check_authorizer_modes(rep, ctx):
    eng, paths = p_c03.authorize_paths(ctx, rep)
    AR = ctx.enums["AuthorizeResult"]
    AM = ctx.enums["AuthorizationMode"]
    mode_idx = ctx.field("ComputedAuthorizationItem", "mode")
    endpoints = {"WireServer": ("168.63.129.16", 80), "HostGAPlugin": ("168.63.129.16", 32526), "IMDS": ("169.254.169.254", 80)}
    for i, r in enumerate(paths):
        ipz, portz, elev = p_c03.path_inputs(ctx, r)
        d = p_c03.ret_discr(ctx, r)
        ent = [e for e in r.events if e.kind == "enter" and e.callee.endswith("::authorize") and len(e.args) == 4]
        if not ent:
            continue
        rules = origin(ent[0].args[3])
        if not isinstance(rules, Sym):
            continue
        present = rules.discr() == 1
        mode = rules.child(("v", "Some", 0)).child(("f", mode_idx)).discr()
        ia = [e for e in r.events if e.kind == "call" and e.callee.endswith("is_allowed")]
        allowed = ia[0].ret.scalar("bool") if ia else None
        for ep, (ip, port) in endpoints.items():
            here = [ipz == z3.StringVal(ip), portz == port, elev]
            cases = [
                ("rules deny, mode Enforce => Forbidden", [present, mode == AM.index("Enforce")] + ([z3.Not(allowed)] if allowed is not None else [z3.BoolVal(False)]), AR.index("Forbidden")),
                ("rules deny, mode Audit => OkWithAudit", [present, mode == AM.index("Audit")] + ([z3.Not(allowed)] if allowed is not None else [z3.BoolVal(False)]), AR.index("OkWithAudit")),
                ("rules allow => Ok", [present] + ([allowed] if allowed is not None else [z3.BoolVal(False)]), AR.index("Ok")),
                ("no rules => Ok", [z3.Not(present)], AR.index("Ok")),
            ]
            for cname, prem, want in cases:
                qn = "authorize path %d, %s (elevated caller): %s" % (i, ep, cname)
                bad = add_query(rep, qn, r.pc + here + prem + [z3.BoolVal(d != want)], key="C11.mode:%s:%s" % (ep, cname))
                if bad:
                    rep.add(Query(qn, "violated", "returns %s; model %s" % (AR[d], bad[0]), bad[1], "mirsym+z3", key="C11.mode:%s:%s" % (ep, cname), model=bad[0], reproduced=None,
                                  replay=save_replay("C11", "authorize_path%d_%s.json" % (i, ep), json.dumps({"model": bad[0], "returns": AR[d], "case": cname}, indent=1))))
            # a present rule set must be consulted (is_allowed called) before the decision
            qn = "authorize path %d, %s: present rules are consulted" % (i, ep)
            bad = add_query(rep, qn, r.pc + here + [present, z3.BoolVal(allowed is None)], key="C11.consulted:" + ep)
            if bad:
                rep.add(Query(qn, "violated", "a path decides without calling is_allowed", bad[1], "mirsym+z3", key="C11.consulted:" + ep, model=bad[0], reproduced=None))
    # witnesses
    for want in ("OkWithAudit", "Forbidden", "Ok"):
        hit = any(p_c03.ret_discr(ctx, r) == AR.index(want) and [e for e in r.events if e.callee.endswith("is_allowed")] for r in paths)
        rep.add(Query("witness: a rules-consulting path returns %s" % want, "witness-hit" if hit else "witness-missed", "", 0, "mirsym"))


def check_is_allowed_disabled(rep, ctx):
    path = ctx.method("ComputedAuthorizationItem", "is_allowed")
    eng = ctx.engine(loop_bound=2)
    paths = eng.explore(path)
    rep.functions_encoded.append(path)
    AM = ctx.enums["AuthorizationMode"]
    mode_idx = ctx.field("ComputedAuthorizationItem", "mode")
    n = 0
    for i, r in enumerate(paths):
        me = r.args[0]
        mode = eng_child_through_ref(me, mode_idx).discr()
        dis = mode == AM.index("Disabled")
        consulted = [e.callee for e in r.events if e.kind == "call" and re.search(r"(is_match|HashMap.*::(values|get|iter)|::next)$", e.callee)]
        retv = r.ret
        ret_true = isinstance(retv, Scalar) and z3.is_true(z3.simplify(retv.e))
        qn = "is_allowed path %d: mode Disabled => true without consulting any privilege/identity" % i
        bad = add_query(rep, qn, r.pc + [dis, z3.BoolVal(bool(consulted) or not ret_true or r.status != "return")], key="C11.disabled-not-consulted")
        if bad:
            rep.add(Query(qn, "violated", "status %s ret %r consulted %s" % (r.status, retv, consulted[:4]), bad[1], "mirsym+z3", key="C11.disabled-not-consulted", model=bad[0], reproduced=None))
        r2, _m, _dt, _zm = check_sat(r.pc + [dis])
        if r2 == "sat":
            n += 1
    rep.add(Query("witness: is_allowed has a Disabled path", "witness-hit" if n else "witness-missed", "%d" % n, 0, "mirsym+z3"))
    rep.bounds["is_allowed"] = "loop bound 2 per loop (paths beyond are cut; only the Disabled prefix is claimed here)"


def eng_child_through_ref(v, idx):
    # &self argument: the pointee's field
    v = origin(v)
    if isinstance(v, Sym):
        return v.child("*").child(("f", idx))
    raise Inconclusive("self argument is not symbolic")


def check_handler_recording(rep, hm):
    ctx = hm.ctx
    AR = ctx.enums["AuthorizeResult"]

    def failed_records(p, after):
        return [e for e in p.events[after:] if e.kind == "await" and e.callee.endswith("log_connection_summary") and len(e.rargs) >= 4
                and isinstance(e.rargs[3], Scalar) and z3.is_true(z3.simplify(e.rargs[3].e))]

    def sig(p, after):
        out = []
        for e in p.events[after:]:
            if e.kind not in ("call", "await"):
                continue
            if e.callee.endswith("log_connection_summary"):
                continue
            if re.search(r"(fmt|::log$|new_display)", e.callee):
                continue
            out.append((e.kind, e.callee))
        return out
    ok_sigs = {}
    for p in hm.paths:
        au = p.first(r"(^|::)authorize$", ("call",))
        if au is None or p.r.status != "return":
            continue
        ai = p.index(au)
        d = au.ret.discr()
        recs = failed_records(p, ai)
        for name, cond, want in (("Ok", d == AR.index("Ok"), 0), ("OkWithAudit", d == AR.index("OkWithAudit"), 1), ("Forbidden", d == AR.index("Forbidden"), 1)):
            qn = "handler path %d: authorize = %s => exactly %d failed-authorization record(s)" % (p.i, name, want)
            bad = add_query(rep, qn, p.pc + [cond, z3.BoolVal(len(recs) != want)], key="C11.record-once:" + name)
            if bad:
                violated(rep, qn, "C11.record-once:" + name, "%d records on the path" % len(recs), p, bad[1], bad[0])
        if p.implied(d == AR.index("Ok")):
            ok_sigs.setdefault(tuple(sig(p, ai)), []).append((p.i, p.response()))
    for p in hm.paths:
        au = p.first(r"(^|::)authorize$", ("call",))
        if au is None or p.r.status != "return":
            continue
        if p.implied(au.ret.discr() == AR.index("OkWithAudit")):
            s = tuple(sig(p, p.index(au)))
            twin = ok_sigs.get(s)
            qn = "handler path %d (audit-mode denial): continues exactly like an allowed request" % p.i
            if twin and any(resp == p.response() for _i, resp in twin):
                rep.add(Query(qn, "holds", "same event suffix and response as allowed path(s) %s" % [i for i, _r in twin], 0, "mirsym", key="C11.audit-as-allowed"))
            else:
                violated(rep, qn, "C11.audit-as-allowed", "no allowed path has the same suffix", p)
    rep.add(Query("witness: allowed-path suffix signatures", "witness-hit" if ok_sigs else "witness-missed", "%d" % len(ok_sigs), 0, "mirsym"))


def check_summary_body(rep, ctx):
    w = ctx.method("ProxyServer", "log_connection_summary")
    body = w + "::{closure#0}"
    e0 = ctx.engine(); e0._reset([])
    wb = ctx.idx.body(w)
    co = e0.run_body(wb, [Sym(("arg", i + 1)) for i in range(wb.nargs)], 0)
    cap = {n: i for i, n in enumerate(co.names)}
    eng = ctx.engine()
    paths = eng.explore(body)
    rep.functions_encoded.append(body)
    n_t = n_f = 0
    for i, r in enumerate(paths):
        if r.status in ("panic", "cut"):
            continue          # panics are the subject of C13; paths beyond the loop bound of the boundary search are outside the bound
        flag = r.args[0].child(("f", cap["log_authorize_failed"])).scalar("bool")
        failed = [e for e in r.events if e.kind == "await" and e.callee.endswith("add_one_failed_connection_summary")]
        plain = [e for e in r.events if e.kind == "await" and e.callee.endswith("add_one_connection_summary")]
        for name, cond, bad_struct in (("flag set => exactly one failed-summary record and no plain record", flag, not (len(failed) == 1 and len(plain) == 0)),
                                       ("flag clear => no failed-summary record", z3.Not(flag), len(failed) != 0)):
            qn = "log_connection_summary path %d: %s" % (i, name)
            bad = add_query(rep, qn, r.pc + [cond, z3.BoolVal(bad_struct or r.status != "return")], key="C11.summary:" + name)
            if bad:
                rep.add(Query(qn, "violated", "failed=%d plain=%d status=%s" % (len(failed), len(plain), r.status), bad[1], "mirsym+z3", key="C11.summary:" + name, model=bad[0], reproduced=None))
        if failed:
            n_t += 1
            # the record carries the caller of THIS connection and its destination
            summ = failed[0].rargs[-1]
            hc = r.args[0].child(("f", cap["http_connection_context"]))
            if isinstance(summ, Agg) and summ.names:
                f = dict(zip(summ.names, summ.fields))
                want = ["userId", "processFullPath", "processCmdLine", "ip", "port", "userName"]
                missing = [w_ for w_ in want if w_ not in f]
                rep.add(Query("log_connection_summary path %d: failed record is a ProxySummary with user/process/cmdline/destination fields" % i,
                              "holds" if not missing else "violated", "missing %s" % missing, 0, "mirsym", key="C11.summary-fields", reproduced=None))
        if plain:
            n_f += 1
    rep.add(Query("witness: log_connection_summary has both kinds of path", "witness-hit" if n_t and n_f else "witness-missed", "%d/%d" % (n_t, n_f), 0, "mirsym"))


def explore_actor_arm(ctx, body, enum, variant):
    ix = ctx.enums[enum].index(variant)

    def hook(engine, ev):
        if ev.callee.endswith("recv"):
            n = sum(1 for e in engine.events if e.kind == "await" and e.callee.endswith("recv"))
            if n == 1:
                engine.require(ev.ret.discr() == 1)
                engine.require(ev.ret.child(("v", "Some", 0)).discr() == ix)
            else:
                engine.require(ev.ret.discr() == 0)      # channel closed after the one message under study
    eng = ctx.engine(loop_bound=1, max_paths=2000)
    eng.event_hook = hook
    return eng.explore(body)


def map_ordinal(r, v):
    """which `HashMap::new()` of the actor (in creation order) a map value is"""
    news = [e for e in r.events if e.kind == "call" and e.callee.endswith("HashMap::new")]
    o = origin(v)
    for k, e in enumerate(news):
        if e.ret is o or same_origin(e.ret, o):
            return k
    return None


def check_actor_arms(rep, ctx):
    """agent-status actor: a failed-authorization record is counted in the map that the status publisher reads."""
    w = ctx.method("AgentStatusSharedState", "start_new")
    body = w + "::{closure#0}"
    if body not in ctx.idx.files or "AgentStatusAction" not in ctx.enums:
        rep.add(Query("agent-status actor located", "inconclusive", "start_new::{closure#0} or AgentStatusAction not found", 0, "mirsym"))
        return
    rep.functions_encoded.append(body)

    def maps_used(variant, rx):
        used = set()
        paths = explore_actor_arm(ctx, body, "AgentStatusAction", variant)
        for r in paths:
            for e in r.events:
                if e.kind == "call" and re.search(rx, e.callee):
                    used.add(map_ordinal(r, e.rargs[0]))
        return used, paths
    read_failed, _ = maps_used("GetAllFailedConnectionSummary", r"HashMap::(iter|values|into_iter)$|IntoIterator>::into_iter$")
    read_plain, _ = maps_used("GetAllConnectionSummary", r"HashMap::(iter|values|into_iter)$|IntoIterator>::into_iter$")
    ok_pub = len(read_failed) == 1 and len(read_plain) == 1 and read_failed != read_plain and None not in read_failed | read_plain
    rep.add(Query("actor: the failed-authorization summary and the connection summary are two distinct maps, each read by its own getter", "holds" if ok_pub else "inconclusive",
                  "failed=%s plain=%s" % (read_failed, read_plain), 0, "mirsym", key="C11.actor.maps"))
    if not ok_pub:
        return
    for variant, want, nm in (("AddOneFailedConnectionSummary", read_failed, "failed-authorization"), ("AddOneConnectionSummary", read_plain, "connection")):
        used, paths = maps_used(variant, r"HashMap::(entry|get_mut|insert|get|remove)$")
        rep.add(Query("actor arm %s: lookup, insert and count increment all address the %s summary map" % (variant, nm), "holds" if used == want else "violated",
                      "maps touched %s, published map %s" % (used, want), 0, "mirsym", key="C11.actor.arm:" + variant, reproduced=None,
                      replay=None if used == want else save_replay("C11", "actor_%s.json" % variant, json.dumps({"maps_touched": sorted(map(str, used)), "published": sorted(map(str, want))}))))
        # first occurrence inserts, later ones increment: both branches exist
        vac = any(e.callee.endswith("VacantEntry::insert") or e.callee.endswith("::insert") for r in paths for e in r.events if e.kind == "call")
        inc = any(e.callee.endswith("HashMap::get_mut") for r in paths for e in r.events if e.kind == "call")
        rep.add(Query("witness: actor arm %s has an insert branch and an increment branch" % variant, "witness-hit" if vac and inc else "witness-missed", "", 0, "mirsym"))


def check(rep, tier, seed):
    ctx = Ctx("agent")
    rep.extra["mir_dump"] = {"cache_hit": ctx.dump.cache_hit, "tree_hash": ctx.dump.hash, "seconds": round(ctx.dump.seconds, 1)}
    check_authorizer_modes(rep, ctx)
    check_is_allowed_disabled(rep, ctx)
    hm = HandlerModel(ctx, rep)
    check_handler_recording(rep, hm)
    check_summary_body(rep, ctx)
    check_actor_arms(rep, ctx)
    import p_c02
    p_c02.check_decision(rep, ctx)     # a denial is a denial in every mode but Disabled: is_allowed's decision does not depend on Audit/Enforce
    rep.assumptions += ["is_allowed (beyond its Disabled prefix) is uninterpreted in the authorizers: any decision", "Future::poll returns Ready"]
    rep.outside_claim += ["the status-file writer", "the HashMap entry API itself and u64 overflow of a count", "concurrent connections (each handler instance is independent; the counter is serialised by the actor)"]
    rep.trusted += ["mirsym", "z3"]

    import e2e
    e2e.confirm(rep, "C11")


def replay(path):
    print(open(path).read())
    return 0
