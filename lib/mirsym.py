"""mirsym: a small symbolic executor over rustc's built-phase MIR (see DESIGN.md 3.3).

Values are Python objects; scalars, discriminants and strings are z3 terms. Calls are uninterpreted by default
(fresh symbolic result + an event in the trace); a check declares which repo functions are inlined and the engine
has a short list of summaries for std/core functions. Paths are enumerated by re-execution with a decision prefix;
z3 prunes infeasible branches. Every complete path yields (path condition, event trace, return value).
"""
import re, itertools, time
import z3
from mirparse import *


class Inconclusive(Exception):
    pass


_ids = itertools.count(1)

STD_ENUMS = {
    "Option": ["None", "Some"], "Result": ["Ok", "Err"], "Poll": ["Ready", "Pending"],
    "ControlFlow": ["Continue", "Break"], "Ordering": ["Less", "Equal", "Greater"], "Cow": ["Borrowed", "Owned"],
    "Entry": ["Occupied", "Vacant"], "Bound": ["Included", "Excluded", "Unbounded"],
    "CoroutineState": ["Yielded", "Complete"],
}


def strip_generics(s):
    """Remove `::<...>` turbofish groups and lifetimes from a path."""
    out, i, n = [], 0, len(s)
    while i < n:
        if s.startswith("::<", i):
            j = find_matching(s, i + 2)
            i = j + 1
            continue
        out.append(s[i])
        i += 1
    return "".join(out)


def base_type_name(ty):
    """'std::option::Option<Foo>' -> 'Option';  '&mut proxy::Claims' -> 'Claims'"""
    ty = ty.strip()
    while ty.startswith("&"):
        ty = re.sub(r"^&('\w+ )?(mut )?", "", ty).strip()
    ty = strip_generics(ty)
    i = ty.find("<")
    if i > 0:
        ty = ty[:i]
    return ty.split("::")[-1].strip()


# ------------------------------------------------------------------------------------------------
class Val:
    pass


Z3_OWNER = {}     # name of a z3 string constant -> the Sym it stands for (data-flow checks read string terms back)


class Sym(Val):
    """Opaque symbolic object with lazily materialised parts."""

    def __init__(self, tag, ty=None, base=None, over=None):
        self.id = next(_ids)
        self.tag = tag            # origin description (tuple)
        self.ty = ty
        self.base = base          # functional-update parent
        self.over = over or {}
        self._kids = {}
        self._z3 = None
        self._discr = None
        self._str = None

    def root(self):
        return self.base.root() if self.base is not None else self

    def child(self, key, ty=None):
        if key in self.over:
            return self.over[key]
        if self.base is not None:
            return self.base.child(key, ty)
        if key not in self._kids:
            self._kids[key] = Sym(("part", self, key), ty)
        return self._kids[key]

    def with_child(self, key, v):
        return Sym(self.tag, self.ty, base=self, over={key: v})

    def discr(self):
        if "discr" in self.over:
            return self.over["discr"]
        if self.base is not None:
            return self.base.discr()
        if self._discr is None:
            self._discr = z3.Int("d%d" % self.id)
        return self._discr

    def scalar(self, ty):
        r = self.root() if not self.over else self
        if r._z3 is None:
            r._z3 = mk_const("v%d" % r.id, ty)
        return r._z3

    def string(self):
        r = self.root() if not self.over else self
        if r._str is None:
            r._str = z3.String("s%d" % r.id)
            Z3_OWNER["s%d" % r.id] = r
        return r._str

    def __repr__(self):
        return "Sym#%d%s" % (self.id, describe_tag(self.tag))


def describe_tag(tag):
    if not isinstance(tag, tuple):
        return "(%s)" % (tag,)
    if tag[0] == "part":
        return "(%r.%s)" % (tag[1], tag[2] if not isinstance(tag[2], tuple) else ".".join(map(str, tag[2])))
    if tag[0] == "conv":
        return "(%s(%r))" % (tag[1], tag[2])
    return "(%s)" % ",".join(str(t) for t in tag)


class Agg(Val):
    def __init__(self, name, fields, variant=None, vindex=None, kind="struct", body_path=None, names=None):
        self.id = next(_ids)
        self.name = name          # type / constructor text (generics stripped)
        self.fields = list(fields)
        self.variant = variant
        self.vindex = vindex
        self.kind = kind
        self.body_path = body_path
        self.names = names

    def __repr__(self):
        return "%s%s%r" % (self.name, "::" + self.variant if self.variant else "", self.fields)


class Scalar(Val):
    def __init__(self, e):
        self.e = e

    def __repr__(self):
        return "Scalar(%s)" % self.e


class StrV(Val):
    def __init__(self, e):
        self.e = e

    def __repr__(self):
        return "Str(%s)" % self.e


class ConstV(Val):
    def __init__(self, text):
        self.text = text

    def __repr__(self):
        return "Const(%s)" % self.text


class Ref(Val):
    """Pointer to a place of a frame, or to a free-standing value (boxes, results of calls)."""

    def __init__(self, frame=None, place=None, val=None):
        self.frame, self.place, self.val = frame, place, val

    def __repr__(self):
        return "Ref(%s)" % (self.place if self.frame is not None else repr(self.val))


class Cell:
    """A heap cell (Box / pointee of an opaque pointer)."""

    def __init__(self, v):
        self.v = v


INT_RE = re.compile(r"^(u|i)(8|16|32|64|128|size)$")


def int_info(ty):
    m = INT_RE.match(ty.strip()) if ty else None
    if not m:
        return None
    w = 64 if m.group(2) == "size" else int(m.group(2))
    return (m.group(1) == "i", w)


def mk_const(name, ty):
    ty = (ty or "").strip()
    if ty == "bool":
        return z3.Bool(name)
    ii = int_info(ty)
    if ii:
        return z3.BitVec(name, ii[1])
    if ty == "char":
        return z3.BitVec(name, 32)
    if ty in ("isize",):
        return z3.Int(name)
    return z3.Int(name)


class Event:
    def __init__(self, kind, callee, args, ret, site, extra=None, rargs=None):
        self.kind, self.callee, self.args, self.ret, self.site, self.extra = kind, callee, args, ret, site, extra
        self.rargs = rargs if rargs is not None else args     # args with references resolved at call time

    def __repr__(self):
        return "%s %s%s @%s" % (self.kind, self.callee, tuple(self.args), self.site)


class Frame:
    def __init__(self, body, fid):
        self.body = body
        self.id = fid
        self.locals = {}
        self.visits = {}


class PathResult:
    def __init__(self, pc, events, ret, status, decisions, note=""):
        self.pc, self.events, self.ret, self.status, self.decisions, self.note = pc, events, ret, status, decisions, note
        # status: 'return' | 'cut' (loop bound) | 'panic'


class EndPath(Exception):
    def __init__(self, status, note=""):
        self.status, self.note = status, note


# ------------------------------------------------------------------------------------------------
def origin(v):
    """Strip origin-preserving conversions (clone/to_string/as_ref/...) and references."""
    seen = 0
    while seen < 64:
        seen += 1
        if isinstance(v, Sym) and isinstance(v.tag, tuple) and v.tag and v.tag[0] == "conv":
            v = v.tag[2]
            continue
        if isinstance(v, Ref) and v.frame is None and isinstance(v.val, Cell):
            v = v.val.v
            continue
        break
    return v


def conv_chain(v):
    """([conversion names outermost first], base value)"""
    names = []
    for _ in range(64):
        if isinstance(v, Sym) and isinstance(v.tag, tuple) and v.tag and v.tag[0] == "conv":
            names.append(v.tag[1])
            v = v.tag[2]
            continue
        if isinstance(v, Ref) and v.frame is None and isinstance(v.val, Cell):
            v = v.val.v
            continue
        break
    return names, v


def same_origin(a, b):
    a, b = origin(a), origin(b)
    if a is b:
        return True
    if isinstance(a, Sym) and isinstance(b, Sym):
        return a.root() is b.root() and not a.over and not b.over
    return False


def is_part_of(v, whole, key_path=None):
    """True if v is (a conversion of) the part `key_path` of whole (or any part when key_path is None)."""
    v = origin(v)
    whole = origin(whole)
    chain = []
    cur = v
    while isinstance(cur, Sym) and isinstance(cur.tag, tuple) and cur.tag[0] == "part":
        chain.append(cur.tag[2])
        cur = origin(cur.tag[1])
        if cur is whole or (isinstance(cur, Sym) and isinstance(whole, Sym) and cur.root() is whole.root()):
            chain.reverse()
            return key_path is None or list(key_path) == chain
    return False


class Engine:
    def __init__(self, index, enums=None, inline=None, summaries=None, loop_bound=2, max_paths=4000, src_root=None,
                 max_depth=6, timeout=600):
        self.idx = index
        self.enums = dict(STD_ENUMS)
        if enums:
            self.enums.update(enums)
        self.inline = inline or []          # list of (regex on stripped callee, body path | callable(engine, callee, args)->path)
        self.user_summaries = summaries or []   # list of (regex, fn(engine, frame, callee, args) -> Val | None)
        self.loop_bound = loop_bound
        self.max_paths = max_paths
        self.max_depth = max_depth
        self.src_root = src_root
        self.timeout = timeout
        self.solver_time = 0.0
        self.solver_calls = 0
        self.stats = {"paths": 0, "blocks": 0, "cut": 0, "pruned": 0, "unreachable": 0}
        self.uninterpreted = set()
        self.inlined = set()
        self.const_cache = {}
        self.opaque_eq_types = {"Method", "StatusCode", "Version"}
        self.event_hook = None              # callable(engine, event): may call engine.require(cond) to restrict the exploration
        self.auto_inline = None             # callable(engine, callee text, caller path) -> body path | None

    # ---------------- path enumeration ----------------
    def find_blocks(self, path, callee_rx):
        """block numbers of body `path` whose terminator calls a callee matching callee_rx (non-cleanup blocks)"""
        body = self.idx.body(path)
        out = []
        for n in sorted(body.blocks):
            if n in body.cleanup:
                continue
            raw = body.blocks[n][1][1]
            if ") -> " not in raw:
                continue
            try:
                t = parse_statement_line(raw)
            except MirError:
                continue
            if getattr(t, "kind", None) == "call" and re.search(callee_rx, strip_generics(t.callee)):
                out.append(n)
        return out

    def explore(self, path, args=None, setup=None, start_bb=0, stop_calls=None):
        """Enumerate all feasible paths of body `path`. args: list of Val for _1.._n (fresh Syms if None).
        setup(engine, args) may add initial constraints via engine.assume()."""
        body = self.idx.body(path)
        results = []
        work = [[]]
        t0 = time.time()
        while work:
            if time.time() - t0 > self.timeout:
                raise Inconclusive("path exploration timed out after %ds (%d paths)" % (self.timeout, len(results)))
            prefix = work.pop()
            self._reset(prefix)
            a = args(self) if callable(args) else args
            if a is None:
                a = [Sym(("arg", i + 1), body.arg_types.get(i + 1)) for i in range(body.nargs)]
            if setup:
                setup(self, a)
            status, note, ret = "return", "", None
            self.stop_calls = stop_calls
            try:
                ret = self.run_body(body, a, depth=0, start_bb=start_bb)
            except EndPath as e:
                status, note = e.status, e.note
            for alt in self.alternatives:
                work.append(alt)
            if status == "unreachable":
                self.stats["unreachable"] += 1
                continue
            if status == "infeasible":
                continue
            pr = PathResult(list(self.pc), list(self.events), ret, status, list(self.decisions), note)
            pr.args = a
            results.append(pr)
            self.stats["paths"] += 1
            if status == "cut":
                self.stats["cut"] += 1
            if len(results) > self.max_paths:
                raise Inconclusive("more than %d paths" % self.max_paths)
        return results

    def _reset(self, prefix):
        self.prefix = prefix
        self.decisions = []
        self.alternatives = []
        self.pc = []
        self.events = []
        self.solver = z3.Solver()
        self.frames = {}
        self.fid = itertools.count(1)
        self.seq = itertools.count(1)
        self.convs = {}

    def assume(self, c):
        self.pc.append(c)
        self.solver.add(c)

    def require(self, c):
        """Restrict the current path to executions satisfying c (used by checks to focus on one actor message etc.)."""
        if not self.feasible(c):
            raise EndPath("infeasible")
        self.assume(c)

    def feasible(self, c):
        c = z3.simplify(c) if z3.is_expr(c) else c
        if z3.is_true(c):
            return True
        if z3.is_false(c):
            return False
        t0 = time.time()
        self.solver.push()
        self.solver.add(c)
        r = self.solver.check()
        self.solver.pop()
        self.solver_time += time.time() - t0
        self.solver_calls += 1
        if r == z3.unknown:
            raise Inconclusive("solver returned unknown on a branch condition")
        return r == z3.sat

    def choose(self, options):
        """options: list of (label, z3 condition). Pick per decision prefix; register alternatives."""
        i = len(self.decisions)
        if i < len(self.prefix):
            lab = self.prefix[i]
            for l, c in options:
                if l == lab:
                    self.decisions.append(l)
                    self.assume(c)
                    return l
            raise Inconclusive("decision prefix does not replay")
        feas = [(l, c) for (l, c) in options if self.feasible(c)]
        self.stats["pruned"] += len(options) - len(feas)
        if not feas:
            raise EndPath("infeasible")
        for l, c in feas[1:]:
            self.alternatives.append(self.decisions + [l])
        l, c = feas[0]
        self.decisions.append(l)
        self.assume(c)
        return l

    # ---------------- execution ----------------
    def run_body(self, body, args, depth, start_bb=0):
        if depth > self.max_depth:
            raise Inconclusive("inline depth exceeded at " + body.path)
        fr = Frame(body, next(self.fid))
        self.frames[fr.id] = fr
        for i, a in enumerate(args):
            fr.locals[i + 1] = a
        bb = start_bb
        while True:
            fr.visits[bb] = fr.visits.get(bb, 0) + 1
            if fr.visits[bb] > self.loop_bound + 1:
                raise EndPath("cut", "loop bound %d exceeded at bb%d of %s" % (self.loop_bound, bb, body.path))
            self.stats["blocks"] += 1
            stmts, term = block(body, bb)
            for st in stmts:
                if st.kind == "assign":
                    self.write_place(fr, st.place, self.eval_rvalue(fr, st.rv, st.place))
            k = term.kind
            if k == "goto":
                bb = term.target
            elif k == "drop":
                bb = term.target
            elif k == "return":
                return fr.locals.get(0, Agg("()", [], kind="tuple"))
            elif k == "unreachable":
                raise EndPath("unreachable")
            elif k == "resume":
                raise EndPath("panic", "resume")
            elif k == "switch":
                bb = self.do_switch(fr, term)
            elif k == "assert":
                c = self.to_bool(self.eval_operand(fr, term.cond), fr, term.cond)
                ok = c if term.expected else z3.Not(c)
                lab = self.choose([("assert-ok", ok), ("assert-fail", z3.Not(ok))])
                if lab == "assert-fail":
                    self.events.append(Event("panic", "assert", [ConstV(term.msg)], None, (body.path, bb)))
                    raise EndPath("panic", term.msg)
                bb = term.target
            elif k == "yield":
                self.events.append(Event("yield", "yield", [], None, (body.path, bb)))
                raise EndPath("cut", "yield reached (a polled future returned Pending)")
            elif k == "call":
                if depth == 0 and getattr(self, "stop_calls", None) and re.search(self.stop_calls, strip_generics(term.callee)) \
                        and not (bb == start_bb and fr.visits.get(bb, 0) == 1 and start_bb != 0):
                    raise EndPath("stop", "reached " + strip_generics(term.callee).split("::")[-1])
                r = self.do_call(fr, term, depth, bb)
                if term.target is None:
                    raise EndPath("panic", "diverging call " + term.callee[:60])
                if term.dest is not None:
                    self.write_place(fr, term.dest, r)
                bb = term.target
            else:
                raise Inconclusive("terminator kind " + k)

    def do_switch(self, fr, term):
        v = self.eval_operand(fr, term.op)
        ty = self.operand_type(fr, term.op)
        e = self.to_z3(v, ty)
        opts = []
        keys = [k for k in term.targets if k != "otherwise"]
        for k in keys:
            n = int(k)
            opts.append((k, self.eq_const(e, n)))
        if "otherwise" in term.targets:
            opts.append(("otherwise", z3.And([z3.Not(self.eq_const(e, int(k))) for k in keys]) if keys else z3.BoolVal(True)))
        lab = self.choose(opts)
        return term.targets[lab]

    def eq_const(self, e, n):
        if z3.is_bool(e):
            return z3.Not(e) if n == 0 else e
        if z3.is_bv(e):
            return e == z3.BitVecVal(n, e.size())
        return e == n

    # ---------------- values ----------------
    def operand_type(self, fr, op):
        if op.kind == "const":
            m = re.search(r"_((?:u|i)(?:8|16|32|64|128|size))$", op.const)
            if m:
                return m.group(1)
            if op.const in ("true", "false"):
                return "bool"
            return None
        return self.place_type(fr, op.place)

    def place_type(self, fr, place):
        ty = fr.body.local_types.get(place.local)
        for p in place.proj:
            if p[0] == "field":
                ty = p[2]
            elif p[0] == "deref":
                if ty:
                    t = ty.strip()
                    t2 = re.sub(r"^&('\w+ )?(mut )?", "", t)
                    if t2 == t:
                        m = re.match(r"(?:std::boxed::)?Box<(.*)>$", t)
                        t2 = m.group(1) if m else None
                    ty = t2
            else:
                ty = None if p[0] != "downcast" else ty
        return ty

    def to_z3(self, v, ty=None):
        v0 = v
        if isinstance(v, Scalar):
            return v.e
        if isinstance(v, Sym):
            return v.scalar(ty)
        if isinstance(v, Agg) and v.vindex is not None and not v.fields:
            return z3.IntVal(v.vindex)
        if isinstance(v, ConstV):
            key = ("constz3", v.text)
            if key not in self.const_cache:
                self.const_cache[key] = mk_const("c!" + v.text, ty)
            return self.const_cache[key]
        raise Inconclusive("cannot make a scalar of %r" % (v0,))

    def to_bool(self, v, fr=None, op=None):
        e = self.to_z3(v, "bool")
        if z3.is_bool(e):
            return e
        if z3.is_bv(e):
            return e != z3.BitVecVal(0, e.size())
        return e != 0

    def eval_const(self, text, fr=None):
        t = text.strip()
        if t == "true":
            return Scalar(z3.BoolVal(True))
        if t == "false":
            return Scalar(z3.BoolVal(False))
        m = re.match(r"^(-?\d+)_((?:u|i)(?:8|16|32|64|128|size))$", t)
        if m:
            signed, w = int_info(m.group(2))
            return Scalar(z3.BitVecVal(int(m.group(1)), w))
        if t.startswith('"'):
            try:
                s = bytes(t[1:-1], "utf-8").decode("unicode_escape")
            except Exception:
                s = t[1:-1]
            return StrV(z3.StringVal(s))
        if t == "()":
            return Agg("()", [], kind="tuple")
        if t.startswith("fn-item ") or t.startswith("b\"") or t.startswith("'"):
            return ConstV(t)
        # named constant: try its MIR body
        name = strip_generics(t)
        if name in self.const_cache:
            return self.const_cache[name]
        val = None
        if re.match(r"^[\w:]+$", name):
            cands = self.idx.find(name)
            if len(cands) != 1 and "::" in name:
                # associated constant `Type::NAME`: the body lives under `<impl at ..>::NAME`
                last = name.split("::")[-1]
                c2 = [p for p in self.idx.files if p.endswith("::" + last) and "<impl at" in p]
                if len(c2) == 1:
                    cands = c2
            if len(cands) == 1:
                b = self.idx.body(cands[0])
                if b.nargs == 0 and len(b.blocks) <= 12:
                    # constant evaluation must not consume path decisions: run it in a private decision context
                    saved = (self.decisions, self.alternatives, self.prefix, list(self.pc), list(self.events))
                    self.decisions, self.alternatives, self.prefix = [], [], []
                    try:
                        val = self.run_body(b, [], depth=self.max_depth)
                        if self.alternatives:
                            val = None
                    except (EndPath, Inconclusive, MirError):
                        val = None
                    self.decisions, self.alternatives, self.prefix = saved[0], saved[1], saved[2]
                    self.events = saved[4]
                    if len(self.pc) != len(saved[3]):
                        self.pc = saved[3]
                        self.solver = z3.Solver()
                        for c in self.pc:
                            self.solver.add(c)
        if val is None:
            # enum unit variant written as a constant?
            val = ConstV(name)
        try:
            val.const_name = name          # the evaluated value remembers which named constant it came from
        except AttributeError:
            pass
        self.const_cache[name] = val
        return val

    def eval_operand(self, fr, op):
        if op.kind == "const":
            return self.eval_const(op.const, fr)
        return self.read_place(fr, op.place)

    def read_local(self, fr, n):
        if n not in fr.locals:
            fr.locals[n] = Sym(("uninit", fr.body.path, n), fr.body.local_types.get(n))
        return fr.locals[n]

    def read_place(self, fr, place):
        v = self.read_local(fr, place.local)
        for i, p in enumerate(place.proj):
            v = self.project(v, p, fr)
        return v

    def deref(self, v):
        if isinstance(v, Ref):
            if v.frame is not None:
                return self.read_place(self.frames[v.frame], v.place)
            if isinstance(v.val, Cell):
                return v.val.v
            return v.val
        if isinstance(v, Sym):
            return v.child("*")
        if isinstance(v, Agg) and v.kind == "box":
            return v.fields[0]
        if isinstance(v, (StrV, ConstV)):
            return v          # &str / &'static constants: the reference and the referent are not distinguished
        raise Inconclusive("deref of %r" % (v,))

    def project(self, v, p, fr=None):
        k = p[0]
        if k == "deref":
            return self.deref(v)
        if k == "field":
            if isinstance(v, Agg):
                if p[1] < len(v.fields):
                    return v.fields[p[1]]
                raise Inconclusive("field %d of %r" % (p[1], v))
            if isinstance(v, Sym):
                return v.child(("f", p[1]), p[2])
            if isinstance(v, _Down):
                if isinstance(v.v, Sym):
                    return v.v.child(("v", v.variant, p[1]), p[2])
                return v.v.fields[p[1]]
            raise Inconclusive("field projection on %r" % (v,))
        if k == "downcast":
            if isinstance(v, Agg):
                if v.variant is not None and v.variant != p[1]:
                    raise EndPath("infeasible")
                return _Down(v, p[1])
            if isinstance(v, Sym):
                return _Down(v, p[1])
            raise Inconclusive("downcast on %r" % (v,))
        if k == "constindex":
            if isinstance(v, Agg) and p[1] < len(v.fields):
                return v.fields[p[1]]
            if isinstance(v, Sym):
                return v.child(("i", p[1]))
        if k == "index" and isinstance(v, Sym):
            iv = self.read_local(fr, p[1])
            return v.child(("ix", repr(iv)))
        raise Inconclusive("projection %r on %r" % (p, v))

    def write_place(self, fr, place, val):
        if isinstance(val, _Down):
            val = val.v
        if not place.proj:
            fr.locals[place.local] = val
            return
        fr.locals[place.local] = self._update(fr, self.read_local(fr, place.local), place.proj, val)

    def _update(self, fr, cur, proj, val):
        if not proj:
            return val
        p, rest = proj[0], proj[1:]
        if p[0] == "deref":
            if isinstance(cur, Ref):
                if cur.frame is not None:
                    tfr = self.frames[cur.frame]
                    self.write_place(tfr, Place(cur.place.local, cur.place.proj + list(rest)), val)
                    return cur
                if isinstance(cur.val, Cell):
                    cur.val.v = self._update(fr, cur.val.v, rest, val)
                    return cur
                return Ref(val=self._update(fr, cur.val, rest, val))
            if isinstance(cur, Sym):
                if not rest and isinstance(cur.tag, tuple) and cur.tag and cur.tag[0] == "ret":
                    # `*f(..) = v`: a write through a reference handed out by an uninterpreted call (status_mut(), uri_mut(), ...)
                    self.events.append(Event("store", "*" + str(cur.tag[1]), [cur, val], None, None, rargs=[cur, self.peel(val) if hasattr(self, "peel") else val]))
                return cur.with_child("*", self._update(fr, cur.child("*"), rest, val))
            raise Inconclusive("write through %r" % (cur,))
        if p[0] == "field":
            if isinstance(cur, Agg):
                f = list(cur.fields)
                while len(f) <= p[1]:
                    f.append(Sym(("hole",)))
                f[p[1]] = self._update(fr, f[p[1]], rest, val)
                return Agg(cur.name, f, cur.variant, cur.vindex, cur.kind, cur.body_path, cur.names)
            if isinstance(cur, Sym):
                key = ("f", p[1])
                return cur.with_child(key, self._update(fr, cur.child(key, p[2]), rest, val))
        if p[0] == "downcast" and rest and rest[0][0] == "field":
            if isinstance(cur, Sym):
                key = ("v", p[1], rest[0][1])
                return cur.with_child(key, self._update(fr, cur.child(key, rest[0][2]), rest[1:], val))
            if isinstance(cur, Agg):
                return self._update(fr, cur, rest, val)
        if p[0] == "index" and isinstance(cur, Sym):
            key = ("ix", repr(self.read_local(fr, p[1])))
            return cur.with_child(key, self._update(fr, cur.child(key), rest, val))
        if p[0] == "constindex":
            if isinstance(cur, Sym):
                key = ("i", p[1])
                return cur.with_child(key, self._update(fr, cur.child(key), rest, val))
            if isinstance(cur, Agg) and p[1] < len(cur.fields):
                f = list(cur.fields)
                f[p[1]] = self._update(fr, f[p[1]], rest, val)
                return Agg(cur.name, f, cur.variant, cur.vindex, cur.kind, cur.body_path, cur.names)
        raise Inconclusive("write projection %r on %r" % (p, cur))

    # ---------------- rvalues ----------------
    def variant_index(self, tyname, variant):
        lst = self.enums.get(tyname)
        if lst and variant in lst:
            return lst.index(variant)
        return None

    def eval_rvalue(self, fr, rv, dest=None):
        k = rv.kind
        if k == "use":
            v = self.eval_operand(fr, rv.op)
            return v.v if isinstance(v, _Down) else v
        if k == "ref":
            # &(*_x) where _x is a reference: the reference itself
            pl = rv.place
            if pl.proj and pl.proj[-1][0] == "deref":
                inner = self.read_place(fr, Place(pl.local, pl.proj[:-1]))
                if isinstance(inner, (Ref, Sym, StrV, ConstV)):
                    return inner
            return Ref(frame=fr.id, place=pl)
        if k == "discriminant":
            v = self.read_place(fr, rv.place)
            if isinstance(v, _Down):
                v = v.v
            if isinstance(v, Agg):
                if v.vindex is not None:
                    return Scalar(z3.IntVal(v.vindex))
                if v.kind in ("struct", "tuple"):
                    return Scalar(z3.IntVal(0))
                raise Inconclusive("discriminant of %r: unknown variant index (enum table incomplete)" % (v,))
            if isinstance(v, Sym):
                return Scalar(v.discr())
            if isinstance(v, ConstV):
                # constant enum value, e.g. `const AuthorizationMode::Audit`
                parts = v.text.split("::")
                if len(parts) >= 2:
                    ix = self.variant_index(parts[-2], parts[-1])
                    if ix is not None:
                        return Scalar(z3.IntVal(ix))
                raise Inconclusive("discriminant of constant " + v.text)
            raise Inconclusive("discriminant of %r" % (v,))
        if k == "binop":
            return self.binop(fr, rv)
        if k == "unop" and rv.op == "PtrMetadata":
            a = self.eval_operand(fr, rv.a)
            return Scalar(self.len_of(self.peel(a)))
        if k == "unop":
            a = self.eval_operand(fr, rv.a)
            ty = self.operand_type(fr, rv.a)
            e = self.to_z3(a, ty)
            if rv.op == "Not":
                return Scalar(z3.Not(e) if z3.is_bool(e) else ~e)
            if rv.op == "Neg":
                return Scalar(-e)
            return Sym(("unop", rv.op, a))
        if k == "cast":
            v = self.eval_operand(fr, rv.op)
            if rv.castkind.startswith("PointerCoercion") or rv.castkind in ("Transmute", "PtrToPtr"):
                return v
            if rv.castkind in ("IntToInt",):
                src = self.operand_type(fr, rv.op)
                e = self.to_z3(v, src)
                si, di = int_info(src or ""), int_info(rv.ty)
                if z3.is_bv(e) and di:
                    w = di[1]
                    if e.size() > w:
                        return Scalar(z3.Extract(w - 1, 0, e))
                    if e.size() < w:
                        return Scalar(z3.SignExt(w - e.size(), e) if (si and si[0]) else z3.ZeroExt(w - e.size(), e))
                    return Scalar(e)
                if z3.is_bool(e) and di:
                    return Scalar(z3.If(e, z3.BitVecVal(1, di[1]), z3.BitVecVal(0, di[1])))
            return Sym(("cast", rv.castkind, rv.ty, v), rv.ty)
        if k == "tuple":
            return Agg("()", [self._strip(self.eval_operand(fr, o)) for o in rv.ops], kind="tuple")
        if k == "array":
            return Agg("[]", [self._strip(self.eval_operand(fr, o)) for o in rv.ops], kind="array")
        if k == "repeat":
            return Sym(("repeat", rv.count))
        if k == "len":
            v = self.read_place(fr, rv.place)
            if isinstance(v, Agg):
                return Scalar(z3.BitVecVal(len(v.fields), 64))
            return Scalar(self.len_of(v))
        if k == "aggregate":
            fields = [self._strip(self.eval_operand(fr, o)) for o in rv.fields]
            name = strip_generics(rv.name)
            if name.startswith("{"):
                kind = "coroutine" if name.startswith(("{coroutine", "{async")) else "closure"
                m = re.match(r"\{\w[\w ]*@([^}]*?)(?: \(#\d+\))?\}", name)
                span = m.group(1).strip() if m else None
                bp = self.idx.closure_by_span(span) if span else None
                if bp is None and kind == "coroutine":
                    cand = fr.body.path + "::{closure#0}"
                    if cand in self.idx.files:
                        bp = cand
                return Agg(name, fields, kind=kind, body_path=bp, names=rv.named)
            parts = name.split("::")
            # enum variant?  Type::Variant
            if len(parts) >= 2:
                ix = self.variant_index(parts[-2], parts[-1])
                if ix is not None:
                    return Agg(parts[-2], fields, variant=parts[-1], vindex=ix, kind="enum")
            if len(parts) >= 2 and parts[-1][:1].isupper() and parts[-2][:1].isupper() and rv.named is None:
                # looks like Enum::Variant of an enum we have no table for
                return Agg(parts[-2], fields, variant=parts[-1], vindex=None, kind="enum")
            return Agg(parts[-1], fields, kind="struct", names=rv.named)
        raise Inconclusive("rvalue kind " + k)

    def _strip(self, v):
        return v.v if isinstance(v, _Down) else v

    def binop(self, fr, rv):
        a, b = self.eval_operand(fr, rv.a), self.eval_operand(fr, rv.b)
        ta, tb = self.operand_type(fr, rv.a), self.operand_type(fr, rv.b)
        ty = ta or tb
        ea, eb = self.to_z3(a, ty), self.to_z3(b, ty)
        if z3.is_bv(ea) and z3.is_int(eb):
            eb = z3.Int2BV(eb, ea.size())
        if z3.is_bv(eb) and z3.is_int(ea):
            ea = z3.Int2BV(ea, eb.size())
        ii = int_info(ty or "")
        signed = bool(ii and ii[0])
        op = rv.op
        if op == "Eq":
            return Scalar(ea == eb)
        if op == "Ne":
            return Scalar(ea != eb)
        if z3.is_bv(ea):
            cmp = {"Lt": (lambda x, y: x < y) if signed else z3.ULT, "Le": (lambda x, y: x <= y) if signed else z3.ULE,
                   "Gt": (lambda x, y: x > y) if signed else z3.UGT, "Ge": (lambda x, y: x >= y) if signed else z3.UGE}
            if op in cmp:
                return Scalar(cmp[op](ea, eb))
            w = ea.size()
            if z3.is_bv(eb) and eb.size() != w:
                eb = z3.ZeroExt(w - eb.size(), eb) if eb.size() < w else z3.Extract(w - 1, 0, eb)
            arith = {"Add": lambda: ea + eb, "Sub": lambda: ea - eb, "Mul": lambda: ea * eb,
                     "BitAnd": lambda: ea & eb, "BitOr": lambda: ea | eb, "BitXor": lambda: ea ^ eb,
                     "Shl": lambda: ea << eb, "Shr": lambda: (ea >> eb) if signed else z3.LShR(ea, eb),
                     "Div": lambda: (ea / eb) if signed else z3.UDiv(ea, eb), "Rem": lambda: z3.SRem(ea, eb) if signed else z3.URem(ea, eb)}
            base = op.replace("Unchecked", "").replace("WithOverflow", "")
            if base in arith:
                r = arith[base]()
                if op.endswith("WithOverflow"):
                    if base == "Add":
                        ov = z3.Not(z3.BVAddNoOverflow(ea, eb, signed)) if not signed else z3.Or(z3.Not(z3.BVAddNoOverflow(ea, eb, True)), z3.Not(z3.BVAddNoUnderflow(ea, eb)))
                    elif base == "Sub":
                        ov = z3.Not(z3.BVSubNoUnderflow(ea, eb, signed)) if not signed else z3.Or(z3.Not(z3.BVSubNoOverflow(ea, eb)), z3.Not(z3.BVSubNoUnderflow(ea, eb, True)))
                    else:
                        ov = z3.Not(z3.BVMulNoOverflow(ea, eb, signed))
                    return Agg("()", [Scalar(r), Scalar(ov)], kind="tuple")
                return Scalar(r)
        if z3.is_bool(ea) and op in ("BitAnd", "BitOr", "BitXor"):
            return Scalar({"BitAnd": z3.And, "BitOr": z3.Or, "BitXor": z3.Xor}[op](ea, eb))
        if z3.is_int(ea):
            f = {"Lt": lambda: ea < eb, "Le": lambda: ea <= eb, "Gt": lambda: ea > eb, "Ge": lambda: ea >= eb,
                 "Add": lambda: ea + eb, "Sub": lambda: ea - eb, "Mul": lambda: ea * eb}
            if op in f:
                return Scalar(f[op]())
        raise Inconclusive("binop %s on %s/%s" % (op, ea.sort(), eb.sort()))

    # ---------------- calls ----------------
    def fresh(self, tag, ty=None):
        return Sym(tag + (next(self.seq),), ty)

    def conv(self, name, src):
        """Origin-preserving pure conversion: same source -> same result."""
        key = (name, id(origin(src)) if not isinstance(origin(src), Sym) else origin(src).id)
        if key not in self.convs:
            self.convs[key] = Sym(("conv", name, src))
        return self.convs[key]

    def do_call(self, fr, term, depth, bb):
        callee_raw = term.callee
        callee = strip_generics(callee_raw)
        args = [self._strip(self.eval_operand(fr, a)) for a in term.args]
        site = (fr.body.path, bb)
        ret_ty = self.place_type(fr, term.dest) if term.dest is not None else None
        # 1. user summaries, 2. builtin summaries
        for rx, fn in self.user_summaries:
            if re.search(rx, callee):
                r = fn(self, fr, callee, args, site, ret_ty)
                if r is not NotImplemented:
                    return r
        r = self.builtin(fr, callee, callee_raw, args, site, ret_ty, depth)
        if r is not NotImplemented:
            return r
        # 3. inline
        for rx, target in self.inline:
            if re.search(rx, callee):
                path = target(self, callee, args) if callable(target) else target
                if path is None:
                    continue
                if path not in self.idx.files:
                    raise Inconclusive("inline target %s not found in the MIR dump (callee %s)" % (path, callee))
                self.inlined.add(path)
                self.events.append(Event("enter", path, args, None, site))
                r = self.run_body(self.idx.body(path), args, depth + 1)
                self.events.append(Event("leave", path, [], r, site))
                return r
        # 3b. automatic inlining of repo-local helpers (robustness against "extract function" refactorings)
        if self.auto_inline is not None and depth < self.max_depth:
            path = self.auto_inline(self, callee, fr.body.path)
            if path is not None:
                self.inlined.add(path)
                self.events.append(Event("enter", path, args, None, site))
                r = self.run_body(self.idx.body(path), args, depth + 1)
                self.events.append(Event("leave", path, [], r, site))
                return r
        # 4. uninterpreted
        self.uninterpreted.add(callee)
        r = self.fresh(("ret", callee), ret_ty)
        ev = Event("call", callee, args, r, site, rargs=self.snapshot(args))
        self.events.append(ev)
        mm = re.search(r"(?:Option::(is_none|is_some)|Result::(is_ok|is_err))$", callee)
        if mm and len(args) == 1 and isinstance(r, Sym):
            # a question about the discriminant, not an unknown: the answer (still one trace event) agrees with the value's variant,
            # so two is_none() on one value agree with each other and with a later match
            d = self.discr_of(args[0])
            if d is not None:
                self.assume(r.scalar("bool") == (d == z3.IntVal({"is_none": 0, "is_some": 1, "is_ok": 0, "is_err": 1}[mm.group(1) or mm.group(2)])))
        if self.event_hook is not None:
            self.event_hook(self, ev)
        return r

    def snapshot(self, args):
        out = []
        for a in args:
            try:
                v = self.peel(a)
                if isinstance(v, Agg) and v.kind == "closure" and any(isinstance(f, Ref) and f.frame is not None for f in v.fields):
                    # captures by reference: record what they refer to now (the frame may be gone when the trace is read)
                    fs = []
                    for f in v.fields:
                        if isinstance(f, Ref) and f.frame is not None:
                            try:
                                f = Ref(val=Cell(self.deref(f)))
                            except (Inconclusive, EndPath):
                                pass
                        fs.append(f)
                    v = Agg(v.name, fs, v.variant, v.vindex, v.kind, v.body_path, v.names)
                out.append(v)
            except (Inconclusive, EndPath):
                out.append(a)
        return out

    def mk_enum(self, ty, variant, fields):
        return Agg(ty, fields, variant=variant, vindex=self.variant_index(ty, variant), kind="enum")

    def builtin(self, fr, callee, callee_raw, args, site, ret_ty, depth):
        c = callee
        # --- futures ---
        if c.endswith("as IntoFuture>::into_future") or c.endswith("Pin::new_unchecked") or c.endswith("Pin::new") \
                or c.endswith("::must_use") or c == "must_use" or c.endswith("Pin::get_mut") or c.endswith("Pin::as_mut"):
            return args[0]
        if c.endswith("future::get_context"):
            return Sym(("context",))
        if re.search(r"as (std::future::)?Future>::poll$", c):
            fut = args[0]
            for _ in range(4):
                if isinstance(fut, Ref):
                    fut = self.deref(fut)
            if isinstance(fut, Agg) and fut.kind == "coroutine" and fut.body_path:
                if fut.body_path in [t for _rx, t in self.inline if isinstance(t, str)] or \
                        (self.auto_inline is not None and fut.body_path.endswith("::{closure#0}") and
                         fut.body_path[:-len("::{closure#0}")] in self.inlined):
                    self.inlined.add(fut.body_path)
                    self.events.append(Event("enter", fut.body_path, [fut], None, site))
                    r = self.run_body(self.idx.body(fut.body_path), [fut, Sym(("resume",))], depth + 1)
                    self.events.append(Event("leave", fut.body_path, [], r, site))
                    return self.mk_enum("Poll", "Ready", [r])
                r = self.fresh(("await", fut.body_path))
                self.events.append(Event("await", fut.body_path, list(fut.fields), r, site))
                return self.mk_enum("Poll", "Ready", [r])
            src = origin(fut)
            name = "?"
            fargs = []
            if isinstance(src, Sym) and isinstance(src.tag, tuple) and src.tag[0] == "ret":
                name = src.tag[1]
                for ev in self.events:
                    if ev.ret is src:
                        fargs = ev.args
            r = self.fresh(("await", name))
            rargs = None
            for ev in self.events:
                if ev.ret is src:
                    rargs = ev.rargs
            ev = Event("await", name, fargs, r, site, rargs=rargs)
            self.events.append(ev)
            if self.event_hook is not None:
                self.event_hook(self, ev)
            return self.mk_enum("Poll", "Ready", [r])
        # --- origin-preserving conversions ---
        m = re.search(r"(?:as (?:std::)?(?:clone::)?Clone>::clone|as ToOwned>::to_owned|as Borrow<[^>]*>>::borrow|as AsRef<[^>]*>>::as_ref|"
                      r"as Deref>::deref|as DerefMut>::deref_mut|String::as_str|as Into<[^>]*>>::into$|as From<[^>]*>>::from$|"
                      r"as ToString>::to_string|String::as_mut_str|OsString::as_os_str|PathBuf::as_path|Box::<?.*>?::new$|^Box::new$|"
                      r"as IntoIterator>::into_iter$)", c)
        if m and len(args) == 1:
            a = args[0]
            inner = a
            if isinstance(a, Ref):
                inner = self.deref(a)
            if c.endswith("::clone") or c.endswith("to_owned"):
                return inner
            if c.endswith("Box::new") or re.search(r"Box::new$", c):
                return Ref(val=Cell(inner))
            if c.endswith("as ToString>::to_string") or c.endswith("::into") or c.endswith("::from"):
                if isinstance(inner, StrV):
                    return inner
                return self.conv(c.split("::")[-1], inner)
            return a if isinstance(a, Ref) else inner
        # --- Option/Result views: as_ref / as_mut / as_deref give the same variant over references to the same payload ---
        if re.search(r"(Option|Result)(<.*>)?::(as_ref|as_mut|as_deref|as_deref_mut)$", c) and len(args) == 1:
            a = args[0]
            inner = self.deref(a) if isinstance(a, Ref) else a
            if isinstance(inner, (Agg, Sym)):
                return inner
        # --- string equality ---
        m = re.match(r"<(.*) as PartialEq(?:<(.*)>)?>::(eq|ne)$", c)
        if m and len(args) == 2:
            la, lb = self.peel(args[0]), self.peel(args[1])
            lt = m.group(1)
            if any(isinstance(x, StrV) for x in (la, lb)) or base_type_name(lt) in ("String", "str", "OsString", "OsStr", "PathBuf", "Path"):
                ea, eb = self.to_str(la), self.to_str(lb)
                e = ea == eb
                res = Scalar(e if m.group(3) == "eq" else z3.Not(e))
                self.events.append(Event("streq", c, [la, lb], res, site, extra=e, rargs=[la, lb]))     # extra: the equality term, whether the source wrote == or !=
                return res
            # field-less enum equality: compare discriminants when a derived impl exists in the dump
            tn = base_type_name(lt)
            if tn in self.opaque_eq_types:
                oa, ob = self.opaque_id(la), self.opaque_id(lb)
                if oa is not None and ob is not None:
                    e = oa == ob
                    return Scalar(e if m.group(3) == "eq" else z3.Not(e))
            if tn in self.enums and tn in FIELDLESS:
                da, db = self.discr_of(la), self.discr_of(lb)
                if da is not None and db is not None:
                    e = da == db
                    return Scalar(e if m.group(3) == "eq" else z3.Not(e))
            return NotImplemented
        # --- Try / ? ---
        if c.endswith("as Try>::branch") and len(args) == 1:
            v = args[0]
            tyn = base_type_name(re.match(r"<(.*) as Try>", c).group(1)) if re.match(r"<(.*) as Try>", c) else "Result"
            if tyn == "Result":
                if isinstance(v, Agg) and v.variant in ("Ok", "Err"):
                    if v.variant == "Ok":
                        return self.mk_enum("ControlFlow", "Continue", [v.fields[0]])
                    return self.mk_enum("ControlFlow", "Break", [self.mk_enum("Result", "Err", [v.fields[0]])])
                if isinstance(v, Sym):
                    lab = self.choose([("try-ok", v.discr() == 0), ("try-err", v.discr() == 1)])
                    if lab == "try-ok":
                        return self.mk_enum("ControlFlow", "Continue", [v.child(("v", "Ok", 0))])
                    return self.mk_enum("ControlFlow", "Break", [self.mk_enum("Result", "Err", [v.child(("v", "Err", 0))])])
            if tyn == "Option":
                if isinstance(v, Agg) and v.variant in ("Some", "None"):
                    if v.variant == "Some":
                        return self.mk_enum("ControlFlow", "Continue", [v.fields[0]])
                    return self.mk_enum("ControlFlow", "Break", [self.mk_enum("Option", "None", [])])
                if isinstance(v, Sym):
                    lab = self.choose([("try-some", v.discr() == 1), ("try-none", v.discr() == 0)])
                    if lab == "try-some":
                        return self.mk_enum("ControlFlow", "Continue", [v.child(("v", "Some", 0))])
                    return self.mk_enum("ControlFlow", "Break", [self.mk_enum("Option", "None", [])])
            return NotImplemented
        if c.endswith("as FromResidual<Result<Infallible, E>>>::from_residual") or re.search(r"FromResidual<.*>>::from_residual$", c):
            v = args[0]
            if isinstance(v, Agg) and v.variant == "Err":
                return self.mk_enum("Result", "Err", [self.conv("from", v.fields[0])])
            if isinstance(v, Agg) and v.variant == "None":
                return v
            return NotImplemented
        # --- operations that can panic on text: slicing, truncate (char boundaries), unwrap of a symbolic Option/Result ---
        if re.search(r"(String|str)::len$", c) and len(args) == 1:
            return Scalar(self.len_of(args[0]))
        if re.search(r"(^|::)Vec::len$|slice::<impl \[T\]>::len$|\[T\]>::len$", c) and len(args) == 1:
            res = Scalar(self.len_of(args[0]))      # len() of an unmodified vector is one value, however often it is read
            ev = Event("len", c, args, res, site, rargs=self.snapshot(args))
            self.events.append(ev)
            if self.event_hook is not None:
                self.event_hook(self, ev)
            return res
        if re.search(r"str::is_char_boundary$|String::is_char_boundary$", c) and len(args) == 2:
            return Scalar(self.boundary(args[0], self.to_z3(args[1], "usize")))
        if re.search(r"(str|String)::floor_char_boundary$", c) and len(args) == 2:
            n = self.to_z3(args[1], "usize")
            m_ = z3.BitVec("floor%d" % next(_ids), 64)
            self.assume(z3.And(z3.ULE(m_, n), self.boundary(args[0], m_), z3.ULE(m_, self.len_of(args[0]))))
            return Scalar(m_)
        mi = re.match(r"<(?:std::string::)?(String|str) as (?:std::ops::)?Index(?:Mut)?<(?:std::ops::)?(RangeTo|Range|RangeFrom|RangeInclusive|RangeToInclusive)<usize>>>::index(?:_mut)?$", c)
        if mi and len(args) == 2:
            s_, rg = args[0], self.peel(args[1])
            ln = self.len_of(s_)
            conds = []
            if isinstance(rg, Agg):
                f = rg.fields
                if mi.group(2) == "RangeTo":
                    e_ = self.to_z3(f[0], "usize"); conds = [z3.ULE(e_, ln), self.boundary(s_, e_)]
                elif mi.group(2) == "Range":
                    a_, e_ = self.to_z3(f[0], "usize"), self.to_z3(f[1], "usize")
                    conds = [z3.ULE(a_, e_), z3.ULE(e_, ln), self.boundary(s_, a_), self.boundary(s_, e_)]
                elif mi.group(2) == "RangeFrom":
                    a_ = self.to_z3(f[0], "usize"); conds = [z3.ULE(a_, ln), self.boundary(s_, a_)]
            if conds:
                ok = z3.And(conds)
                lab = self.choose([("slice-ok", ok), ("slice-panic", z3.Not(ok))])
                if lab == "slice-panic":
                    self.events.append(Event("panic", c, args, None, site, extra="byte index is not a char boundary / out of range"))
                    raise EndPath("panic", "string slice " + c.split("::")[-1])
                return self.conv("slice", self.peel(s_))
        mv = re.match(r"<(?:std::vec::)?(?:Vec<.*>|\[.*\]) as (?:std::ops::)?Index(?:Mut)?<(?:std::ops::)?(RangeTo|Range|RangeFrom|RangeFull|RangeInclusive|RangeToInclusive)<usize>>>::index(?:_mut)?$", c)
        if mv and len(args) == 2:
            s_, rg = args[0], self.peel(args[1])
            ln = self.len_of(s_)
            conds = None
            if isinstance(rg, Agg):
                f = rg.fields
                if mv.group(1) == "RangeTo":
                    conds = [z3.ULE(self.to_z3(f[0], "usize"), ln)]
                elif mv.group(1) == "Range":
                    a_, e_ = self.to_z3(f[0], "usize"), self.to_z3(f[1], "usize")
                    conds = [z3.ULE(a_, e_), z3.ULE(e_, ln)]
                elif mv.group(1) == "RangeFrom":
                    conds = [z3.ULE(self.to_z3(f[0], "usize"), ln)]
                elif mv.group(1) == "RangeToInclusive":
                    conds = [z3.ULT(self.to_z3(f[0], "usize"), ln)]
            if conds:
                ok = z3.And(conds)
                lab = self.choose([("range-ok", ok), ("range-panic", z3.Not(ok))])
                if lab == "range-panic":
                    self.events.append(Event("panic", c, args, None, site, extra="range out of bounds"))
                    raise EndPath("panic", "slice range " + c.split("::")[-1])
                return self.conv("subslice", self.peel(s_))
        if re.search(r"String::truncate$", c) and len(args) == 2:
            n = self.to_z3(args[1], "usize")
            ok = z3.Or(z3.UGT(n, self.len_of(args[0])), self.boundary(args[0], n))
            lab = self.choose([("truncate-ok", ok), ("truncate-panic", z3.Not(ok))])
            if lab == "truncate-panic":
                self.events.append(Event("panic", c, args, None, site, extra="new_len is not a char boundary"))
                raise EndPath("panic", "String::truncate")
            return Agg("()", [], kind="tuple")
        mu = re.search(r"(Result|Option)::(unwrap|expect)$", c)
        if mu and args and isinstance(self.peel(args[0]) if isinstance(args[0], Ref) else args[0], Sym):
            v = self.peel(args[0]) if isinstance(args[0], Ref) else args[0]
            okd = 0 if mu.group(1) == "Result" else 1
            lab = self.choose([("unwrap-ok", v.discr() == okd), ("unwrap-panic", v.discr() == 1 - okd)])
            if lab == "unwrap-panic":
                self.events.append(Event("panic", c, args, None, site, extra="unwrap on Err/None"))
                raise EndPath("panic", "unwrap on " + ("Err" if okd == 0 else "None"))
            return v.child(("v", "Ok" if okd == 0 else "Some", 0))
        # --- Option/Result combinators on values whose variant is known ---
        m = re.search(r"(?:Result|Option)::(unwrap_or|unwrap_or_default|unwrap|expect|ok|unwrap_or_else)$", c)
        if m and args and isinstance(self.peel(args[0]) if isinstance(args[0], Ref) else args[0], Agg):
            v = self.peel(args[0]) if isinstance(args[0], Ref) else args[0]
            op = m.group(1)
            if v.variant in ("Ok", "Some") and v.fields:
                if op == "ok":
                    return self.mk_enum("Option", "Some", [v.fields[0]])
                return v.fields[0]
            if v.variant in ("Err", "None"):
                if op == "unwrap_or" and len(args) > 1:
                    return args[1]
                if op == "ok":
                    return self.mk_enum("Option", "None", [])
        # --- byte-order conversions of a single byte are the identity ---
        if re.search(r"core::num::(to_be|to_le|from_be|from_le|swap_bytes)$", c) and len(args) == 1 and (ret_ty or "").strip() in ("u8", "i8"):
            return args[0]
        # --- Iterator::any / all with a closure whose body is in the dump: the loop `for x in it { if f(x) {..} }` it abbreviates,
        #     unrolled up to the loop bound, with the same `next` events a written-out loop produces ---
        ma = re.search(r"as Iterator>::(any|all)$", c)
        if ma and len(args) == 2:
            clos = args[1]
            if isinstance(clos, Ref):
                try:
                    clos = self.deref(clos)
                except (Inconclusive, EndPath):
                    clos = None
            if isinstance(clos, Agg) and clos.kind == "closure" and clos.body_path and clos.body_path in self.idx.files:
                want = ma.group(1) == "any"
                self.inlined.add(clos.body_path)
                for _k in range(self.loop_bound + 1):
                    nx = self.fresh(("ret", c.rsplit("::", 1)[0] + "::next"))
                    ev = Event("call", c.rsplit("::", 1)[0] + "::next", [args[0]], nx, site, rargs=self.snapshot([args[0]]))
                    self.events.append(ev)
                    if self.event_hook is not None:
                        self.event_hook(self, ev)
                    lab = self.choose([("iter-some", nx.discr() == 1), ("iter-none", nx.discr() == 0)])
                    if lab == "iter-none":
                        return Scalar(z3.BoolVal(not want))
                    res = self.run_body(self.idx.body(clos.body_path), [Ref(val=Cell(clos)), nx.child(("v", "Some", 0))], depth + 1)
                    cond = self.to_bool(res)
                    lab = self.choose([("pred-true", cond), ("pred-false", z3.Not(cond))])
                    if (lab == "pred-true") == want:
                        return Scalar(z3.BoolVal(want))
                raise EndPath("cut", "loop bound %d exceeded in Iterator::%s" % (self.loop_bound, ma.group(1)))
        # --- Result::map_err / Option::ok_or on symbolic values: the variant and the Ok payload are preserved ---
        if re.search(r"Result::map_err$", c) and args and isinstance(args[0], Sym):
            r0 = args[0]
            return Sym(("conv", "map_err", r0), over={"discr": r0.discr(), ("v", "Ok", 0): r0.child(("v", "Ok", 0))})
        # --- formatting / logging: no semantic effect tracked, keep argument origins for data-flow checks ---
        if c.endswith("Argument::new_display") or c.endswith("Argument::new_debug") or c.endswith("Argument::new_lower_hex"):
            return Agg("fmt::Argument", [self.peel(args[0])], kind="struct")
        if re.search(r"Arguments::new(_const|_v1)?$", c) or c.endswith("Arguments::from_str"):
            return Agg("fmt::Arguments", [self.peel(a) for a in args], kind="struct")
        if c in ("std::fmt::format", "format", "alloc::fmt::format") or c.endswith("fmt::format"):
            return Agg("fmt::Formatted", [self.peel(a) for a in args], kind="struct")
        return NotImplemented

    def len_of(self, v):
        """usize length of a string / slice value (one variable per value)"""
        o = origin(self.peel(v))
        key = ("len", o.id if isinstance(o, (Sym, Agg)) else id(o))
        if key not in self.convs:
            if isinstance(o, StrV):
                self.convs[key] = z3.BitVecVal(len(o.e.as_string().encode("utf-8")), 64)
            else:
                self.convs[key] = z3.BitVec("len%d" % next(_ids), 64)
        return self.convs[key]

    def boundary(self, v, n):
        """is_char_boundary(v, n) as an uninterpreted predicate over (value, offset); offsets 0 and len are boundaries"""
        o = origin(self.peel(v))
        sid = o.id if isinstance(o, (Sym, Agg)) else id(o)
        f = z3.Function("char_boundary", z3.IntSort(), z3.BitVecSort(64), z3.BoolSort())
        ln = self.len_of(v)
        return z3.Or(n == 0, n == ln, z3.And(z3.ULT(n, ln), f(z3.IntVal(sid), n)))

    def opaque_id(self, v):
        """Integer identity of a value of an opaque value type (http::Method, StatusCode, ...): distinct named
        constants are distinct integers, a symbolic value is an integer variable."""
        v = self.peel(v)
        o = origin(v)
        if isinstance(o, ConstV):
            key = ("opaque", o.text.split("::")[-1])
            if key not in self.const_cache:
                self.const_cache[key] = z3.IntVal(1000 + len([k for k in self.const_cache if isinstance(k, tuple) and k[0] == "opaque"]))
            return self.const_cache[key]
        if isinstance(o, Sym):
            return o.discr()
        return None

    def peel(self, v):
        for _ in range(6):
            if isinstance(v, Ref):
                v = self.deref(v)
            else:
                break
        return v

    def to_str(self, v):
        v = self.peel(v)
        if isinstance(v, StrV):
            return v.e
        o = origin(v)
        if isinstance(o, StrV):
            return o.e
        if isinstance(v, Sym):
            return v.string()
        raise Inconclusive("not a string: %r" % (v,))

    def discr_of(self, v):
        v = self.peel(v)
        if isinstance(v, Agg) and v.vindex is not None:
            return z3.IntVal(v.vindex)
        if isinstance(v, Sym):
            return v.discr()
        if isinstance(v, ConstV):
            parts = v.text.split("::")
            if len(parts) >= 2:
                ix = self.variant_index(parts[-2], parts[-1])
                if ix is not None:
                    return z3.IntVal(ix)
        return None


class _Down:
    """Transient view: enum value downcast to a variant."""

    def __init__(self, v, variant):
        self.v, self.variant = v, variant


# ------------------------------------------------------------------------------------------------
def fmt_leaves(v, out=None, depth=0):
    """All values reachable through fmt::Arguments/Formatted/Argument/tuple/array/ref structure (data-flow of format!)."""
    if out is None:
        out = []
    if depth > 12:
        return out
    if isinstance(v, Agg) and (v.name.startswith("fmt::") or v.kind in ("tuple", "array")):
        for f in v.fields:
            fmt_leaves(f, out, depth + 1)
    elif isinstance(v, Ref) and v.frame is None:
        fmt_leaves(v.val.v if isinstance(v.val, Cell) else v.val, out, depth + 1)
    else:
        out.append(v)
    return out


FIELDLESS = {"Ordering"}      # enums whose equality is equality of discriminants


def scan_enums(src_dirs):
    """{EnumName: [variants]} for field-less-or-not enums declared in the given source trees (no explicit discriminants)."""
    import os
    enums = {}
    for d in src_dirs:
        for root, _dirs, files in os.walk(d):
            for f in files:
                if not f.endswith(".rs"):
                    continue
                try:
                    txt = open(os.path.join(root, f), errors="replace").read()
                except OSError:
                    continue
                for m in re.finditer(r"\benum\s+(\w+)\s*(?:<[^>{]*>)?\s*\{", txt):
                    start = m.end() - 1
                    try:
                        end = find_matching(txt, start)
                    except MirError:
                        continue
                    body = re.sub(r"//[^\n]*", "", txt[start + 1:end])
                    body = re.sub(r"#\[[^\]]*\]", "", body)
                    vs = []
                    ok = True
                    unit = True
                    for part in split_top(body):
                        mm = re.match(r"\s*(\w+)", part)
                        if not mm:
                            continue
                        if re.match(r"\s*\w+\s*=", part):
                            ok = False
                        if not re.match(r"\s*\w+\s*$", part):
                            unit = False
                        vs.append(mm.group(1))
                    if ok and vs:
                        if m.group(1) not in enums:
                            enums[m.group(1)] = vs
                            if unit:
                                FIELDLESS.add(m.group(1))
    return enums


# ------------------------------------------------------------------------------------------------
_impl_cache = {}


def impl_info(src_root, path):
    """(trait or None, self type) of the `<impl at file:L:C: L:C>` segment of a body path, read from the source."""
    m = re.search(r"<impl at ([^:>]+):(\d+):(\d+): (\d+):(\d+)>", path)
    if not m:
        return None
    key = (src_root, m.group(1), m.group(2))
    if key in _impl_cache:
        return _impl_cache[key]
    res = None
    try:
        import os
        lines = open(os.path.join(src_root, m.group(1)), errors="replace").read().split("\n")
        txt = " ".join(lines[int(m.group(2)) - 1:int(m.group(2)) + 2])
        txt = txt[int(m.group(3)) - 1:]
        mm = re.match(r"impl(?:\s*<[^>]*>)?\s+(?:([\w:]+)(?:<[^>]*>)?\s+for\s+)?([\w:]+)", txt)
        if mm:
            res = (mm.group(1).split("::")[-1] if mm.group(1) else None, mm.group(2).split("::")[-1])
    except OSError:
        res = None
    _impl_cache[key] = res
    return res


def find_method(idx, src_root, type_name, method, trait=None):
    """Body paths of `impl [trait for] type_name { fn method }`."""
    out = []
    for p in idx.files:
        if not p.endswith("::" + method):
            continue
        info = impl_info(src_root, p)
        if info and info[1] == type_name and (trait is None or info[0] == trait):
            out.append(p)
    return out


def dyn_dispatch(src_root, trait, method):
    """inline-target resolver for `<dyn Trait as Trait>::method`: the receiver's concrete type decides."""
    def resolve(engine, callee, args):
        recv = engine.peel(args[0])
        if isinstance(recv, Agg):
            c = find_method(engine.idx, src_root, recv.name, method, trait)
            if len(c) == 1:
                return c[0]
            raise Inconclusive("dyn dispatch: %d impls of %s::%s for %s" % (len(c), trait, method, recv.name))
        raise Inconclusive("dyn dispatch on a value of unknown concrete type: %r" % (recv,))
    return resolve
