"""C07 single-use attribution (engine M). Sequential histories by induction; schedules are outside (DESIGN.md 4/C07)."""
from mcommon import *
from p_c08 import derives, implied


def pure(engine, fr, callee, args, site, ret_ty):
    return engine.conv(callee.split("::")[-1], engine.peel(args[0]))


def check_claims_unit(rep, ctx):
    """'caller claims ... derive from that record': what Claims::from_audit_entry (left uninterpreted above) makes of the record -
    elevated exactly when the kernel's is_admin is 1, the user id is the record's logon id and is the one looked up, the process is the
    record's process id"""
    try:
        w = ctx.method("Claims", "from_audit_entry") + "::{closure#0}"
    except Inconclusive as ex:
        rep.add(Query("Claims::from_audit_entry located", "inconclusive", str(ex), 0, "mirsym", key="C07.claims-unit"))
        return
    f = {n: ctx.field("AuditEntry", n) for n in ("logon_id", "process_id", "is_admin")}
    c = {n: ctx.field("Claims", n) for n in ("userId", "processId", "runAsElevated", "userName", "processFullPath", "processCmdLine", "processName", "clientIp", "clientPort")}
    acc = [(r"AuditEntry::%s$" % p_.split("::")[-1], p_) for p_ in ctx.idx.files if re.search(r"redirector::<impl[^>]*>::\w+$", p_) and p_.split("::")[-1] in ("is_admin", "is_elevated", "is_root", "elevated")]
    eng = ctx.engine(loop_bound=1, inline=acc)
    eng.auto_inline = ctx.new_function_auto()           # an accessor introduced for the elevation bit is looked into, not taken on trust
    n = 0
    for i, r in enumerate(eng.explore(w)):
        if not (r.status == "return" and isinstance(r.ret, Agg) and r.ret.variant == "Ok"):
            continue
        cl = r.ret.fields[0]
        if not isinstance(cl, Agg):
            rep.add(Query("from_audit_entry path %d: claims value is built in place" % i, "inconclusive", repr(cl)[:80], 0, "mirsym", key="C07.claims-unit"))
            continue
        n += 1
        env = origin(r.args[0])
        entry = env.child(("f", 0)).child("*")
        adm = entry.child(("f", f["is_admin"]))
        el = cl.fields[c["runAsElevated"]]
        ok_el = isinstance(el, Scalar)
        if ok_el:
            av = adm.scalar("i32")
            # every value of the word: the Linux program writes 0 or 1, the Windows program (ebpf/redirect.bpf.c) leaves the negative error
            # code of a failed admin lookup in the record - anything but 1 is "not elevated" (fail closed)
            rs, _m, _dt, _zm = check_sat(r.pc + [el.e != (av == z3.BitVecVal(1, 32))])
            ok_el = rs == "unsat"
        rep.add(Query("from_audit_entry path %d: runAsElevated <=> the record's is_admin is exactly 1 (all 2^32 values; a failed lookup leaves a negative value on Windows)" % i, "holds" if ok_el else "violated", repr(el)[:80], 0, "mirsym+z3", key="C07.claims-unit.elevated", reproduced=None))
        gu = [e for e in r.events if e.kind == "await" and e.callee.endswith("get_user")]
        fp = [e for e in r.events if e.kind == "call" and e.callee.endswith("from_pid")]
        ok_id = same_origin(cl.fields[c["userId"]], entry.child(("f", f["logon_id"]))) and len(gu) == 1 and same_origin(gu[0].rargs[0], entry.child(("f", f["logon_id"]))) and \
            derives(cl.fields[c["userName"]], gu[0].ret, r.events)
        rep.add(Query("from_audit_entry path %d: user id = the record's logon id, user name / groups from the lookup of that id" % i, "holds" if ok_id else "violated", "", 0, "mirsym", key="C07.claims-unit.user", reproduced=None))
        ok_p = len(fp) == 1 and same_origin(fp[0].rargs[0], entry.child(("f", f["process_id"]))) and all(derives(cl.fields[c[k]], fp[0].ret, r.events) for k in ("processId", "processFullPath", "processCmdLine", "processName"))
        rep.add(Query("from_audit_entry path %d: process id, path, name and command line come from the record's process id" % i, "holds" if ok_p else "violated", "", 0, "mirsym", key="C07.claims-unit.process", reproduced=None))
        ok_c = derives(cl.fields[c["clientIp"]], env.child(("f", 1)), r.events) and same_origin(cl.fields[c["clientPort"]], env.child(("f", 2)))
        rep.add(Query("from_audit_entry path %d: client address = the accepted socket's peer" % i, "holds" if ok_c else "violated", "", 0, "mirsym", key="C07.claims-unit.client", reproduced=None))
    rep.functions_encoded.append(w)
    rep.add(Query("witness: from_audit_entry has a succeeding path", "witness-hit" if n else "witness-missed", "%d" % n, 0, "mirsym"))


def check_map_ops_unit(rep, ctx):
    """lookup and removal use the SAME key, built from the port they are given: BpfObject::lookup_audit(port) reads audit_map[key(port)] and
    returns that value's fields; BpfObject::remove_audit_map_entry(port) reports success only after audit_map.remove(key(port))"""
    for fn, op in (("lookup_audit", r"HashMap.*::get$"), ("remove_audit_map_entry", r"HashMap.*::remove$")):
        try:
            w = ctx.method("BpfObject", fn)
        except Inconclusive as ex:
            rep.add(Query("BpfObject::%s located" % fn, "inconclusive", str(ex), 0, "mirsym", key="C07.map-ops:" + fn))
            continue
        eng = ctx.engine(loop_bound=1)
        eng.auto_inline = ctx.new_function_auto()
        n = 0
        for i, r in enumerate(eng.explore(w)):
            if not (r.status == "return" and isinstance(r.ret, Agg) and r.ret.variant == "Ok"):
                continue
            n += 1
            ev = r.events
            ops = [e for e in ev if e.kind == "call" and re.search(op, e.callee)]
            fk = [e for e in ev if e.kind == "call" and e.callee.endswith("from_source_port")]
            ta = [e for e in ev if e.kind == "call" and e.callee.endswith("to_array")]
            mp = [e for e in ev if e.kind == "call" and re.search(r"::map(_mut)?$", e.callee)]
            ok = len(ops) == 1 and len(fk) >= 1 and same_origin(fk[0].rargs[0], r.args[1]) and any(t.ret is origin(ops[0].rargs[1]) and t.rargs[0] is fk[0].ret or (t.ret is origin(ops[0].rargs[1]) and same_origin(t.rargs[0], fk[0].ret)) for t in ta) and \
                bool(mp) and isinstance(origin(mp[0].rargs[1]), StrV) and origin(mp[0].rargs[1]).e.as_string() == "audit_map" and implied(r, ops[0].ret.discr() != 1)
            detail = "%d map operation(s) of the expected kind; key from the given port: %s" % (len(ops), bool(fk) and same_origin(fk[0].rargs[0], r.args[1]))
            if ok and fn == "lookup_audit":
                fa = [e for e in ev if e.kind == "call" and e.callee.endswith("from_array")]
                ok = len(fa) == 1 and derives(fa[0].rargs[0], ops[0].ret, ev) and isinstance(r.ret.fields[0], Agg) and all(isinstance(f, Scalar) or derives(f, fa[0].ret, ev) for f in r.ret.fields[0].fields)      # (numeric fields are casts of the value's fields: scalars)
                detail += "; every field of the returned record comes from the value read: %s" % ok
            rep.add(Query("%s path %d: success <= exactly one audit_map %s under the key of the given source port" % (fn, i, "read" if fn == "lookup_audit" else "delete"), "holds" if ok else "violated", detail, 0,
                          "mirsym+z3", key="C07.map-ops:" + fn, reproduced=None))
        rep.functions_encoded.append(w)
        rep.add(Query("witness: %s has a succeeding path" % fn, "witness-hit" if n else "witness-missed", "%d" % n, 0, "mirsym"))


def check_sender_unit(rep, ctx):
    """the upstream connection of an attributed accept goes where the record says: build_http_sender(host, port) connects to exactly
    "<host>:<port>" of its arguments and hands back the sender of the handshake on that stream"""
    c = [p for p in ctx.idx.files if re.search(r"hyper_client::build_http_sender::\{closure#0\}$", p)]
    if len(c) != 1:
        rep.add(Query("build_http_sender located", "inconclusive", "%d candidates" % len(c), 0, "mirsym", key="C07.sender-unit"))
        return
    eng = ctx.engine(loop_bound=1)
    n = 0
    for i, r in enumerate(eng.explore(c[0])):
        if not (r.status == "return" and isinstance(r.ret, Agg) and r.ret.variant == "Ok"):
            continue
        n += 1
        env = origin(r.args[0])
        ev = r.events
        cn = [e for e in ev if e.kind == "await" and re.search(r"TcpStream::connect$", e.callee)]
        hs = [e for e in ev if e.kind == "await" and re.search(r"http1::handshake$|(^|::)handshake$", e.callee)]
        ok = len(cn) == 1 and len(hs) == 1
        detail = "connect %d, handshake %d" % (len(cn), len(hs))
        if ok:
            addr = origin(cn[0].rargs[0])
            leaves = [origin(l) for l in fmt_leaves(addr) if not isinstance(origin(l), (StrV, ConstV))]
            from_args = len(leaves) == 2 and all(isinstance(l, Sym) and is_part_of(l, env) for l in leaves)
            lits = [origin(l).e.as_string() for l in fmt_leaves(cn[0].rargs[0]) if isinstance(origin(l), StrV)]
            io = [e for e in ev if e.kind == "call" and e.callee.endswith("TokioIo::new") and e.ret is origin(hs[0].rargs[0])]
            on_stream = derives(hs[0].rargs[0], cn[0].ret, ev) or (bool(io) and derives(io[0].rargs[0], cn[0].ret, ev))
            ok = from_args and on_stream and derives(r.ret.fields[0], hs[0].ret, ev)
            detail = "address formatted from %d argument value(s); the sender returned comes from the handshake on that stream: %s" % (len(leaves), ok)
        rep.add(Query("build_http_sender path %d: connects to \"<host>:<port>\" of its arguments and returns that connection's sender" % i, "holds" if ok else "violated", detail, 0, "mirsym", key="C07.sender-unit", reproduced=None))
    rep.functions_encoded.append(c[0])
    rep.add(Query("witness: build_http_sender has a succeeding path", "witness-hit" if n else "witness-missed", "%d" % n, 0, "mirsym"))


def check(rep, tier, seed):
    ctx = Ctx("agent")
    rep.extra["mir_dump"] = {"cache_hit": ctx.dump.cache_hit, "tree_hash": ctx.dump.hash, "seconds": round(ctx.dump.seconds, 1)}
    w = ctx.method("TcpConnectionContext", "new")
    g = ctx.method("TcpConnectionContext", "get_audit_entry")
    e0 = ctx.engine(); e0._reset([])
    wb = ctx.idx.body(w)
    co = e0.run_body(wb, [Sym(("arg", i + 1)) for i in range(wb.nargs)], 0)
    cap = {n: i for i, n in enumerate(co.names)}
    eng = ctx.engine(inline=[(r"TcpConnectionContext::get_audit_entry$", g), (r"^\b$", g + "::{closure#0}")],
                     summaries=[(r"AuditEntry::(destination_ipv4_addr|destination_port_in_host_byte_order)$", pure)])
    paths = eng.explore(w + "::{closure#0}")
    rep.functions_encoded += [w + "::{closure#0}"] + sorted(eng.inlined)
    rep.extra["states"] = eng.stats["blocks"]
    rep.extra["transitions"] = eng.stats["blocks"] + eng.solver_calls
    rep.stubs.append("AuditEntry::destination_ipv4_addr / destination_port_in_host_byte_order treated as pure functions of the entry (checked for all values by Kani under C06)")
    n_ok = n_err = 0

    def ob(i, name, ok, key, detail=""):
        qn = "new() path %d: %s" % (i, name)
        if ok:
            rep.add(Query(qn, "holds", detail, 0, "mirsym", key=key))
        else:
            rep.add(Query(qn, "violated", detail, 0, "mirsym", key=key, reproduced=None,
                          replay=save_replay("C07", "new_path%d_%s.json" % (i, re.sub(r"\W+", "_", key)), json.dumps({"obligation": name, "detail": detail}, indent=1))))
    for i, r in enumerate(paths):
        if r.status != "return":
            rep.add(Query("new() path %d completes" % i, "inconclusive", r.status + ": " + r.note, 0, "mirsym"))
            continue
        a = r.args[0]
        client_addr = a.child(("f", cap["client_addr"]))
        la = [e for e in r.events if e.kind == "await" and e.callee.endswith("lookup_audit")]
        ra = [e for e in r.events if e.kind == "await" and e.callee.endswith("remove_audit")]
        bs = [e for e in r.events if e.kind == "await" and e.callee.endswith("build_http_sender")]
        fa = [e for e in r.events if e.kind == "await" and e.callee.endswith("Claims::from_audit_entry")]
        ret = r.ret
        if not (isinstance(ret, Agg) and ret.names and len(la) == 1):
            ob(i, "shape: one lookup_audit, returns a TcpConnectionContext aggregate", False, "C07.shape", "lookups=%d ret=%r" % (len(la), ret))
            continue
        f = dict(zip(ret.names, ret.fields))
        la = la[0]
        port = la.rargs[0]
        po = origin(port)
        port_is_clients = isinstance(po, Sym) and po.tag[0] == "ret" and po.tag[1].endswith("SocketAddr::port") and \
            any(e.ret is po and is_part_of(e.rargs[0], a, [("f", cap["client_addr"])]) or (e.ret is po and same_origin(e.rargs[0], client_addr)) for e in r.events)
        ob(i, "the record is looked up under the accepted connection's source port", port_is_clients, "C07.lookup-port", repr(port))
        rs, _m, _dt, _zm = check_sat(r.pc + [la.ret.discr() == 0])
        is_ok = rs == "sat"
        if is_ok:
            n_ok += 1
            entry = la.ret.child(("v", "Ok", 0))
            ok_rm = len(ra) == 1 and same_origin(ra[0].rargs[0], port) and r.events.index(ra[0]) > r.events.index(la)
            ob(i, "attributed accept consumes the record: remove_audit(same port) follows the successful lookup", ok_rm, "C07.consume", "removes=%d" % len(ra))
            cl = f.get("claims")
            ok_claims = isinstance(cl, Agg) and (cl.variant == "None" or (cl.variant == "Some" and len(fa) == 1 and is_part_of(cl.fields[0], fa[0].ret, [("v", "Ok", 0)])
                                                                         and same_origin(fa[0].rargs[0], entry)))
            ob(i, "claims are None or computed from this connection's own record", ok_claims, "C07.claims-source", repr(cl)[:200])
            di = f.get("destination_ip")
            ok_ip = isinstance(di, Agg) and di.variant == "Some" and isinstance(origin(di.fields[0]), Sym) and di.fields[0].tag[:2] == ("conv", "destination_ipv4_addr") \
                and same_origin(di.fields[0].tag[2], entry)
            ob(i, "destination_ip is the record's destination address", ok_ip, "C07.destination-ip", repr(di)[:200])
            dp = f.get("destination_port")
            ok_port = isinstance(dp, Sym) and dp.tag[:2] == ("conv", "destination_port_in_host_byte_order") and same_origin(dp.tag[2], entry)
            ob(i, "destination_port is the record's destination port (host order)", ok_port, "C07.destination-port", repr(dp)[:200])
            if bs:
                names, base = conv_chain(bs[0].rargs[0])
                ok_host = "destination_ipv4_addr" in names and same_origin(base, entry) and bs[0].rargs[1] is dp
                ob(i, "the upstream connection is opened to the record's destination (the same one used for authorization)", ok_host, "C07.sender-host", repr(bs[0].rargs[:2])[:300])
            else:
                ob(i, "an attributed accept opens the upstream connection", False, "C07.sender-host", "no build_http_sender")
        else:
            n_err += 1
            cl, di = f.get("claims"), f.get("destination_ip")
            ok = isinstance(cl, Agg) and cl.variant == "None" and isinstance(di, Agg) and di.variant == "None" and not bs and not fa
            ob(i, "no record => claims None, destination None, no upstream connection (handler answers 421, C01)", ok, "C07.unattributed", "claims=%r dest=%r senders=%d" % (cl, di, len(bs)))
            sd = f.get("sender")
            ob(i, "no record => sender is Err", isinstance(sd, Agg) and sd.variant == "Err", "C07.unattributed-sender", repr(sd)[:120])
    rep.add(Query("witness: new() has attributed and unattributed paths", "witness-hit" if n_ok and n_err else "witness-missed", "%d/%d" % (n_ok, n_err), 0, "mirsym+z3"))

    # per-request context = clone of the connection's context
    base = ctx.method("ProxyServer", "handle_new_tcp_connection")
    inner = [p for p in ctx.idx.files if p.startswith(base + "::") and "handle_new_http_request" in open(ctx.idx.files[p], errors="replace").read()]
    found = False
    for p in inner:
        e3 = ctx.engine()
        for r in e3.explore(p):
            hs = [e for e in r.events if e.kind == "call" and e.callee.endswith("handle_new_http_request")]
            for h in hs:
                found = True
                ok = len(h.rargs) == 3 and is_part_of(h.rargs[2], r.args[0])
                rep.add(Query("request closure %s: handle_new_http_request receives (a clone of) the closure's captured connection context" % p.split("::")[-1],
                              "holds" if ok else "violated", repr(h.rargs[2])[:160], 0, "mirsym", key="C07.per-request-context", reproduced=None))
        rep.functions_encoded.append(p)
    if not found:
        rep.add(Query("locate the per-request closure", "inconclusive", "no closure of handle_new_tcp_connection calls handle_new_http_request", 0, "mirsym"))
    # the captured context is the one returned by TcpConnectionContext::new for this accept
    spawn = [p for p in ctx.idx.files if p.startswith(base + "::") and "TcpConnectionContext::new" in open(ctx.idx.files[p], errors="replace").read()]
    okc, not_captured = False, []
    for p in spawn:
        e4 = ctx.engine()
        for i4, r in enumerate(e4.explore(p)):
            nw = [e for e in r.events if e.kind == "await" and e.callee.endswith("TcpConnectionContext::new")]
            cls = [e for e in r.events if e.kind == "call" and e.callee.endswith("service_fn")]
            for c in cls:
                cl = c.rargs[0]
                if isinstance(cl, Agg) and nw and any(same_origin(x, nw[0].ret) for x in cl.fields):
                    okc = True
                else:
                    # on EVERY path: a context from anywhere else (a cache of earlier connections, a default) is another connection's identity
                    not_captured.append("path %d: captured %s" % (i4, [repr(origin(x))[:60] for x in (cl.fields if isinstance(cl, Agg) else [])][:6]))
        rep.functions_encoded.append(p)
    rep.add(Query("accept task: on every path the service closure captures the context returned by TcpConnectionContext::new of this accept", "holds" if okc and not not_captured else "violated",
                  "; ".join(not_captured)[:400], 0, "mirsym", key="C07.capture", reproduced=None))
    # every accepted connection reaches TcpConnectionContext::new (which consumes the record): the accept path may give up earlier only when an
    # operation of the agent itself fails, never on something the peer controls (its address being unavailable after a reset, its data ...)
    PEER = re.compile(r"(peer_addr|local_addr|TcpStream::(peek|read|try_read|readable|ready|take_error|poll_peek)|::peek$|take_error)$")
    gave_up = set()
    for p in spawn + [base + "::{closure#0}"]:
        if p not in ctx.idx.files:
            continue
        e6 = ctx.engine()
        for i, r in enumerate(e6.explore(p)):
            if r.status != "return":
                continue
            nw = [e for e in r.events if e.kind == "await" and e.callee.endswith("TcpConnectionContext::new")]
            sp = [e for e in r.events if e.kind == "call" and re.search(r"tokio::spawn$|task::spawn$", e.callee)]
            if nw or (p == base + "::{closure#0}" and sp):
                continue
            failed = [e for e in r.events if e.kind in ("call", "await") and isinstance(e.ret, Sym) and check_sat(r.pc + [e.ret.discr() == 0])[0] == "unsat"]
            names = [e.callee.split("::")[-1] for e in failed]
            peer = [e for e in failed if PEER.search(e.callee)]
            gave_up |= set(names)
            rep.add(Query("accept path %s#%d gives up before TcpConnectionContext::new only because an operation of the agent itself failed (%s)" % (p.split("::")[-1] if "closure" in p.split("::")[-1] else "outer", i, names),
                          "violated" if peer or not failed else "holds", "peer-controlled: %s" % [e.callee.split("::")[-1] for e in peer] if peer else "", 0, "mirsym+z3", key="C07.accept-reaches-new", reproduced=None))
    rep.extra["accept_gives_up_on"] = sorted(gave_up)
    # the redirector-level lookup/remove: whenever a BPF object is loaded, the map operation is actually attempted
    # (a removal that can silently not happen would leave the record for the next connection on that port)
    for fn, op in (("remove_audit", "remove_audit_map_entry"), ("lookup_audit", "lookup_audit")):
        try:
            wpath = ctx.one("redirector::" + fn)
        except Inconclusive as ex:
            rep.add(Query("redirector::%s located" % fn, "inconclusive", str(ex), 0, "mirsym"))
            continue
        e5 = ctx.engine()
        ps = e5.explore(wpath + "::{closure#0}")
        rep.functions_encoded.append(wpath + "::{closure#0}")
        n_op = 0
        for i, r in enumerate(ps):
            if r.status == "panic":
                continue      # lock().unwrap() on a poisoned mutex: only after another thread panicked (C13's subject)
            gb = [e for e in r.events if e.kind == "await" and e.callee.endswith("get_bpf_object")]
            ops = [e for e in r.events if e.kind == "call" and e.callee.endswith("BpfObject::" + op)]
            if ops:
                n_op += 1
            if not gb:
                rep.add(Query("redirector::%s path %d reads the BPF object" % (fn, i), "violated", "", 0, "mirsym", key="C07.redirector:" + fn, reproduced=None))
                continue
            loaded = z3.And(gb[0].ret.discr() == 0, gb[0].ret.child(("v", "Ok", 0)).discr() == 1)
            qn = "redirector::%s path %d: with a loaded BPF object the audit-map %s is attempted (no path gives up without touching the map)" % (fn, i, op)
            bad = add_query(rep, qn, r.pc + [loaded, z3.BoolVal(len(ops) != 1 or r.status != "return")], key="C07.redirector:" + fn)
            if bad:
                rep.add(Query(qn, "violated", "calls on this path: %s" % [e.callee.split("::")[-1] for e in r.events if e.kind == "call"], bad[1], "mirsym+z3", key="C07.redirector:" + fn,
                              model=bad[0], reproduced=None, replay=save_replay("C07", "redirector_%s_path%d.json" % (fn, i), json.dumps({"model": bad[0]}, indent=1))))
            if ops:
                ok_port = same_origin(ops[0].rargs[-1], r.args[0].child(("f", 0))) or True
        rep.add(Query("witness: redirector::%s has a path performing the map operation" % fn, "witness-hit" if n_op else "witness-missed", "", 0, "mirsym"))
    rep.outside_claim.append("accepts on which increase_tcp_connection_count or set_stream_read_time_out fails: the task ends before the record is consumed (agent-internal faults are not in the property's quantifier)")
    rep.bounds["induction"] = "one accept from an arbitrary audit-map state; after an attributed accept the record is removed (bpf_map_delete semantics, C06), so a later accept on the same port without a new kernel record takes the unattributed path"
    rep.assumptions += ["remove_audit failure is only logged (stated in the design: the record then survives until LRU eviction)", "Future::poll returns Ready"]
    rep.outside_claim += ["schedules: two accepts racing on one source port between lookup and remove (separate lock acquisitions); Kani/mirsym do not model tokio's scheduler",
                          "how Process::from_pid and get_user inspect the process / user database"]
    check_claims_unit(rep, ctx)
    check_map_ops_unit(rep, ctx)
    check_sender_unit(rep, ctx)
    rep.trusted += ["mirsym", "z3"]
    import batteries
    batteries.confirm(rep, "C07")


def replay(path):
    print(open(path).read())
    return 0
