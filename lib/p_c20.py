"""C20: extension health hysteresis (Kani over proxy_agent_extension)."""
import os
from common import *
import kani

HK = os.path.join(VERIF, "harness", "kani")


def check(rep, tier, seed):
    with kani.FixedScratch("kani-ext") as fs:
        ss = os.path.join(fs.repo, "proxy_agent_extension/src/service_main/service_state.rs")
        try:
            src = open(ss).read()
        except OSError:
            rep.add(Query("locate service_state.rs", "inconclusive", "file not found", 0, "python"))
            return
        line = "use std::collections::HashMap;"
        if src.count(line) != 1:
            rep.add(Query("rewrite HashMap import of service_state.rs", "inconclusive",
                          "expected exactly one `%s` line" % line, 0, "python"))
        else:
            open(ss, "w").write(src.replace(line, "#[cfg(not(kani))]\n" + line + "\n#[cfg(kani)]\nuse verif_kani_c20::HashMap;"))
        rep.functions_encoded += ["proxy_agent_extension/src/common.rs: StatusState::{new, default, update_state}",
                                  "proxy_agent_extension/src/service_main/service_state.rs: ServiceState::update_service_state_entry"]
        rep.stubs += ["std::collections::HashMap in service_state.rs -> association list with get_mut/insert of the same contract "
                      "(hashbrown gives no Kani verdict; file-local private field)"]
        rep.bounds.update({"StatusState": "one step from ANY state in the invariant (inductive: histories of every length, "
                                          "saturation included, with a ghost count of the true run of failures); unwind 16",
                           "ServiceState": "one notification from every single-entry pre-state (strings concrete: first sight / same "
                                           "value / changed value; count and max_count all u32); reference transition's rate limit on "
                                           "integers: 300 notifications, max_count 1..130 (120 included); unwind 6/302"})
        rep.assumptions += ["transition_to_error_threshold is 20 in every reachable state (set in new(), never written elsewhere: "
                            "part of the invariant, checked by the step harness)"]
        kani.run_kani(rep, fs, "ProxyAgentExt", [
            ("proxy_agent_extension/src/common.rs", os.path.join(HK, "c20_status_state.rs"), "verif_kani_c20"),
            ("proxy_agent_extension/src/service_main/service_state.rs", os.path.join(HK, "c20_service_state.rs"), "verif_kani_c20"),
        ], timeout=1500 if tier == "quick" else 3400, harness_timeout=300 if tier == "quick" else 1500)
    rep.outside_claim += ["how service_main wires observations to update_state (call sites)", "Windows service paths"]
    rep.trusted += ["Kani 0.68 / CBMC 6.11"]


def replay(path):
    print(open(path).read())
    return 0
