// append to proxy_agent/src/key_keeper/key.rs; cargo test -p azure-proxy-agent verif_replay_c02_priv

#[cfg(test)]
mod verif_replay_c02_priv {
    use crate::proxy::proxy_connection::ConnectionLogger;
    use std::str::FromStr;
    #[test]
    fn c02_rule_path_case() {
        let privilege: crate::key_keeper::key::Privilege = serde_json::from_str(r#####"{"name":"p","path":"/Z"}"#####).unwrap();
        let url = hyper::Uri::from_str("http://localhost/Z").unwrap();
        let mut logger = ConnectionLogger::new(0, 0);
        let got = privilege.is_match(&mut logger, &url);
        let expected = url.path().to_lowercase().starts_with(&"/Z".to_lowercase());
        assert_eq!(got, expected, "rule path {:?} vs request path {:?}: case-insensitive prefix is {}", "/Z", url.path(), expected);
    }
}
