/* C06 driver: runs the UNMODIFIED linux-ebpf/ebpf_cgroup.c (included below through -DVERIF_EBPF_SRC)
 * against model.c under a solver-chosen schedule of connect attempts.
 *
 * All nondeterminism enters through the in_* globals, so a CBMC counterexample is a set of
 * initial values that the same file, compiled natively with gcc (-DVERIF_REPLAY, values supplied
 * by replay_values.h), re-executes; the native run must trip the same assertion.
 */
#include <linux/bpf.h>
#include VERIF_EBPF_SRC
#include "model.c"

#ifndef VERIF_NT
#define VERIF_NT 3      /* connect attempts ("tasks") */
#endif
#ifndef VERIF_NS
#define VERIF_NS 6      /* hook invocations in the schedule */
#endif
#define NT VERIF_NT
#define NS VERIF_NS
#define NPOL 2

/* ---------------- inputs ---------------- */
unsigned in_pol_n;                                   /* number of policy entries, <= NPOL */
unsigned in_pol_kip[NPOL], in_pol_kport[NPOL];       /* key: ip / port, network byte order */
unsigned in_pol_vip[NPOL], in_pol_vport[NPOL];       /* value */
unsigned in_skip_n, in_skip_pid;                     /* skip_process_map: 0 or 1 entry */
unsigned in_tgid[NT], in_tid[NT], in_uid[NT], in_gid[NT];
unsigned in_ip[NT], in_port[NT], in_proto[NT], in_sport[NT], in_family[NT];
static unsigned fin_seq[NT], fin_counter;      /* order in which attempts finished (st == 2) */
unsigned in_cgroup[NT];                              /* 1: connect4 hook sees this attempt */
unsigned in_sched_n, in_sched[NS];
unsigned in_victim[NS];                              /* LRU victims, consumed in order */
static unsigned victim_next;

#ifdef __CPROVER__
#define ASSUME(c) __CPROVER_assume(c)
#ifdef VERIF_NO_PROP   /* memory-safety / unwinding run: property assertions compiled out */
#define CHECK(c, label) ((void)0)
#define COVER(c) ((void)0)
#else
#define CHECK(c, label) __CPROVER_assert(c, label)
#define COVER(c) __CPROVER_assert(!(c), "COVERWITNESS")
#endif
unsigned nondet_in(void);
#else
#include <stdio.h>
#include <stdlib.h>
static int verif_assume_failed;
#define ASSUME(c) do { if (!(c)) { verif_assume_failed = 1; printf("ASSUME-FAILED %s\n", #c); exit(3); } } while (0)
static int verif_failed;
#define CHECK(c, label) do { if (!(c)) { printf("REPLAY-ASSERT-FAILED %s\n", label); verif_failed = 1; } } while (0)
#define COVER(c) ((void)0)
#endif

unsigned verif_next_victim(void) { unsigned v = in_victim[victim_next < NS ? victim_next : NS - 1]; victim_next++; return v; }

/* ---------------- ghost state ---------------- */
static int st[NT];            /* 0 not started, 1 connect4 done (tcp_connect pending), 2 finished */
static int g_prot[NT], g_skip[NT], g_expect[NT];
static unsigned g_vip[NT], g_vport[NT];
static unsigned g_rip[NT], g_rport[NT];   /* address the socket actually connects to */
static unsigned g_dip[NT], g_dport[NT];   /* destination the record must state */

static int pol_index(unsigned ip, unsigned port, unsigned proto)
{
    for (unsigned i = 0; i < NPOL; i++)
        if (i < in_pol_n && in_pol_kip[i] == ip && in_pol_kport[i] == port && proto == IPPROTO_TCP)
            return (int)i;
    return -1;
}

struct audit_snapshot { int used[K]; sock_addr_audit_key k[K]; sock_addr_audit_entry v[K]; };
static int eq_entry(const sock_addr_audit_entry *a, const sock_addr_audit_entry *b)
{
    return a->logon_id == b->logon_id && a->process_id == b->process_id && a->is_root == b->is_root &&
           a->destination_ipv4 == b->destination_ipv4 && a->destination_port == b->destination_port;
}
static void snap(struct audit_snapshot *a) { for (int i = 0; i < K; i++) { a->used[i] = audit_used[i]; a->k[i] = audit_k[i]; a->v[i] = audit_v[i]; } }
static int same(struct audit_snapshot *a)
{
    for (int i = 0; i < K; i++) {
        if (a->used[i] != audit_used[i]) return 0;
        if (a->used[i]) {
            if (a->k[i].protocol != audit_k[i].protocol || a->k[i].source_port != audit_k[i].source_port) return 0;
            if (!eq_entry(&a->v[i], &audit_v[i])) return 0;
        }
    }
    return 1;
}

static sock_addr_audit_entry *audit_lookup(unsigned sport)
{
    sock_addr_audit_key k = {0};
    k.protocol = IPPROTO_TCP;
    k.source_port = sport;
    int i = find_audit(&k);
    return i < 0 ? 0 : &audit_v[i];
}

static int record_ok(sock_addr_audit_entry *e, int t)
{
    return e->logon_id == in_uid[t] && e->process_id == in_tgid[t] &&
           e->is_root == (in_uid[t] == 0 ? 1u : 0u) &&
           e->destination_ipv4 == g_dip[t] && e->destination_port == g_dport[t];
}

static void set_current(int t)
{
    verif_cur_tgid = in_tgid[t]; verif_cur_tid = in_tid[t];
    verif_cur_uid = in_uid[t]; verif_cur_gid = in_gid[t];
}

int main(void)
{
#ifdef VERIF_REPLAY
#include "replay_values.h"
#endif
#ifdef __CPROVER__
    /* C statics start at zero: make every input an unconstrained solver variable */
    in_pol_n = nondet_in(); in_skip_n = nondet_in(); in_skip_pid = nondet_in(); in_sched_n = nondet_in();
    for (unsigned i = 0; i < NPOL; i++) { in_pol_kip[i] = nondet_in(); in_pol_kport[i] = nondet_in(); in_pol_vip[i] = nondet_in(); in_pol_vport[i] = nondet_in(); }
    for (int t = 0; t < NT; t++) {
        in_tgid[t] = nondet_in(); in_tid[t] = nondet_in(); in_uid[t] = nondet_in(); in_gid[t] = nondet_in();
        in_ip[t] = nondet_in(); in_port[t] = nondet_in(); in_proto[t] = nondet_in(); in_sport[t] = nondet_in();
        in_family[t] = nondet_in(); in_cgroup[t] = nondet_in();
    }
    for (unsigned s = 0; s < NS; s++) { in_sched[s] = nondet_in(); in_victim[s] = nondet_in(); }
#endif
    verif_init_maps();

    /* ----- environment assumptions (each is part of the claim; see DESIGN.md C06) ----- */
    ASSUME(in_pol_n <= NPOL);
    ASSUME(in_skip_n <= 1);
    ASSUME(in_sched_n <= NS);
    for (unsigned i = 0; i < NPOL; i++) {
        ASSUME(in_pol_kport[i] <= 0xFFFF && in_pol_vport[i] <= 0xFFFF);      /* user_port holds a be16 */
        for (unsigned j = 0; j < NPOL; j++) {
            if (i != j) ASSUME(!(in_pol_kip[i] == in_pol_kip[j] && in_pol_kport[i] == in_pol_kport[j])); /* map keys are unique */
            ASSUME(!(in_pol_vip[i] == in_pol_kip[j] && in_pol_vport[i] == in_pol_kport[j]));          /* a redirect target is not itself protected */
        }
    }
    for (int t = 0; t < NT; t++) {
        ASSUME(in_port[t] <= 0xFFFF);
        ASSUME(in_sport[t] <= 0xFFFF);
        ASSUME(in_family[t] <= 0xFFFF);                     /* sa_family_t is 16 bits */
        ASSUME(in_cgroup[t] <= 1);
        /* source ports: see the kprobe step - a port may be reused by a LATER attempt once an earlier one has finished (its connection was
         * closed, its record possibly never consumed by the agent); attempts that are in progress together have distinct ports */
        /* one process has one uid in this model: same tgid => same uid/gid */
        for (int u = 0; u < NT; u++)
            if (in_tgid[t] == in_tgid[u]) ASSUME(in_uid[t] == in_uid[u] && in_gid[t] == in_gid[u]);
    }

    /* user space populates the maps through bpf(2); keys/values as the Rust side lays them out */
    if (in_skip_n == 1) {
        sock_addr_skip_process_entry k = {0}; k.pid = in_skip_pid;
        bpf_map_update_elem(&skip_process_map, &k, &k, 0);
    }
    for (unsigned i = 0; i < NPOL; i++) if (i < in_pol_n) {
        destination_entry k = {0}, v = {0};
        k.destination_ip.ipv4 = in_pol_kip[i]; k.destination_port = in_pol_kport[i]; k.protocol = IPPROTO_TCP;
        v.destination_ip.ipv4 = in_pol_vip[i]; v.destination_port = in_pol_vport[i]; v.protocol = IPPROTO_TCP;
        bpf_map_update_elem(&policy_map, &k, &v, 0);
    }

    for (unsigned s = 0; s < NS; s++) {
        if (s >= in_sched_n) break;
        unsigned t = in_sched[s];
        ASSUME(t < NT);
        ASSUME(st[t] != 2);
        struct audit_snapshot before;
        snap(&before);
        set_current((int)t);
        int skip = (in_skip_n == 1 && in_skip_pid == in_tgid[t]);

        if (st[t] == 0 && in_cgroup[t]) {
            /* a thread runs one connect at a time: no other attempt of the same thread is half-way */
            for (int u = 0; u < NT; u++)
                if (u != (int)t && st[u] == 1) ASSUME(!(in_tgid[u] == in_tgid[t] && in_tid[u] == in_tid[t]));
            /* ---------------- cgroup/connect4 ---------------- */
            struct bpf_sock_addr ctx = {0};
            ctx.user_family = AF_INET; ctx.family = AF_INET;
            ctx.user_ip4 = in_ip[t]; ctx.user_port = in_port[t]; ctx.protocol = in_proto[t];
            int pi = pol_index(in_ip[t], in_port[t], in_proto[t]);
            g_prot[t] = pi >= 0; g_skip[t] = skip;
            g_dip[t] = in_ip[t]; g_dport[t] = in_port[t];
            int ret = connect4(&ctx);
            CHECK(ret == 1, "C06.connect4 verdict is PROCEED");
            if (g_prot[t] && !skip) {
                CHECK(ctx.user_ip4 == in_pol_vip[pi] && ctx.user_port == in_pol_vport[pi],
                      "C06.protected connect is diverted to the policy value");
                COVER(1);
            } else {
                CHECK(ctx.user_ip4 == in_ip[t] && ctx.user_port == in_port[t],
                      "C06.unprotected or agent connect is left untouched");
            }
            CHECK(ctx.protocol == in_proto[t] && ctx.user_family == AF_INET, "C06.connect4 changes only address and port");
            CHECK(same(&before), "C06.connect4 writes no audit record");
            g_rip[t] = ctx.user_ip4; g_rport[t] = ctx.user_port;
            g_expect[t] = g_prot[t] && !skip;
            st[t] = (in_proto[t] == IPPROTO_TCP) ? 1 : 2;    /* only TCP reaches tcp_v4_connect */
            if (st[t] == 2) fin_seq[t] = ++fin_counter;
        } else {
            /* ---------------- kprobe tcp_v4_connect ---------------- */
            int direct = (st[t] == 0);
            for (int u = 0; u < NT; u++)
                if (u != (int)t && st[u] == 1) ASSUME(in_sport[t] != in_sport[u]);   /* connects in progress together: distinct source ports */
            if (direct) {
                for (int u = 0; u < NT; u++)
                    if (u != (int)t && st[u] == 1) ASSUME(!(in_tgid[u] == in_tgid[t] && in_tid[u] == in_tid[t]));
                ASSUME(in_proto[t] == IPPROTO_TCP);
                g_rip[t] = in_ip[t]; g_rport[t] = in_port[t];
                g_dip[t] = in_ip[t]; g_dport[t] = in_port[t];
                g_skip[t] = skip;
                g_prot[t] = pol_index(in_ip[t], in_port[t], IPPROTO_TCP) >= 0;
                g_expect[t] = g_prot[t] && !skip && in_family[t] == AF_INET;
            }
            struct probe_sock sk = {0};
            sk.__sk_common.skc_daddr = g_rip[t];
            sk.__sk_common.skc_dport = (__be16)g_rport[t];
            sk.__sk_common.skc_num = (__u16)in_sport[t];
            sk.__sk_common.skc_family = direct ? (unsigned short)in_family[t] : AF_INET;
            struct pt_regs regs = {0};
            int ret = tcp_v4_connect(&regs, &sk);
            CHECK(ret == 0, "C06.kprobe returns 0");
            sock_addr_audit_entry *e = audit_lookup(in_sport[t]);
            if (g_expect[t]) {
                if (verif_evictions == 0) {
                    CHECK(e != 0, "C06.protected connect leaves a record under its source port");
                }
                if (e != 0) {
                    CHECK(e->logon_id == in_uid[t], "C06.record states the caller's user id");
                    CHECK(e->is_root == (in_uid[t] == 0 ? 1u : 0u), "C06.record is_root iff user id is 0");
                    CHECK(e->process_id == in_tgid[t], "C06.record states the caller's process id");
                    CHECK(e->destination_ipv4 == g_dip[t] && e->destination_port == g_dport[t],
                          "C06.record states the original destination");
                    COVER(in_uid[t] != in_gid[t]);
                }
            } else {
                CHECK(same(&before), "C06.unprotected or agent connect produces no record");
            }
            st[t] = 2;
            fin_seq[t] = ++fin_counter;
        }

        /* every TCP record in the audit map belongs to the finished attempt with that source port */
        for (int i = 0; i < K; i++) {
            if (!audit_used[i]) continue;
            if (audit_k[i].protocol != IPPROTO_TCP) continue;
            int owner = -1;
            for (int u = 0; u < NT; u++)      /* the LATEST finished protected attempt with that source port (a port may have been reused) */
                if (st[u] == 2 && g_expect[u] && in_sport[u] == audit_k[i].source_port && (owner < 0 || fin_seq[u] > fin_seq[owner])) owner = u;
            CHECK(owner >= 0, "C06.every record belongs to a finished protected connect");
            if (owner >= 0)
                CHECK(record_ok(&audit_v[i], owner), "C06.a record never carries another attempt's identity or destination");
        }
    }
#ifndef __CPROVER__
    if (!verif_failed) printf("REPLAY-COMPLETED-WITHOUT-ASSERTION-FAILURE\n");
    return verif_failed;
#else
    return 0;
#endif
}
