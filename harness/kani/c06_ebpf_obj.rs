// C06 (engine K): user-space encoding of eBPF map keys/values, checked for ALL field values.
// Injected as a child module of proxy_agent/src/redirector/linux/ebpf_obj.rs (scratch copy).
//
// Layout reference = linux-ebpf/socket.h (checked on the C side by harness/ebpf/layout.c):
//   destination_entry      : u32 ip[4] @0..16, u32 destination_port @16, u32 protocol @20      (6 words)
//   sock_addr_audit_key    : u32 protocol @0, u32 source_port @4                                (2 words)
//   sock_addr_audit_entry  : logon_id @0, process_id @4, is_root @8, destination_ipv4 @12,
//                            destination_port @16                                               (5 words)
//   sock_addr_skip_process_entry : u32 pid @0
use super::*;

// htons on the little-endian targets the agent ships for, written without to_be()
fn spec_htons(p: u16) -> u32 {
    (((p & 0xff) as u32) << 8) | ((p >> 8) as u32)
}

#[kani::proof]
#[kani::unwind(8)]
fn c06_destination_entry_matches_kernel_key() {
    let ip: u32 = kani::any();
    let port: u16 = kani::any();
    let a = destination_entry::from_ipv4(ip, port).to_array();
    // what authorize_v4 builds for a connect to (ip, port): {ipv4 = user_ip4, 0,0,0, user_port = htons(port), protocol = TCP}
    assert!(a[0] == ip);
    assert!(a[1] == 0 && a[2] == 0 && a[3] == 0);
    assert!(a[4] == spec_htons(port));
    assert!(a[5] == 6);
    kani::cover!(port == 80 && a[4] == 0x5000);
    kani::cover!(port == 32526);
}

#[kani::proof]
#[kani::unwind(8)]
fn c06_audit_key_matches_kernel_key() {
    let port: u16 = kani::any();
    let a = sock_addr_audit_key::from_source_port(port).to_array();
    // update_audit_map_entry_sk: key.protocol = IPPROTO_TCP (from the local entry), key.source_port = skc_num (host order)
    assert!(a[0] == 6);
    assert!(a[1] == port as u32);
    let b = sock_addr_audit_key::from_array(a);
    assert!(b.protocol == 6 && b.source_port == port as u32);
    kani::cover!(port == 0xffff);
}

#[kani::proof]
#[kani::unwind(8)]
fn c06_audit_entry_decodes_kernel_layout() {
    let w: [u32; 5] = kani::any();
    let e = sock_addr_audit_entry::from_array(w);
    assert!(e.logon_id == w[0]);
    assert!(e.process_id == w[1]);
    assert!(e.is_root == w[2]);
    assert!(e.destination_ipv4 == w[3]);
    assert!(e.destination_port == w[4]);
    let back = e.to_array();
    assert!(back[0] == w[0] && back[1] == w[1] && back[2] == w[2] && back[3] == w[3] && back[4] == w[4]);
    kani::cover!(w[0] != w[1] && w[2] == 1);
}

#[kani::proof]
#[kani::unwind(8)]
fn c06_skip_entry_layout() {
    let pid: u32 = kani::any();
    let a = sock_addr_skip_process_entry::from_pid(pid).to_array();
    assert!(a[0] == pid);
    kani::cover!(pid == 0xdead);
}

#[kani::proof]
#[kani::unwind(8)]
fn c06_struct_sizes_match_socket_h() {
    assert!(core::mem::size_of::<destination_entry>() == 24);
    assert!(core::mem::size_of::<sock_addr_audit_key>() == 8);
    assert!(core::mem::size_of::<sock_addr_audit_entry>() == 20);
    assert!(core::mem::size_of::<sock_addr_skip_process_entry>() == 4);
    let x: u8 = kani::any();
    kani::cover!(x == 1);
}

// vacuity twin: must come back FAILED
#[kani::proof]
#[kani::unwind(8)]
fn c06_twin_must_fail_ebpf_obj() {
    let port: u16 = kani::any();
    let a = destination_entry::from_ipv4(0, port).to_array();
    assert!(a[4] == port as u32); // false for every port whose two bytes differ
}
