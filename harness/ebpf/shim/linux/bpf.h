/* verification shim for <linux/bpf.h>: only what ebpf_cgroup.c uses */
#ifndef VERIF_SHIM_LINUX_BPF_H
#define VERIF_SHIM_LINUX_BPF_H
typedef unsigned char __u8;
typedef unsigned short __u16;
typedef unsigned int __u32;
typedef unsigned long long __u64;
typedef __u16 __be16;
typedef __u32 __be32;
#define __bitwise
enum bpf_map_type { BPF_MAP_TYPE_HASH = 1, BPF_MAP_TYPE_LRU_HASH = 9 };
/* the fields of struct bpf_sock_addr (uapi/linux/bpf.h) in their uapi order */
struct bpf_sock_addr {
    __u32 user_family;
    __u32 user_ip4;      /* network byte order */
    __u32 user_ip6[4];
    __u32 user_port;     /* network byte order */
    __u32 family;
    __u32 type;
    __u32 protocol;
    __u32 msg_src_ip4;
    __u32 msg_src_ip6[4];
};
#endif
