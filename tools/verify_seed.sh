#!/bin/bash
# verify_seed.sh <patch.diff> <demo.diff|-> <demo test name pattern|-> <outdir>
# Confirms, in a scratch worktree of /repo's HEAD (outside /repo and /verif): the patch compiles, every test that passes
# without it still passes with it (a test that fails once is re-run up to 3 times: a few baseline tests are timing-flaky),
# and (if given) the demonstration tests matching the pattern fail with the patch and pass without it.
set -u
PATCH=$1; DEMO=$2; PATTERN=$3; OUT=$4
export CARGO_NET_OFFLINE=true
WT=$(mktemp -d /tmp/seedwt-XXXXXX)
mkdir -p "$OUT"
git -C /repo worktree add -q --detach "$WT" HEAD || exit 3
cleanup() { git -C /repo worktree remove --force "$WT" 2>/dev/null; rm -rf "$WT"; }
trap cleanup EXIT
cd "$WT"
export CARGO_TARGET_DIR=/var/tmp/gpa-verif-cache/target-seedcheck
run_tests() { cargo test --workspace --no-fail-fast --offline 2>&1 | grep -E "^test .* \.\.\. (ok|FAILED)" | sed -E 's/^test (.*) \.\.\. ok.*/PASS \1/; s/^test (.*) \.\.\. FAILED.*/FAIL \1/' | sort -u; }
run_tests > "$OUT/tests_before.txt"
if ! git apply "$PATCH" 2>"$OUT/apply.err" && ! { git apply --3way "$PATCH" 2>>"$OUT/apply.err" && git reset -q; }; then echo "PATCH-DOES-NOT-APPLY"; cat "$OUT/apply.err"; exit 4; fi
git diff > "$OUT/applied.diff"
if ! cargo build --workspace --offline 2>"$OUT/build.err" >/dev/null; then echo "DOES-NOT-COMPILE"; tail -20 "$OUT/build.err"; exit 5; fi
run_tests > "$OUT/tests_after.txt"
comm -23 <(grep '^PASS' "$OUT/tests_before.txt") <(grep '^PASS' "$OUT/tests_after.txt") | sed 's/^PASS //' > "$OUT/lost.txt"
: > "$OUT/really_lost.txt"
while read -r t; do
  [ -z "$t" ] && continue
  okc=0
  for i in 1 2 3; do
    if cargo test --workspace --no-fail-fast --offline 2>&1 | grep -qE "^test $t \.\.\. ok"; then okc=1; break; fi
  done
  [ $okc = 0 ] && echo "$t" >> "$OUT/really_lost.txt"
done < "$OUT/lost.txt"
echo "tests: before $(grep -c '^PASS' $OUT/tests_before.txt) pass, after $(grep -c '^PASS' $OUT/tests_after.txt) pass; failing once with the patch: $(wc -l < $OUT/lost.txt); failing in 3 re-runs (really lost): $(wc -l < $OUT/really_lost.txt)"
cat "$OUT/really_lost.txt"
if [ "$DEMO" != "-" ]; then
  git apply "$DEMO" 2>"$OUT/demo_apply.err" || { echo "DEMO-DOES-NOT-APPLY"; cat "$OUT/demo_apply.err"; }
  cargo test --offline --workspace --no-fail-fast 2>&1 | grep -E "^test .* \.\.\. (ok|FAILED)" | grep -E "$PATTERN" > "$OUT/demo_with_patch.txt"
  echo "demo WITH patch:"; cat "$OUT/demo_with_patch.txt"
  git reset -q --hard HEAD; git clean -fdq; git apply "$DEMO" 2>/dev/null
  cargo test --offline --workspace --no-fail-fast 2>&1 | grep -E "^test .* \.\.\. (ok|FAILED)" | grep -E "$PATTERN" > "$OUT/demo_without_patch.txt"
  echo "demo WITHOUT patch:"; cat "$OUT/demo_without_patch.txt"
  if grep -q FAILED "$OUT/demo_with_patch.txt" && ! grep -q FAILED "$OUT/demo_without_patch.txt" && grep -q "ok$" "$OUT/demo_without_patch.txt"; then echo "DEMO-CONFIRMED"; else echo "DEMO-NOT-CONFIRMED"; fi
fi
