"""Shared helpers for the mirsym-based checks."""
import os, re, time
import z3
from common import *
from mirparse import MirIndex, MirError, find_matching, split_top
import mirsym
from mirsym import *
import mirdump


class Ctx:
    def __init__(self, crate="agent"):
        d = mirdump.get_dump(crate)
        self.dump = d
        self.src = d.src
        self.idx = MirIndex(d.dir)
        dirs = [os.path.join(d.src, x) for x in os.listdir(d.src) if os.path.isdir(os.path.join(d.src, x))]
        self.enums = scan_enums(dirs)
        self.structs = scan_structs(dirs)

    def field(self, struct, name):
        fs = self.structs.get(struct)
        if not fs or name not in fs:
            raise Inconclusive("struct %s has no field %s in the source (renamed?)" % (struct, name))
        return fs.index(name)

    def engine(self, **kw):
        return Engine(self.idx, enums=self.enums, src_root=self.src, **kw)

    def one(self, suffix):
        c = self.idx.find(suffix)
        if len(c) != 1:
            raise Inconclusive("expected exactly one MIR body for %s, found %d" % (suffix, len(c)))
        return c[0]

    def method(self, type_name, method, trait=None):
        c = find_method(self.idx, self.src, type_name, method, trait)
        if len(c) != 1:
            raise Inconclusive("expected exactly one impl body %s::%s, found %d" % (type_name, method, len(c)))
        return c[0]


def scan_structs(src_dirs):
    """{StructName: [field names in declaration order]} for named-field structs."""
    structs = {}
    for d in src_dirs:
        for root, _dirs, files in os.walk(d):
            for f in files:
                if not f.endswith(".rs"):
                    continue
                try:
                    txt = open(os.path.join(root, f), errors="replace").read()
                except OSError:
                    continue
                for m in re.finditer(r"\bstruct\s+(\w+)\s*(?:<[^>{]*>)?\s*\{", txt):
                    start = m.end() - 1
                    try:
                        end = find_matching(txt, start)
                    except MirError:
                        continue
                    body = re.sub(r"//[^\n]*", "", txt[start + 1:end])
                    body = re.sub(r"#\[[^\]]*\]", "", body)
                    names = []
                    for part in split_top(body):
                        mm = re.match(r"\s*(?:pub(?:\([^)]*\))?\s+)?(\w+)\s*:", part)
                        if mm:
                            names.append(mm.group(1))
                    if names and m.group(1) not in structs:
                        structs[m.group(1)] = names
    return structs


def check_sat(constraints, timeout_ms=60000):
    s = z3.Solver()
    s.set("timeout", timeout_ms)
    for c in constraints:
        s.add(c)
    t0 = time.time()
    r = s.check()
    dt = time.time() - t0
    model, zm = None, None
    if r == z3.sat:
        zm = s.model()
        model = {str(d): str(zm[d]) for d in zm.decls()}
    return str(r), model, dt, zm


def add_query(rep, name, constraints, expect="unsat", key=None, detail="", engine="mirsym+z3", nontrivial=True, path=None):
    """Discharge one query. expect='unsat': property obligation (sat = violation candidate, returned to the caller);
    expect='sat': reachability witness."""
    r, model, dt, zm = check_sat(constraints)
    if r == "unknown":
        rep.add(Query(name, "inconclusive", "z3 returned unknown", dt, engine, key=key))
        return None
    if expect == "unsat":
        if r == "unsat":
            rep.add(Query(name, "holds", detail, dt, engine, key=key, nontrivial=nontrivial))
            return None
        return (model, dt, zm)
    else:
        rep.add(Query(name, "witness-hit" if r == "sat" else "witness-missed", detail, dt, engine, key=key))
        return None


def describe_path(r, maxc=8):
    calls = [e.callee.split("::")[-1] for e in r.events if e.kind in ("call", "await")]
    return {"status": r.status, "decisions": r.decisions[:40], "calls": calls[:40]}
