"""Symbolic model of ProxyServer::handle_new_http_request (+ the signing route and convert_request, inlined),
shared by C01, C04, C05, C07, C10, C11, C15. Everything here is derived from the MIR dump of the working tree."""
from mcommon import *
import callgraph

SINK = re.compile(r"(send_request$|SendRequest|TcpStream::connect|build_http_sender|hyper_client::(get|send|post|build_request|read_response)|host_clients::)")
RELAY = re.compile(r"(HttpConnectionContext|TcpConnectionContext)::send_request$")
# repo functions that stay uninterpreted in the handler model: environment (actors, clock, logging), functions verified
# on their own bodies by other checks, and the relay primitive itself. Every OTHER function of the crate that the handler
# calls is inlined automatically, so moving code into a helper does not change the model.
KEEP = re.compile(r"(SharedState::|::log$|Logger::|logger::|event_logger::|log_connection_summary$|forward_response$|"
                  r"handle_provision_state_check_request$|(^|::)authorize$|get_access_control_rules$|send_request$|as_sig_input$|"
                  r"compute_signature$|should_skip_sig$|empty_response$|contains_traversal_characters$|get_date_time_rfc1123_string$|"
                  r"misc_helpers::|helpers::|::clone$|::fmt$|::to_string$|::drop$|::default$|::eq$|::ne$)")


def make_auto_inline(cg, keep=KEEP):
    def auto(engine, callee, caller):
        if keep.search(callee):
            return None
        c = cg.resolve(callee, caller)
        if len(c) != 1:
            return None
        p = next(iter(c))
        if "{closure" in p.split("::")[-1] or keep.search(p):
            return None
        return p
    return auto


class HPath:
    def __init__(self, model, r, i):
        self.m, self.r, self.i = model, r, i
        self.events = r.events
        self.pc = r.pc
        a = r.args1
        self.arg = a
        self.server = a.child(("f", model.cap["self"]))
        self.request = a.child(("f", model.cap["request"]))
        self.tctx = a.child(("f", model.cap["tcp_connection_context"]))

    # ---- events ----
    def evs(self, rx, kinds=("call", "await")):
        return [e for e in self.events if e.kind in kinds and re.search(rx, e.callee)]

    def first(self, rx, kinds=("call", "await")):
        l = self.evs(rx, kinds)
        return l[0] if l else None

    def index(self, ev):
        return self.events.index(ev)

    @property
    def relays(self):
        return [e for e in self.events if e.kind == "await" and RELAY.search(e.callee)]

    @property
    def upstream_sends(self):
        """every await that puts a request on a host connection, whatever primitive is used (the connection's own sender or a new one)"""
        return [e for e in self.events if e.kind == "await" and re.search(r"(^|::)send_request$", e.callee)]

    # ---- symbolic handles ----
    def ctx_field(self, name, ty=None):
        return self.tctx.child(("f", self.m.ctx.field("TcpConnectionContext", name)), ty)

    def var_incr_err(self):
        e = self.first(r"increase_connection_count$", ("await",))
        return None if e is None else (e.ret.discr() == 1)

    def var_traversal(self):
        e = self.first(r"contains_traversal_characters$", ("call",))
        return None if e is None else e.ret.scalar("bool")

    def var_dest_none(self):
        return self.ctx_field("destination_ip").discr() == 0

    def var_claims_none(self):
        return self.ctx_field("claims").discr() == 0

    def var_rules_err(self):
        e = self.first(r"get_access_control_rules$", ("await",))
        return None if e is None else (e.ret.discr() == 1)

    def var_forbidden(self):
        e = self.first(r"(^|::)authorize$", ("call",))
        if e is None:
            return None
        return e.ret.discr() == self.m.ctx.enums["AuthorizeResult"].index("Forbidden")

    def var_auth_ok(self):
        e = self.first(r"(^|::)authorize$", ("call",))
        if e is None:
            return None
        return e.ret.discr() == self.m.ctx.enums["AuthorizeResult"].index("Ok")

    def implied(self, cond):
        r, _m, _dt, _zm = check_sat(self.pc + [z3.Not(cond)])
        return r == "unsat"

    def possible(self, cond):
        r, _m, _dt, _zm = check_sat(self.pc + [cond])
        return r == "sat"

    # ---- response ----
    def response(self):
        """('status', CONST) | ('forward', None) | ('provision', None) | ('other', repr)"""
        v = self.r.ret
        if isinstance(v, Agg) and v.variant == "Ok" and v.fields:
            inner = origin(v.fields[0])
            if isinstance(inner, Sym) and inner.tag[0] == "ret" and inner.tag[1].endswith("empty_response"):
                for e in self.events:
                    if e.ret is inner:
                        a0 = e.rargs[0]
                        return ("status", a0.text.split("::")[-1] if isinstance(a0, ConstV) else repr(a0))
        o = origin(v)
        if isinstance(o, Sym) and o.tag[0] == "await":
            if o.tag[1].endswith("forward_response"):
                return ("forward", None)
            if o.tag[1].endswith("handle_provision_state_check_request"):
                return ("provision", None)
        return ("other", repr(v)[:120])

    def describe(self):
        return {"path": self.i, "response": self.response(), "relay": bool(self.relays),
                "calls": [e.callee.split("::")[-1] for e in self.events if e.kind in ("call", "await")
                          and not re.search(r"(fmt|Logger|::log$|new_display|to_string$)", e.callee)][:60]}


class HandlerModel:
    def __init__(self, ctx, rep=None, loop_bound=2, keep=None):
        self.ctx = ctx
        idx = ctx.idx
        self.wrapper = ctx.method("ProxyServer", "handle_new_http_request")
        self.body = self.wrapper + "::{closure#0}"
        if self.body not in idx.files:
            raise Inconclusive("no coroutine body for handle_new_http_request")
        # capture order of the coroutine state, read from the wrapper's aggregate
        e0 = ctx.engine()
        e0._reset([])
        wb = idx.body(self.wrapper)
        co = e0.run_body(wb, [Sym(("arg", i + 1)) for i in range(wb.nargs)], 0)
        if not isinstance(co, Agg) or not co.names:
            raise Inconclusive("handle_new_http_request wrapper does not build a coroutine aggregate")
        self.cap = {n: i for i, n in enumerate(co.names)}
        for need in ("self", "request", "tcp_connection_context"):
            if need not in self.cap:
                raise Inconclusive("handler capture %s missing" % need)
        inl = []
        for fn in ("handle_request_with_signature", "convert_request"):
            w = find_method(idx, ctx.src, "ProxyServer", fn)
            if len(w) != 1:
                raise Inconclusive("ProxyServer::%s: %d bodies" % (fn, len(w)))
            inl.append((r"ProxyServer::%s$" % fn, w[0]))
            if w[0] + "::{closure#0}" in idx.files:
                inl.append((r"^\b$", w[0] + "::{closure#0}"))
        self.engine = ctx.engine(inline=inl, loop_bound=loop_bound)
        self.cg = callgraph.CallGraph(idx)
        self.cg.set_src(ctx.src)
        self.engine.auto_inline = make_auto_inline(self.cg, keep or KEEP)
        holder = {}

        def mkargs(engine):
            b = idx.body(self.body)
            a = [Sym(("arg", i + 1), b.arg_types.get(i + 1)) for i in range(b.nargs)]
            holder["a"] = a
            return a
        # explore, remembering each path's argument object
        eng = self.engine
        orig_run = eng.run_body
        results = eng.explore(self.body, args=mkargs)
        self.paths = []
        for i, r in enumerate(results):
            # the coroutine argument of this path: first 'part' ancestor of any event arg; recover via decisions replay
            r.args1 = r.args[0]
            self.paths.append(HPath(self, r, i))
        self.cg = callgraph.CallGraph(idx)
        self.cg.set_src(ctx.src)
        if rep is not None:
            rep.functions_encoded += [self.body] + sorted(eng.inlined)
            rep.extra["states"] = eng.stats["blocks"]
            rep.extra["transitions"] = eng.stats["blocks"] + eng.solver_calls
            rep.extra["handler_paths"] = len(self.paths)
            rep.extra["uninterpreted_callees"] = sorted(eng.uninterpreted)

    def _arg_of(self, r):
        """Root `arg 1` symbol of a path (every path re-creates its arguments)."""
        def root(v, depth=0):
            v = origin(v)
            while isinstance(v, Sym) and isinstance(v.tag, tuple) and v.tag[0] == "part" and depth < 50:
                v = origin(v.tag[1])
                depth += 1
            return v
        for e in r.events:
            for a in list(e.args) + list(e.rargs):
                try:
                    x = root(a)
                except Exception:
                    continue
                if isinstance(x, Sym) and x.tag == ("arg", 1):
                    return x
        raise Inconclusive("could not recover the coroutine argument of a handler path")

    def hidden_sinks(self, callee):
        """Upstream-sending primitives statically reachable from an uninterpreted callee (over-approximate)."""
        bs = self.cg.resolve(callee, self.body)
        texts, _seen = self.cg.reach_callees(bs)
        return sorted(t for t in texts if SINK.search(t))
