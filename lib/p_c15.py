"""C15 request body size limits (engine M). See DESIGN.md 4/C15."""
from mcommon import *
from handler_model import *
from handler_model import make_auto_inline
from p_c01 import violated


def skip_sig_semantics(rep, ctx, keyprefix="C15"):
    """hyper_client::should_skip_sig(method, uri) == (PUT && lower(uri)=="/vmagentlog") || (POST && lower(uri)=="/machine/?comp=telemetrydata")"""
    path = ctx.one("hyper_client::should_skip_sig")
    eng = ctx.engine()
    paths = eng.explore(path)
    rep.functions_encoded.append(path)
    n_true = 0
    for i, r in enumerate(paths):
        lows = [e for e in r.events if e.kind == "call" and e.callee.endswith("to_lowercase")]
        if len(lows) != 1:
            rep.add(Query("should_skip_sig path %d lower-cases the url exactly once" % i, "violated", "%d to_lowercase calls" % len(lows), 0, "mirsym", key=keyprefix + ".skip-sig:lower", reproduced=None))
            continue
        # the lower-cased text must be the uri's own text
        src = lows[0].rargs[0]
        so = origin(src)
        ok_src = isinstance(so, Sym) and so.tag[0] == "conv" or same_origin(src, r.args[1]) or is_part_of(src, r.args[1])
        chain_ok = False
        cur = src
        for _ in range(6):
            cur = origin(cur)
            if same_origin(cur, r.args[1]) or (isinstance(cur, Sym) and cur.tag[0] == "part" and cur.tag[2] == "*" and same_origin(cur.tag[1], r.args[1])):
                chain_ok = True
                break
            if isinstance(cur, Sym) and cur.tag[0] == "ret" and cur.tag[1].endswith("to_string"):
                for e in r.events:
                    if e.ret is cur:
                        cur = e.rargs[0]
                continue
            break
        L = lows[0].ret.string()
        method = eng.opaque_id(r.args[0])
        PUT, POST = eng.opaque_id(ConstV("Method::PUT")), eng.opaque_id(ConstV("Method::POST"))
        ref = z3.Or(z3.And(method == PUT, L == z3.StringVal("/vmagentlog")), z3.And(method == POST, L == z3.StringVal("/machine/?comp=telemetrydata")))
        ret = r.ret.e if isinstance(r.ret, Scalar) else None
        # prefix / suffix / substring tests on the url text are given their meaning (the exemption is an equality: a looser test
        # shows up as a model of the query below)
        preds = []
        for e in r.events:
            mm = re.search(r"str::(starts_with|ends_with|contains)(::<.*>)?$", e.callee) if e.kind == "call" else None
            if mm and len(e.rargs) == 2 and isinstance(e.ret, Sym):
                try:
                    hay, pat = eng.to_str(e.rargs[0]), eng.to_str(e.rargs[1])
                except Inconclusive:
                    continue
                t = {"starts_with": z3.PrefixOf(pat, hay), "ends_with": z3.SuffixOf(pat, hay), "contains": z3.Contains(hay, pat)}[mm.group(1)]
                preds.append(e.ret.scalar("bool") == t)
        if ret is None and isinstance(r.ret, Sym) and preds:
            ret = r.ret.scalar("bool")
        if ret is None:
            rep.add(Query("should_skip_sig path %d returns a boolean" % i, "inconclusive", repr(r.ret), 0, "mirsym"))
            continue
        qn = "should_skip_sig path %d: result <=> (PUT & lower(url)=/vmagentlog) | (POST & lower(url)=/machine/?comp=telemetrydata)" % i
        bad = add_query(rep, qn, r.pc + preds + [ret != ref], key=keyprefix + ".skip-sig:semantics")
        if bad:
            rep.add(Query(qn, "violated", "model %s" % bad[0], bad[1], "mirsym+z3", key=keyprefix + ".skip-sig:semantics", model=bad[0], reproduced=None,
                          replay=save_replay(rep.pid, "skip_sig_path%d.json" % i, json.dumps({"model": bad[0]}, indent=1))))
        rr, _m, _dt, _zm = check_sat(r.pc + preds + [ret])
        if rr == "sat":
            n_true += 1
    rep.add(Query("witness: should_skip_sig can be true", "witness-hit" if n_true else "witness-missed", "%d" % n_true, 0, "mirsym+z3"))
    rep.stubs.append("str::to_lowercase: uninterpreted function lower(.) of the url text; http::Method compared by identity of the named constants")


def check(rep, tier, seed):
    ctx = Ctx("agent")
    rep.extra["mir_dump"] = {"cache_hit": ctx.dump.cache_hit, "tree_hash": ctx.dump.hash, "seconds": round(ctx.dump.seconds, 1)}
    # 1. limit selection in the service_fn closure
    base = ctx.method("ProxyServer", "handle_new_tcp_connection")
    svc = None
    for p in ctx.idx.files:
        if p.startswith(base + "::") and "RequestBodyLimitLayer" in open(ctx.idx.files[p], errors="replace").read():
            if svc is None or len(p) > len(svc):
                svc = p if svc is None else svc
    texts = {p: open(ctx.idx.files[p], errors="replace").read() for p in ctx.idx.files if p.startswith(base + "::")}
    # the per-request closure: the one that hands the request to a tower service
    cands = [p for p, t in texts.items() if re.search(r"as (tower::)?Service<.*>>::call", t) and "service_fn" in t]
    if len(cands) != 1:
        cands = [p for p, t in texts.items() if "RequestBodyLimitLayer::new" in t]
    if len(cands) != 1:
        raise Inconclusive("expected one closure handing the request to the limited tower service, found %d" % len(cands))
    svc = cands[0]
    # limit layers built outside the per-request closure and captured by it: field index of the closure -> limit
    captured = {}
    makers = [p for p, t in texts.items() if "RequestBodyLimitLayer::new" in t and p != svc]
    for parent in makers:
        try:
            e0 = ctx.engine(loop_bound=1, max_paths=200)
            st = e0.find_blocks(parent, r"RequestBodyLimitLayer::new$")
            for r in e0.explore(parent, start_bb=st[0], stop_calls=r"serve_connection$|with_upgrades$"):
                for e in r.events:
                    if e.kind == "call" and e.callee.endswith("service_fn") and e.rargs:
                        cl = origin(e.rargs[0])
                        if isinstance(cl, Agg) and cl.kind == "closure":
                            for k, f in enumerate(cl.fields):
                                fo = origin(f)
                                ly = [x for x in r.events if x.ret is fo and x.callee.endswith("ServiceBuilder::layer")]
                                if ly:
                                    nw = [x for x in r.events if x.ret is origin(ly[0].rargs[1]) and x.callee.endswith("RequestBodyLimitLayer::new")]
                                    if nw and isinstance(nw[0].rargs[0], Scalar) and z3.is_bv_value(z3.simplify(nw[0].rargs[0].e)):
                                        captured[k] = z3.simplify(nw[0].rargs[0].e).as_long()
            rep.functions_encoded.append(parent + " [slice: construction of the limit layers to the service closure]")
        except Inconclusive:
            pass
    import callgraph
    cg = callgraph.CallGraph(ctx.idx); cg.set_src(ctx.src)
    eng = ctx.engine()
    # helpers of hyper_client that decide the exemption are inlined, whatever they are called
    eng.auto_inline = make_auto_inline(cg, re.compile(r"(handle_new_http_request$|SharedState::|::log$|Logger::|logger::|::clone$|::fmt$|::to_string$|::drop$)"))
    paths = eng.explore(svc)
    rep.functions_encoded += [svc] + sorted(eng.inlined)
    consts = {}
    for nm in ("REQUEST_BODY_LOW_LIMIT_SIZE", "REQUEST_BODY_LARGE_LIMIT_SIZE"):
        e2 = ctx.engine(); e2._reset([])
        v = e2.eval_const("proxy::proxy_server::" + nm)
        consts[nm] = z3.simplify(v.e).as_long() if isinstance(v, Scalar) else None
    rep.add(Query("REQUEST_BODY_LOW_LIMIT_SIZE evaluates to 102400 (100 KiB)", "holds" if consts["REQUEST_BODY_LOW_LIMIT_SIZE"] == 102400 else "violated",
                  str(consts), 0, "mirsym", key="C15.const-low", reproduced=None))
    rep.add(Query("REQUEST_BODY_LARGE_LIMIT_SIZE evaluates to 104857600 (100 MiB)", "holds" if consts["REQUEST_BODY_LARGE_LIMIT_SIZE"] == 104857600 else "violated",
                  str(consts), 0, "mirsym", key="C15.const-large", reproduced=None))
    n_large = n_low = 0
    for i, r in enumerate(paths):
        news = [e for e in r.events if e.kind == "call" and e.callee.endswith("RequestBodyLimitLayer::new")]
        calls = [e for e in r.events if e.kind == "call" and re.search(r"tower::Service<.*>>::call$", e.callee)]
        if not calls or r.status != "return":
            rep.add(Query("service closure path %d: the request is handed to a tower service" % i, "inconclusive", "status %s, service calls=%d" % (r.status, len(calls)), 0, "mirsym", key="C15.svc-structure"))
            continue

        def limit_of(layer_new_ev):
            a = layer_new_ev.rargs[0]
            return z3.simplify(a.e).as_long() if isinstance(a, Scalar) and z3.is_bv_value(z3.simplify(a.e)) else None
        svcv = origin(calls[0].rargs[0])
        used = None
        sf = [e for e in r.events if e.ret is svcv and e.callee.endswith("service_fn")]
        if sf:
            b = origin(sf[0].rargs[0])
            ly = [e for e in r.events if e.ret is b and e.callee.endswith("ServiceBuilder::layer")]
            if ly:
                l = origin(ly[0].rargs[1])
                nw = [e for e in news if e.ret is l]
                if nw:
                    used = limit_of(nw[0])
        if used is None and sf and captured:
            # the builder is (a clone of) a captured field of this closure
            b = origin(sf[0].rargs[0])
            cur = b
            for _ in range(4):
                if isinstance(cur, Sym) and isinstance(cur.tag, tuple) and cur.tag[0] == "ret" and re.search(r"(clone|Clone>::clone)$", cur.tag[1]):
                    ce = [x for x in r.events if x.ret is cur and x.rargs]
                    cur = origin(ce[0].rargs[0]) if ce else cur
                    continue
                break
            if isinstance(cur, Sym) and isinstance(cur.tag, tuple) and cur.tag[0] == "part":
                ks = []
                c2 = cur
                while isinstance(c2, Sym) and isinstance(c2.tag, tuple) and c2.tag[0] == "part":
                    ks.append(c2.tag[2]); c2 = c2.tag[1]
                if c2 is origin(r.args[0]) or (isinstance(c2, Sym) and c2.tag[0] == "arg" and c2.tag[1] == 1):
                    fk = [k for k in ks if isinstance(k, tuple) and k[0] == "f"]
                    if fk and fk[-1][1] in captured:
                        used = captured[fk[-1][1]]
        if used is None:
            rep.add(Query("service closure path %d: the limit layer wrapping the called service is identified" % i, "inconclusive", "could not follow call <- service_fn <- layer <- RequestBodyLimitLayer::new(const)", 0, "mirsym", key="C15.svc-structure"))
            continue
        # reference exemption predicate over this request's own method and url
        req = r.args[1] if len(r.args) > 1 else None
        meth = [e for e in r.events if e.kind == "call" and e.callee.endswith("Request::method") and req is not None and same_origin(e.rargs[0], req)]
        uris = [e for e in r.events if e.kind == "call" and e.callee.endswith("Request::uri") and req is not None and same_origin(e.rargs[0], req)]
        lows = [e for e in r.events if e.kind == "call" and e.callee.endswith("to_lowercase")]
        L = None
        for e in lows:
            cur = e.rargs[0]
            for _ in range(6):
                cur = origin(cur)
                if any(cur is u.ret or (isinstance(cur, Sym) and cur.tag[0] == "part" and cur.tag[2] == "*" and cur.tag[1] is u.ret) for u in uris):
                    L = e.ret.string()
                    break
                if isinstance(cur, Sym) and cur.tag[0] == "ret":
                    nxt = [x for x in r.events if x.ret is cur and x.rargs]
                    if not nxt:
                        break
                    cur = nxt[0].rargs[0]
                    continue
                break
        if L is None:
            L = z3.String("lower_url_%d" % i)      # the code never lower-cases this request's url: any value
        M = eng.opaque_id(meth[0].ret) if meth else z3.Int("method_%d" % i)
        PUT, POST = eng.opaque_id(ConstV("Method::PUT")), eng.opaque_id(ConstV("Method::POST"))
        ref = z3.Or(z3.And(M == PUT, L == z3.StringVal("/vmagentlog")), z3.And(M == POST, L == z3.StringVal("/machine/?comp=telemetrydata")))
        for name, cond, want in (("exempt upload (PUT /vmagentlog, POST /machine/?comp=telemetrydata, any case) => 100 MiB limit layer", ref, 104857600),
                                 ("any other method/url => 100 KiB limit layer", z3.Not(ref), 102400)):
            qn = "service closure path %d: %s" % (i, name)
            bad = add_query(rep, qn, r.pc + [cond, z3.BoolVal(used != want)], key="C15.limit-selection:" + name.split(" =>")[0])
            if bad:
                rep.add(Query(qn, "violated", "limit in force on this path: %s; model %s" % (used, bad[0]), bad[1], "mirsym+z3", key="C15.limit-selection:" + name.split(" =>")[0], model=bad[0], reproduced=None,
                              replay=save_replay("C15", "svc_path%d.json" % i, json.dumps({"limit": used, "model": bad[0]}, indent=1))))
        if used == 104857600:
            n_large += 1
        else:
            n_low += 1
    rep.add(Query("witness: the service closure has a 100 MiB path and a 100 KiB path", "witness-hit" if n_large and n_low else "witness-missed", "%d/%d" % (n_large, n_low), 0, "mirsym"))
    inner = [p for p in ctx.idx.files if p.startswith(svc + "::{closure")]
    ok_inner = False
    for p in inner:
        e3 = ctx.engine()
        for r in e3.explore(p):
            if [e for e in r.events if e.callee.endswith("handle_new_http_request")]:
                ok_inner = True
    rep.add(Query("the limited service's inner function is handle_new_http_request (every request passes through the limit layer)", "holds" if ok_inner else "violated", "", 0, "mirsym", key="C15.wraps-handler", reproduced=None))
    # 2. should_skip_sig semantics
    skip_sig_semantics(rep, ctx)
    # 3. the body is fully collected before any upstream write, collect error => 400 and no relay
    hm = HandlerModel(ctx, rep)
    n = 0
    for p in hm.paths:
        cols = [e for e in p.events if e.kind == "await" and e.callee.endswith("::collect")]
        relays = p.relays
        if relays:
            n += 1
            qn = "handler path %d: body.collect() completes before send_request" % p.i
            ok = len(cols) == 1 and p.index(cols[0]) < p.index(relays[0])
            if ok:
                bad = add_query(rep, qn + " and succeeded", p.pc + [cols[0].ret.discr() == 1], key="C15.collect-before-send")
                if bad:
                    violated(rep, qn, "C15.collect-before-send", "relay reachable after a failed collect", p, bad[1], bad[0])
            else:
                violated(rep, qn, "C15.collect-before-send", "collect events: %d" % len(cols), p)
            # the collected body is the incoming request's body, and the sent body is that collected data
        for c in cols:
            if p.implied(c.ret.discr() == 1):
                qn = "handler path %d: body read error => 400 and nothing relayed" % p.i
                ok = (not relays) and p.response() == ("status", "BAD_REQUEST")
                if ok:
                    rep.add(Query(qn, "holds", "", 0, "mirsym+z3", key="C15.collect-error"))
                else:
                    violated(rep, qn, "C15.collect-error", "response %r relays %d" % (p.response(), len(relays)), p)
    rep.add(Query("witness: relay paths examined", "witness-hit" if n else "witness-missed", "%d" % n, 0, "mirsym"))
    rep.assumptions += ["tower_http::limit::RequestBodyLimitLayer answers 413 for a declared Content-Length above the limit and makes the body error once the limit is exceeded (documented contract)"]
    rep.outside_claim += ["exact boundary behaviour inside tower-http", "hyper's framing"]
    rep.trusted += ["tower-http limit layer", "mirsym", "z3"]

    import e2e
    e2e.confirm(rep, "C15")


def replay(path):
    print(open(path).read())
    return 0
