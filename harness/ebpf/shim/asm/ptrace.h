#ifndef VERIF_SHIM_ASM_PTRACE_H
#define VERIF_SHIM_ASM_PTRACE_H
struct pt_regs { unsigned long di; };
#endif
