"""Engine K: run Kani harnesses injected into a scratch copy of /repo."""
import os, re, shutil
from common import *


class FixedScratch:
    """Scratch copy at a fixed path (so cargo's dependency cache stays valid), guarded by a lock,
    source copy removed on exit, target dir (dependencies only matter) kept as a cache."""

    def __init__(self, tag):
        self.tag = tag
        self.base = os.path.join(CACHE, "src-" + tag)
        self.repo = os.path.join(self.base, "repo")
        self.target = os.path.join(CACHE, "target-" + tag)
        self.lock = Lock("src-" + tag)

    def __enter__(self):
        self.lock.__enter__()
        os.makedirs(self.base, exist_ok=True)
        rc, out, err, _ = run(["rsync", "-a", "--delete", "--exclude", "/target", "--exclude", ".git", REPO + "/", self.repo + "/"])
        if rc != 0:
            self.lock.__exit__()
            raise RuntimeError("rsync failed: " + err)
        return self

    def __exit__(self, *a):
        shutil.rmtree(self.base, ignore_errors=True)
        self.lock.__exit__()


def inject(repo_dir, rel_file, harness_file, modname):
    """Append `#[cfg(kani)] #[path=...] mod <modname>;` to the scratch copy of rel_file. The harness source is copied
    into the scratch tree so that concrete-playback tests can be appended to it for native replay."""
    path = os.path.join(repo_dir, rel_file)
    if not os.path.exists(path):
        return None
    hd = os.path.join(repo_dir, "verif_harness")
    os.makedirs(hd, exist_ok=True)
    local = os.path.join(hd, os.path.basename(harness_file))
    shutil.copyfile(harness_file, local)
    with open(path, "a") as f:
        f.write('\n#[cfg(kani)]\n#[path = "%s"]\nmod %s;\n' % (local, modname))
    return local


def kani_replay(scratch, package, env, full_name, short, local_files, pid, timeout=900):
    """Concrete playback: ask Kani for the counterexample as a unit test, append it to the harness module, run it natively
    (cargo kani playback). -> (reproduced: bool|None, replay path, detail)"""
    cmd = ["cargo", "kani", "-p", package, "-Z", "stubbing", "-Z", "concrete-playback", "--concrete-playback=print",
           "--harness", full_name, "--exact", "--output-format", "terse"]
    rc, out, err, secs = run(cmd, cwd=scratch.repo, env=env, timeout=timeout)
    m = re.search(r"```\s*\n(.*?#\[test\].*?)```", out, re.S)
    if not m:
        return None, None, "no concrete playback test printed"
    test = m.group(1)
    tn = re.search(r"fn (kani_concrete_playback_\w+)", test)
    if not tn:
        return None, None, "unparseable playback test"
    tname = tn.group(1)
    path = save_replay(pid, "%s.playback.rs" % short,
                       "// Kani concrete playback for harness %s (append to the harness module, then\n"
                       "// cargo kani playback -Z concrete-playback -p %s -- %s)\n%s" % (full_name, package, tname, test))
    # find the harness file that defines the harness
    target = None
    for lf in local_files:
        if re.search(r"fn %s\b" % re.escape(short), open(lf).read()):
            target = lf
    if target is None:
        return None, path, "harness source not found for playback"
    with open(target, "a") as f:
        f.write("\n" + test + "\n")
    env2 = dict(env)
    env2.pop("CARGO_TARGET_DIR", None)   # playback rejects --target-dir; use a scratch-local target, removed with the scratch
    env2["CARGO_TARGET_DIR"] = scratch.target + "-playback"
    rc, out2, err2, secs2 = run(["cargo", "kani", "playback", "-Z", "concrete-playback", "-p", package, "--", tname],
                                cwd=scratch.repo, env=env2, timeout=timeout)
    txt = out2 + err2
    if re.search(r"test result: FAILED", txt) or "panicked at" in txt:
        return True, path, "native playback test %s FAILED as predicted" % tname
    if re.search(r"test result: ok", txt):
        return False, path, "native playback test %s passed: counterexample does not reproduce" % tname
    return None, path, "playback inconclusive rc=%s: %s" % (rc, txt[-600:])


def parse_kani_output(out):
    """One harness' output -> {'status', 'failed', 'checks', 'covers', 'time', 'unwind_fail', 'timeout'}"""
    r = {"status": None, "failed": [], "checks": 0, "covers": None, "time": 0.0, "unwind_fail": False, "timeout": False}
    last = None
    for line in out.splitlines():
        m = re.match(r"\s*- Status: (\w+)", line)
        if m:
            last = m.group(1)
            r["checks"] += 1
            continue
        m = re.match(r"\s*- Description: \"(.*)\"", line)
        if m:
            if last == "FAILURE":
                r["failed"].append(m.group(1))
                if "unwinding assertion" in m.group(1):
                    r["unwind_fail"] = True
            continue
        m = re.match(r"\s*\*\* (\d+) of (\d+) cover properties satisfied", line)
        if m:
            r["covers"] = (int(m.group(1)), int(m.group(2)))
            continue
        m = re.match(r"VERIFICATION:- (\w+)", line)
        if m:
            r["status"] = m.group(1)
            continue
        if "CBMC timed out" in line or "out of memory" in line.lower():
            r["timeout"] = True
        m = re.match(r"Verification Time: ([\d.]+)s", line)
        if m:
            r["time"] = float(m.group(1))
    return r


def run_kani(rep, scratch, package, injections, expect_fail_prefixes=("twin_must_fail",), timeout=1800, extra=None, jobs=12,
             harness_filter=None, label="", harness_timeout=300):
    """injections: [(relative source file, absolute harness file, module name)].
    Adds one Query per harness to rep. Harness names containing an expect_fail marker are vacuity twins."""
    local_files = []
    for rel, hf, mod in injections:
        lf = inject(scratch.repo, rel, hf, mod)
        if not lf:
            rep.add(Query("kani inject %s" % rel, "inconclusive", "anchored source file not found", 0, "kani"))
            return {}
        local_files.append(lf)
    env = dict(ENV)
    env["CARGO_TARGET_DIR"] = scratch.target
    outdir = os.path.join(scratch.repo, "result_output_dir")
    shutil.rmtree(outdir, ignore_errors=True)
    cmd = ["cargo", "kani", "-p", package, "-Z", "stubbing", "-Z", "unstable-options", "-j", str(jobs), "--output-format", "terse",
           "--output-into-files", "--harness-timeout", "%ds" % harness_timeout]
    if harness_filter:
        for h in harness_filter:
            cmd += ["--harness", h]
    if extra:
        cmd += extra
    rc, out, err, secs = run(cmd, cwd=scratch.repo, env=env, timeout=timeout)
    res = {}
    if os.path.isdir(outdir):
        for f in sorted(os.listdir(outdir)):
            res[f] = parse_kani_output(open(os.path.join(outdir, f), errors="replace").read())
    if not res:
        rep.add(Query("kani %s %s" % (package, label), "inconclusive", "no harness output rc=%s: %s" % (rc, (out + err)[-1500:]), secs, "kani"))
        return res
    for h, r in sorted(res.items()):
        short = h.split("::")[-1]
        twin = any(p in short for p in expect_fail_prefixes)
        if r["timeout"] or r["status"] is None:
            rep.add(Query("kani %s" % short, "inconclusive", "no verdict within %ds (CBMC timed out / no status; rc=%s)" % (harness_timeout, rc),
                          r["time"] or harness_timeout, "kani/cbmc", key=short))
        elif twin:
            ok = r["status"] == "FAILED" and not r["unwind_fail"] and r["failed"]
            rep.add(Query("kani vacuity twin %s (must fail)" % short, "witness-hit" if ok else "witness-missed",
                          "; ".join(r["failed"][:3]), r["time"], "kani/cbmc"))
        elif r["status"] == "SUCCESSFUL":
            cov = r["covers"]
            if cov and cov[0] < cov[1]:
                rep.add(Query("kani %s" % short, "witness-missed", "only %d of %d cover! witnesses satisfied" % cov, r["time"], "kani/cbmc"))
            else:
                rep.add(Query("kani %s" % short, "holds", "%d checks, covers %s" % (r["checks"], cov), r["time"], "kani/cbmc", key=short))
        else:
            real = [f for f in r["failed"] if "unwinding" not in f]
            if not real:
                rep.add(Query("kani %s" % short, "inconclusive", "FAILED without a property failure (unwinding bound too small or tool error): %s"
                              % "; ".join(r["failed"][:3]), r["time"], "kani/cbmc", key=short))
            else:
                reproduced, rpath, detail = kani_replay(scratch, package, env, h, short, local_files, rep.pid)
                if reproduced:
                    rep.traces_validated += 1
                rep.add(Query("kani %s" % short, "violated" if reproduced is not None else "inconclusive",
                              "; ".join(real[:5]) + " || replay: " + detail, r["time"], "kani/cbmc", key=short,
                              replay=rpath, reproduced=reproduced))
    return res
