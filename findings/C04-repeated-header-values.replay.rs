// append to proxy_agent/src/common/hyper_client.rs; cargo test -p azure-proxy-agent verif_replay_c04_headers

#[cfg(test)]
mod verif_replay_c04_headers {
    #[test]
    fn c04_every_header_value_is_in_the_canonical_string() {
        let mut headers = hyper::HeaderMap::new();
        headers.append("x-verif", hyper::header::HeaderValue::from_static("z"));
        headers.append("x-verif", hyper::header::HeaderValue::from_static("a"));
        let canon = super::headers_to_canonicalized_string(&headers);
        for v in ["z", "a"] {
            assert!(canon.contains(&format!("x-verif:{}", v.trim())), "header value {:?} is missing from the canonical headers {:?}", v, canon);
        }
    }
}
