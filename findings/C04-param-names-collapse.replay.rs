// append to proxy_agent/src/common/hyper_client.rs; cargo test -p azure-proxy-agent verif_replay_c04_params

#[cfg(test)]
mod verif_replay_c04_params {
    #[test]
    fn c04_every_query_parameter_is_in_the_canonical_string() {
        let url: hyper::Uri = "http://localhost/p?ZZ=&Z=z".parse().unwrap();
        let pairs = super::query_pairs(&url);
        let canon = super::get_path_and_canonicalized_parameters(&url).1;
        let items: Vec<&str> = canon.split('&').collect();
        for (k, v) in pairs {
            let want = if v.is_empty() { k.to_lowercase() } else { format!("{}={}", k.to_lowercase(), v) };
            assert!(items.contains(&want.as_str()), "parameter {:?}={:?} of {:?} is missing from the canonical parameters {:?}", k, v, "http://localhost/p?ZZ=&Z=z", canon);
        }
    }
}
