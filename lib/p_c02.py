"""C02 RBAC decision = declared semantics (engine M). Matchers and the three-way decision are checked against the
reference of the property statement; flattening (from_authorization_item) is checked structurally (see check_flatten)."""
from mcommon import *


def implied(r, cond):
    rs, _m, _dt, _zm = check_sat(r.pc + [z3.Not(cond)])
    return rs == "unsat"

import smtstr

LOWER = re.compile(r"(str::to_lowercase|String::to_lowercase|to_ascii_lowercase)$")


def str_term(events, v, names, depth=0):
    """SMT-LIB string term of a value, following to_lowercase / conversions; leaves become named variables."""
    v0 = v
    v = origin(v)
    if isinstance(v, Ref):
        v = v.val.v if (v.frame is None and isinstance(v.val, Cell)) else v
    if isinstance(v, StrV):
        return smtstr.lit(v.e.as_string())
    if isinstance(v, Sym) and isinstance(v.tag, tuple):
        if v.tag[0] == "ret" and LOWER.search(v.tag[1]):
            for e in events:
                if e.ret is v:
                    return "(str.to_lower %s)" % str_term(events, e.rargs[0], names, depth + 1)
        if v.tag[0] == "part" and v.tag[2] == "*":
            return str_term(events, v.tag[1], names, depth + 1)
        if v.tag[0] == "ret" and re.search(r"(as_str|as_ref|deref|borrow|to_string|to_owned|clone)$", v.tag[1]):
            for e in events:
                if e.ret is v:
                    return str_term(events, e.rargs[0], names, depth + 1)
        for key, (pred, nm) in names.items():
            if pred(v):
                return nm
    raise Inconclusive("cannot express %r as a string term" % (v0,))


def self_field(ctx, me, struct, field):
    return origin(me).child("*").child(("f", ctx.field(struct, field)))


def is_self_field(ctx, me, struct, field):
    tgt = self_field(ctx, me, struct, field)
    return lambda v: same_origin(v, tgt) or is_part_of(v, tgt)


def check_privilege_match(rep, ctx, tier):
    path = ctx.method("Privilege", "is_match")
    eng = ctx.engine(loop_bound=2)
    paths = eng.explore(path)
    rep.functions_encoded.append(path)
    done_fold = False
    n_true = 0
    for i, r in enumerate(paths):
        if r.status != "return":
            continue
        me, url = r.args[0], r.args[2]
        sw = [e for e in r.events if e.kind == "call" and e.callee.endswith("starts_with")]
        if len(sw) != 1:
            rep.add(Query("Privilege::is_match path %d: one prefix test" % i, "violated", "%d starts_with calls" % len(sw), 0, "mirsym", key="C02.priv.shape", reproduced=None))
            continue
        sw = sw[0]

        def is_url_path(v):
            if isinstance(v, Sym) and v.tag[0] == "ret" and v.tag[1].endswith("Uri::path"):
                for e in r.events:
                    if e.ret is v:
                        return same_origin(e.rargs[0], url) or is_part_of(e.rargs[0], url)
            return False
        names = {"url": (is_url_path, "url_path"), "rule": (is_self_field(ctx, me, "Privilege", "path"), "rule_path")}
        if not done_fold:
            done_fold = True
            try:
                hay, pat = str_term(r.events, sw.rargs[0], names), str_term(r.events, sw.rargs[1], names)
            except Inconclusive as ex:
                rep.add(Query("Privilege::is_match: path test expressed over (rule path, url path)", "inconclusive", str(ex), 0, "mirsym", key="C02.priv.path-fold"))
                hay = None
            if hay is not None:
                N = 4 if tier == "quick" else 8
                smt = "(set-logic ALL)\n(declare-const url_path String)\n(declare-const rule_path String)\n" + \
                    smtstr.ascii_bounded("url_path", N) + smtstr.ascii_bounded("rule_path", N) + \
                    "(assert (str.prefixof \"/\" url_path))\n(assert (str.prefixof \"/\" rule_path))\n" \
                    "(assert (not (= (str.prefixof %s %s) (str.prefixof (str.to_lower rule_path) (str.to_lower url_path)))))\n(check-sat)\n(get-model)\n" % (pat, hay)
                res, model, dt, raw = smtstr.run_cvc5(smt)
                qn = "Privilege::is_match: prefix test `%s starts_with %s` == case-insensitive prefix of (rule path, url path), strings <= %d ASCII chars" % (hay, pat, N)
                if res == "unsat":
                    rep.add(Query(qn, "holds", "", dt, "mirsym+cvc5", key="C02.priv.path-fold"))
                elif res == "sat":
                    confirm_priv_path(rep, qn, model, dt)
                else:
                    rep.add(Query(qn, "inconclusive", raw, dt, "mirsym+cvc5", key="C02.priv.path-fold"))
        # control structure: ret <=> prefix ok && for every listed pair: found && value equal
        nx = [e for e in r.events if e.kind == "call" and re.search(r"hash_map::Iter.*::next$", e.callee)]
        fd = [e for e in r.events if e.kind == "call" and e.callee.endswith("::find")]
        conj = [sw.ret.scalar("bool")]
        qp_idx = ctx.field("Privilege", "queryParameters")
        qp_present = self_field(ctx, me, "Privilege", "queryParameters").discr() == 1
        listed = [e for e in nx if True]
        ok_shape = True
        eqs = []
        for k, e in enumerate(nx):
            some = e.ret.discr() == 1
            rs, _m, _dt, _zm = check_sat(r.pc + [some])
            if rs != "sat":
                continue
            if k >= len(fd):
                ok_shape = False
                break
            f = fd[k]
            found = f.ret.discr() == 1
            # the value comparison of this iteration: the boolean the path branched on after the find
            conj.append(z3.Implies(some, found))
            eqs.append((e, f))
        ret = r.ret.e if isinstance(r.ret, Scalar) else None
        if ret is None or not ok_shape:
            rep.add(Query("Privilege::is_match path %d: shape" % i, "inconclusive", "unexpected shape", 0, "mirsym", key="C02.priv.shape"))
            continue
        # necessary direction, decided by the solver: a true result implies the prefix matched and every listed key was found
        bad = add_query(rep, "Privilege::is_match path %d: true => path prefix matched and every listed key found in the URL" % i,
                        r.pc + [ret, z3.Not(z3.And(conj))], key="C02.priv.necessary")
        if bad:
            rep.add(Query("Privilege::is_match path %d: true => prefix && all keys found" % i, "violated", str(bad[0]), bad[1], "mirsym+z3", key="C02.priv.necessary", model=bad[0], reproduced=None))
        # sufficient direction: result false only after a failed prefix / missing key / unequal value
        if z3.is_false(z3.simplify(ret)):
            reasons = [z3.Not(sw.ret.scalar("bool"))] + [f.ret.discr() == 0 for (_e, f) in eqs]
            valcmp = value_comparisons(r)
            reasons += [z3.Not(c) for c in valcmp]
            bad = add_query(rep, "Privilege::is_match path %d: false only if prefix fails, a listed key is absent or a listed value differs" % i,
                            r.pc + [z3.Not(z3.Or(reasons))], key="C02.priv.sufficient")
            if bad:
                rep.add(Query("Privilege::is_match path %d: unjustified false" % i, "violated", str(bad[0]), bad[1], "mirsym+z3", key="C02.priv.sufficient", model=bad[0], reproduced=None))
        else:
            n_true += 1
        # data-flow of each value comparison: lower(found value) == lower(listed value)
        for (e, f) in eqs:
            vc = value_comparison_operands(r, e, f)
            if vc is None:
                continue
            okv = vc
            rep.add(Query("Privilege::is_match path %d: listed value is compared case-insensitively with the URL value of the found pair" % i,
                          "holds" if okv else "violated", "", 0, "mirsym", key="C02.priv.value-fold", reproduced=None))
        for f in fd:
            cl = f.rargs[1] if len(f.rargs) > 1 else None
            okq = isinstance(origin(f.rargs[0]), Sym) and _from_query_pairs(r, f.rargs[0], url)
            rep.add(Query("Privilege::is_match path %d: pairs are searched in query_pairs(request url)" % i, "holds" if okq else "violated", "", 0, "mirsym", key="C02.priv.pairs-source", reproduced=None))
    rep.add(Query("witness: Privilege::is_match has true paths", "witness-hit" if n_true else "witness-missed", "%d" % n_true, 0, "mirsym"))
    # the key comparison closure
    captured_lowered = []
    cl = [p for p in ctx.idx.files if p.startswith(path + "::{closure")]
    for c in cl:
        e2 = ctx.engine()
        for r in e2.explore(c):
            lows = [e for e in r.events if e.kind == "call" and LOWER.search(e.callee)]
            ret = r.ret
            env = origin(r.args[0])
            elem = origin(r.args[1]) if len(r.args) > 1 else None
            # the result is an equality of two strings: lower(a part of the searched element) and the listed key lowered - either
            # lowered here (lower(captured key)) or captured already lowered (then the capture is checked at the find() call below)
            sides = []
            if isinstance(ret, Scalar) and z3.is_eq(ret.e):
                cmp_ev = [e for e in r.events if e.kind == "streq"]
                ops = cmp_ev[-1].rargs if cmp_ev else []
                for x in ops:
                    xo = origin(x)
                    lw = [e for e in lows if same_origin(e.ret, xo)]
                    if lw and elem is not None and is_part_of(origin(lw[0].rargs[0]), elem):
                        sides.append("lower-of-element")
                    elif lw and is_part_of(origin(lw[0].rargs[0]), env):
                        sides.append("lower-of-captured")
                    elif isinstance(xo, Sym) and is_part_of(xo, env):
                        idx = [k[1] for k in _part_chain(xo, env) if isinstance(k, tuple) and k[0] == "f"]
                        sides.append(("captured", idx[0] if idx else None))
                    else:
                        sides.append("other")
            ok = len(sides) == 2 and "lower-of-element" in sides and any(s_ == "lower-of-captured" or isinstance(s_, tuple) for s_ in sides)
            for s_ in sides:
                if isinstance(s_, tuple):
                    captured_lowered.append((c, s_[1]))
            rep.add(Query("key-search closure: lower(url key) == lower(listed key)", "holds" if ok else "violated",
                          "ret %r sides %s" % (ret, sides), 0, "mirsym", key="C02.priv.key-fold", reproduced=None))
        rep.functions_encoded.append(c)
    # a key captured already lowered: at every find() the captured value is to_lowercase(listed key of this iteration)
    for (cpath, idx) in captured_lowered:
        n_ok = n_bad = 0
        for i, r in enumerate(paths):
            if r.status != "return":
                continue
            nxs = [e for e in r.events if e.kind == "call" and re.search(r"hash_map::Iter.*::next$", e.callee)]
            for f in [e for e in r.events if e.kind == "call" and e.callee.endswith("::find")]:
                clo = f.rargs[1] if len(f.rargs) > 1 else None
                if not (isinstance(clo, Agg) and clo.body_path == cpath and idx is not None and idx < len(clo.fields)):
                    continue
                cap = origin(clo.fields[idx])
                if isinstance(cap, Sym) and cap.tag[0] == "part" and cap.tag[2] == "*":
                    cap = origin(cap.tag[1])
                lw = [e for e in r.events if e.kind == "call" and LOWER.search(e.callee) and same_origin(e.ret, cap)]
                before = [e for e in nxs if r.events.index(e) < r.events.index(f)]
                good = bool(lw) and bool(before) and is_part_of(origin(lw[0].rargs[0]), before[-1].ret)
                n_ok += good
                n_bad += not good
        rep.add(Query("key-search closure: the captured key is to_lowercase(listed key of this iteration) at every find()", "holds" if n_ok and not n_bad else "violated",
                      "%d ok / %d bad" % (n_ok, n_bad), 0, "mirsym", key="C02.priv.key-fold", reproduced=None))
    rep.bounds["Privilege::is_match"] = "<= 2 listed query parameters (loop bound 2); URLs without duplicate keys (find = first match); rule/url path <= %d ASCII chars for the case-fold query" % (4 if tier == "quick" else 8)


def _part_chain(part, whole):
    chain, cur = [], origin(part)
    whole = origin(whole)
    for _ in range(40):
        if cur is whole or (isinstance(cur, Sym) and isinstance(whole, Sym) and cur.root() is whole.root()):
            break
        if isinstance(cur, Sym) and isinstance(cur.tag, tuple) and cur.tag[0] == "part":
            chain.append(cur.tag[2])
            cur = origin(cur.tag[1])
        else:
            break
    chain.reverse()
    return chain


def value_comparisons(r):
    """z3 booleans of the `lower(v) == lower(value)` tests on the path (string equalities branched on after a find)"""
    out = []
    for c in r.pc:
        pass
    lows = [e for e in r.events if e.kind == "call" and LOWER.search(e.callee)]
    strs = {str(e.ret.string()) for e in lows}
    for c in r.pc:
        cc = c
        neg = False
        if z3.is_not(cc):
            cc = cc.arg(0); neg = True
        if z3.is_eq(cc) and str(cc.arg(0)) in strs and str(cc.arg(1)) in strs:
            out.append(cc)
    return out


def value_comparison_operands(r, next_ev, find_ev):
    """True iff some lower()==lower() test on the path compares (found pair).1 with (listed pair).1"""
    lows = [e for e in r.events if e.kind == "call" and LOWER.search(e.callee) and r.events.index(e) > r.events.index(find_ev)]
    if len(lows) < 2:
        return None
    a, b = lows[0], lows[1]
    srcs = [origin(a.rargs[0]), origin(b.rargs[0])]
    from_found = [s for s in srcs if is_part_of(s, find_ev.ret)]
    from_listed = [s for s in srcs if is_part_of(s, next_ev.ret)]
    return len(from_found) == 1 and len(from_listed) == 1


def _from_query_pairs(r, it, url):
    o = origin(it)
    for _ in range(4):
        if isinstance(o, Sym) and o.tag[0] == "ret":
            for e in r.events:
                if e.ret is o:
                    if e.callee.endswith("query_pairs"):
                        return same_origin(e.rargs[0], url) or is_part_of(e.rargs[0], url)
                    o = origin(e.rargs[0]) if e.rargs else None
                    break
            else:
                return False
        else:
            return False
    return False


PRIV_TEST = '''
#[cfg(test)]
mod verif_replay_c02_priv {
    use crate::proxy::proxy_connection::ConnectionLogger;
    use std::str::FromStr;
    #[test]
    fn c02_rule_path_case() {
        let privilege: crate::key_keeper::key::Privilege = serde_json::from_str(r#####"{"name":"p","path":%(rule)s}"#####).unwrap();
        let url = hyper::Uri::from_str(%(url)s).unwrap();
        let mut logger = ConnectionLogger::new(0, 0);
        let got = privilege.is_match(&mut logger, &url);
        let expected = url.path().to_lowercase().starts_with(&%(rule)s.to_lowercase());
        assert_eq!(got, expected, "rule path {:?} vs request path {:?}: case-insensitive prefix is {}", %(rule)s, url.path(), expected);
    }
}
'''


def confirm_priv_path(rep, qn, model, dt):
    import replay
    rule, url = model.get("rule_path", "/"), model.get("url_path", "/")
    code = PRIV_TEST % {"rule": json.dumps(rule), "url": json.dumps("http://localhost" + url)}
    res, out = replay.run_rust_tests("azure-proxy-agent", [("proxy_agent/src/key_keeper/key.rs", code)], "verif_replay_c02_priv")
    path = save_replay("C02", "rule_path_case.rs", "// append to proxy_agent/src/key_keeper/key.rs; cargo test -p azure-proxy-agent verif_replay_c02_priv\n" + code)
    st = (res or {}).get("c02_rule_path_case")
    if st == "FAILED":
        rep.traces_validated += 1
        rep.add(Query(qn, "violated", "cvc5 model rule_path=%r url_path=%r; reproduced by generated test" % (rule, url), dt, "mirsym+cvc5", key="C02.priv.path-fold",
                      model=model, replay=path, reproduced=True))
    elif st == "ok":
        rep.add(Query(qn, "violated", "cvc5 model rule_path=%r url_path=%r did not reproduce natively" % (rule, url), dt, "mirsym+cvc5", key="C02.priv.path-fold", model=model, replay=path, reproduced=False))
    else:
        rep.add(Query(qn, "inconclusive", "replay did not run: %s" % (out or "")[-300:], dt, "mirsym+cvc5", key="C02.priv.path-fold", model=model, replay=path))


def derives_from(v, base):
    """v is base, a part of base, or a conversion (into/from/to_string/clone/deref) of one of those"""
    names, b = conv_chain(origin(v) if not (isinstance(v, Sym) and v.tag and v.tag[0] == "conv") else v)
    for cand in (v, b):
        c = origin(cand)
        if same_origin(c, base) or is_part_of(c, base):
            return True
        if isinstance(c, Sym) and c.tag[0] == "part" and c.tag[2] == "*" and (same_origin(c.tag[1], base) or is_part_of(c.tag[1], base)):
            return True
    return False


def check_identity_match(rep, ctx):
    path = ctx.method("Identity", "is_match")
    eng = ctx.engine(loop_bound=3)
    paths = eng.explore(path)
    rep.functions_encoded.append(path)
    attrs = [("userName", "userName"), ("processName", "processName"), ("exePath", "processFullPath")]
    n_true = n = 0
    for i, r in enumerate(paths):
        if r.status != "return":
            continue
        n += 1
        me, claims = r.args[0], r.args[2]
        ret = r.ret.e if isinstance(r.ret, Scalar) else None
        if ret is None:
            rep.add(Query("Identity::is_match path %d returns a boolean" % i, "inconclusive", repr(r.ret), 0, "mirsym"))
            continue
        cmps = [e for e in r.events if e.kind == "streq"]
        claims_v = origin(claims).child("*")
        conj, missing = [], []
        for (idf, clf) in attrs:
            opt = self_field(ctx, me, "Identity", idf)
            present = opt.discr() == 1
            rule_val = opt.child(("v", "Some", 0))
            claim_val = claims_v.child(("f", ctx.field("Claims", clf)))
            hit = [e for e in cmps if any(derives_from(x, rule_val) for x in e.rargs) and any(derives_from(x, claim_val) for x in e.rargs)]
            if hit:
                conj.append(z3.Implies(present, hit[0].extra))
            else:
                conj.append(z3.Not(present))      # a true result with this attribute stated but never compared is a violation
                missing.append(idf)
        gopt = self_field(ctx, me, "Identity", "groupName")
        gpresent = gopt.discr() == 1
        gval = gopt.child(("v", "Some", 0))
        groups_v = claims_v.child(("f", ctx.field("Claims", "userGroups")))
        nexts = [e for e in r.events if e.kind == "call" and e.callee.endswith("::next")]
        ghits = [e for e in cmps if any(derives_from(x, gval) for x in e.rargs) and any(any(is_part_of(x, nx.ret) for nx in nexts) for x in e.rargs)]
        conj.append(z3.Implies(gpresent, z3.Or([e.extra for e in ghits]) if ghits else z3.BoolVal(False)))
        bad = add_query(rep, "Identity::is_match path %d: true => every stated attribute (user, process name, exe path) equals the caller's and a stated group is one of the caller's groups" % i,
                        r.pc + [ret, z3.Not(z3.And(conj))], key="C02.ident.necessary", detail="uncompared on this path: %s" % missing)
        if bad:
            rep.add(Query("Identity::is_match path %d: true although a stated attribute differs or is never compared" % i, "violated", "uncompared %s; model %s" % (missing, bad[0]), bad[1],
                          "mirsym+z3", key="C02.ident.necessary", model=bad[0], reproduced=None))
        # false only for a reason: some comparison on the path came out false, or the group list was exhausted without a match
        reasons = [z3.Not(e.extra) for e in cmps] + [z3.And(gpresent, nx.ret.discr() == 0) for nx in nexts]
        bad = add_query(rep, "Identity::is_match path %d: false only if some stated attribute differs / no caller group equals the stated group" % i,
                        r.pc + [z3.Not(ret), z3.Not(z3.Or(reasons)) if reasons else z3.BoolVal(True)], key="C02.ident.sufficient")
        if bad:
            rep.add(Query("Identity::is_match path %d: unjustified false" % i, "violated", str(bad[0]), bad[1], "mirsym+z3", key="C02.ident.sufficient", model=bad[0], reproduced=None))
        # the iterated groups are the caller's groups
        for nx in nexts:
            it = origin(nx.rargs[0])
            okg = _iter_over(r, it, groups_v)
            rep.add(Query("Identity::is_match path %d: the groups iterated are claims.userGroups" % i, "holds" if okg else "violated", "", 0, "mirsym", key="C02.ident.groups-source", reproduced=None))
        if z3.is_true(z3.simplify(ret)):
            n_true += 1
    rep.add(Query("witness: Identity::is_match has true and false paths", "witness-hit" if n_true and n > n_true else "witness-missed", "%d/%d" % (n_true, n), 0, "mirsym"))
    rep.bounds["Identity::is_match"] = "<= 3 caller groups iterated (loop bound 3); OsString/PathBuf equality modelled as equality of the underlying text (Path normalisation such as a//b = a/b outside)"


def _iter_over(r, it, coll):
    """the iterator value `it` was produced (into_iter / iter) from `coll`"""
    cur = it
    for _ in range(6):
        cur = origin(cur)
        if same_origin(cur, coll) or is_part_of(cur, coll) or derives_from(cur, coll):
            return True
        if isinstance(cur, Sym) and cur.tag[0] == "ret":
            for e in r.events:
                if e.ret is cur and e.rargs:
                    cur = e.rargs[0]
                    break
            else:
                return False
            continue
        if isinstance(cur, Sym) and cur.tag[0] == "part":
            cur = cur.tag[1]
            continue
        return False
    return False


def check_decision(rep, ctx):
    """ComputedAuthorizationItem::is_allowed == three-way decision of the statement, leaf matchers uninterpreted."""
    path = ctx.method("ComputedAuthorizationItem", "is_allowed")
    eng = ctx.engine(loop_bound=2)
    paths = eng.explore(path)
    rep.functions_encoded.append(path)
    AM = ctx.enums["AuthorizationMode"]
    n = 0
    kinds = {"allow-match": 0, "deny-matched": 0, "default": 0, "disabled": 0}
    for i, r in enumerate(paths):
        if r.status != "return":
            continue
        n += 1
        me = r.args[0]
        mode = self_field(ctx, me, "ComputedAuthorizationItem", "mode").discr()
        default = self_field(ctx, me, "ComputedAuthorizationItem", "defaultAllowed")
        pm = [e for e in r.events if e.kind == "call" and e.callee.endswith("Privilege::is_match")]
        im = [e for e in r.events if e.kind == "call" and e.callee.endswith("Identity::is_match")]
        b = [e.ret.scalar("bool") for e in pm]
        c = [e.ret.scalar("bool") for e in im]
        # an identity match counts only if it belongs to a matched privilege's assignment: structurally, every Identity::is_match
        # event on the path follows a Privilege::is_match that the path condition makes true
        granted = []
        for e in im:
            prev = [p for p in pm if r.events.index(p) < r.events.index(e)]
            if prev:
                granted.append(z3.And(prev[-1].ret.scalar("bool"), e.ret.scalar("bool")))
        any_match = z3.Or(b) if b else z3.BoolVal(False)
        any_grant = z3.Or(granted) if granted else z3.BoolVal(False)
        if isinstance(r.ret, Scalar):
            ret = r.ret.e
        elif same_origin(r.ret, default) or is_part_of(r.ret, default):
            ret = default.scalar("bool")
        else:
            rep.add(Query("is_allowed path %d: return value is a boolean or defaultAllowed" % i, "violated", repr(r.ret), 0, "mirsym", key="C02.decision.ret", reproduced=None))
            continue
        ref = z3.If(mode == AM.index("Disabled"), z3.BoolVal(True), z3.If(any_grant, z3.BoolVal(True), z3.If(any_match, z3.BoolVal(False), default.scalar("bool"))))
        bad = add_query(rep, "is_allowed path %d: decision = disabled ? allow : (granted ? allow : (some privilege matched ? deny : default))" % i,
                        r.pc + [ret != ref], key="C02.decision")
        if bad:
            rep.add(Query("is_allowed path %d: decision differs from the declared semantics" % i, "violated",
                          "events: %s; model %s" % ([e.callee.split("::")[-2] for e in pm + im], bad[0]), bad[1], "mirsym+z3", key="C02.decision", model=bad[0], reproduced=None,
                          replay=save_replay("C02", "decision_path%d.json" % i, json.dumps({"model": bad[0], "decisions": r.decisions}, indent=1))))
        # every privilege the iteration yields is put to the URL test: "some privilege matches the URL" ranges over ALL defined privileges,
        # also those nobody is assigned to (such a match still turns the default into a deny)
        pnx = [e for e in r.events if e.kind == "call" and re.search(r"hash_map::Values<.*> as Iterator>::next$|Values.*::next$", e.callee)]
        for k, e in enumerate(pnx):
            if not (implied(r, e.ret.discr() == 1)):
                continue
            end = r.events.index(pnx[k + 1]) if k + 1 < len(pnx) else len(r.events)
            tested = [m for m in pm if r.events.index(e) < r.events.index(m) < end and (is_part_of(origin(m.rargs[0]), e.ret) or same_origin(m.rargs[0], e.ret.child(("v", "Some", 0))))]
            if not tested:
                rep.add(Query("is_allowed path %d: every privilege yielded by the iteration is tested against the URL before the next one" % i, "violated", "privilege %d of the iteration is skipped without is_match" % k, 0, "mirsym+z3",
                              key="C02.decision.every-privilege-tested", reproduced=None))
            elif tested:
                rep.add(Query("is_allowed path %d: every privilege yielded by the iteration is tested against the URL before the next one" % i, "holds", "", 0, "mirsym+z3", key="C02.decision.every-privilege-tested"))
        # a refusal (deny, or falling back to the default) is a statement about ALL privileges: it may be returned only after the
        # iteration over the privileges is exhausted (a grant by a privilege the loop never reached would be lost, and which one is
        # reached first depends on hash order). An allow may be returned as soon as one grant is found.
        if pnx and implied(r, mode != AM.index("Disabled")):
            exhausted = implied(r, pnx[-1].ret.discr() == 0)
            rs_allow, _m, _dt, _zm = check_sat(r.pc + [z3.Not(ret)])
            if rs_allow == "sat":            # the path can answer "not allowed"
                ok = exhausted or (isinstance(r.ret, Scalar) is False and exhausted)
                rep.add(Query("is_allowed path %d: a refusal is returned only after every privilege was examined (iterator exhausted)" % i, "holds" if exhausted else "violated",
                              "the path answers false after %d privilege(s) with the iteration still open" % len(pnx), 0, "mirsym+z3", key="C02.decision.refusal-after-all", reproduced=None))
        # every identity consulted is the one NAMED by an assignment of the matched privilege and DEFINED in identities
        for e in im:
            idv = origin(e.rargs[0])
            gets = [g for g in r.events if g.kind == "call" and g.callee.endswith("HashMap::get") and r.events.index(g) < r.events.index(e)]
            ok = bool(gets) and is_part_of(idv, gets[-1].ret, None)
            rep.add(Query("is_allowed path %d: the identity consulted is the defined identity looked up by the assigned name" % i, "holds" if ok else "violated", "", 0, "mirsym",
                          key="C02.decision.identity-source", reproduced=None))
        for nm, cond in (("allow-match", any_grant), ("deny-matched", z3.And(any_match, z3.Not(any_grant))), ("default", z3.Not(any_match)), ("disabled", mode == AM.index("Disabled"))):
            rs, _m, _dt, _zm = check_sat(r.pc + [cond])
            if rs == "sat":
                kinds[nm] += 1
    for k, v in kinds.items():
        rep.add(Query("witness: is_allowed has %s paths" % k, "witness-hit" if v else "witness-missed", "%d" % v, 0, "mirsym+z3"))
    rep.bounds["is_allowed"] = "<= 2 privileges x <= 2 assigned identity names per privilege (loop bound 2), any iteration order (iterator results are unconstrained), leaf matcher results free booleans"


def _guard(r, kind_rx, map_v, key_v, before_idx):
    """latest event `kind_rx`(map_v, key_v) before index before_idx on path r"""
    best = None
    for k, e in enumerate(r.events[:before_idx]):
        if e.kind == "call" and re.search(kind_rx, e.callee) and len(e.rargs) >= 2 and same_origin(e.rargs[0], map_v) and same_origin(e.rargs[1], key_v):
            best = e
    return best


def check_flatten(rep, ctx, tier):
    """from_authorization_item: privilegeAssignments only ever GROWS, by exactly the (defined privilege of a found role, defined
    identity of that assignment) pairs. With the loop invariant this gives assigned(p,i) <=> exists assignment/role as declared."""
    path = ctx.method("ComputedAuthorizationItem", "from_authorization_item")
    eng = ctx.engine(loop_bound=1 if tier == "quick" else 2, max_paths=40000, timeout=900)
    paths = eng.explore(path)
    rep.functions_encoded.append(path)
    n_ins = n_setins = 0
    MUT = re.compile(r"(HashMap|HashSet)::(insert|remove|clear|retain|drain|extend|entry|get_mut|remove_entry|take|replace)$")
    seen_viol = set()

    def viol(key, name, detail, r):
        if key in seen_viol:
            return
        seen_viol.add(key)
        rep.add(Query(name, "violated", detail, 0, "mirsym+z3", key=key, reproduced=None,
                      replay=save_replay("C02", re.sub(r"\W+", "_", key) + ".json", json.dumps({"obligation": name, "detail": detail, "decisions": r.decisions[:80]}, indent=1))))
    counts = {"F1": 0, "F2": 0, "F4": 0}
    counted = set()
    for r in paths:
        evs = r.events
        entry_ok = set()
        for x in evs:
            if x.kind == "call" and re.search(r"Entry<.*>::(or_default|or_insert|or_insert_with)$|Entry::(or_default|or_insert|or_insert_with)$", x.callee):
                if x.callee.endswith("or_default") or (len(x.rargs) > 1 and re.search(r"HashSet::new|HashSet<.*>::new|Default", repr(origin(x.rargs[1]))) is not None):
                    for y in evs[:evs.index(x)]:
                        if y.kind == "call" and y.callee.endswith("HashMap::entry") and same_origin(y.ret, x.rargs[0]):
                            entry_ok.add(id(y))
        # the assignments map: the one whose get_mut result receives HashSet::insert, or that is inserted with a HashSet
        setins = [e for e in evs if e.kind == "call" and e.callee.endswith("HashSet::insert")]
        mapins = [e for e in evs if e.kind == "call" and e.callee.endswith("HashMap::insert")]
        news = [e for e in evs if e.kind == "call" and e.callee.endswith("HashMap::new")]
        for e in mapins:
            n_ins += 1
            M, K, V = e.rargs[0], e.rargs[1], e.rargs[2]
            i = evs.index(e)
            g = _guard(r, r"HashMap::contains_key$", M, K, i)
            ok = g is not None
            if ok:
                rs, _m, _dt, _zm = check_sat(r.pc + [g.ret.scalar("bool")])
                ok = rs == "unsat"          # the path condition implies the key was absent
            vo = origin(V)
            fresh_set = isinstance(vo, Sym) and vo.tag[0] == "ret" and vo.tag[1].endswith("HashSet::new") and \
                not [x for x in setins if same_origin(x.rargs[0], V) and evs.index(x) < i]
            counts["F1"] += 1
            if not (ok and fresh_set):
                viol("C02.flatten.no-overwrite", "from_authorization_item: an assignment entry is created only when the privilege has none yet, and created empty (earlier grantees are never replaced)",
                     "insert guarded by a false contains_key: %s; value is a fresh empty set: %s" % (ok, fresh_set), r)
        for e in setins:
            n_setins += 1
            S, name = e.rargs[0], e.rargs[1]
            i = evs.index(e)
            # S = unwrap(get_mut(M, pkey))
            so = origin(S)
            gm = None
            for x in evs[:i]:
                if x.kind == "call" and x.callee.endswith("HashMap::get_mut") and (is_part_of(so, x.ret) or _unwrap_of(evs, so, x.ret)):
                    gm = x
            if gm is None:
                # Entry API: entry(M, key).or_default() / .or_insert(HashSet::new()) / .or_insert_with(HashSet::new) is "the set stored under
                # key, created empty if absent": it never replaces an existing set (F1 by construction) and is the stored set (F2)
                for x in evs[:i]:
                    if x.kind == "call" and re.search(r"Entry<.*>::(or_default|or_insert|or_insert_with)$|Entry::(or_default|or_insert|or_insert_with)$", x.callee) and \
                            (same_origin(so, x.ret) or is_part_of(so, x.ret) or _unwrap_of(evs, so, x.ret)):
                        en = [y for y in evs[:evs.index(x)] if y.kind == "call" and y.callee.endswith("HashMap::entry") and same_origin(y.ret, x.rargs[0])]
                        init_ok = x.callee.endswith("or_default") or (len(x.rargs) > 1 and re.search(r"HashSet::new|HashSet<.*>::new|Default", repr(origin(x.rargs[1]))) is not None)
                        if en and init_ok:
                            class _G:
                                pass
                            gm = _G()
                            gm.rargs = [en[-1].rargs[0], en[-1].rargs[1]]
                            entry_ok.add(id(en[-1]))
                            if id(x) not in counted:
                                counted.add(id(x))
                                n_ins += 1
            counts["F2"] += 1
            if gm is None:
                viol("C02.flatten.set-source", "from_authorization_item: identities are added to the set stored for the privilege", "set %r is not get_mut() of the assignments map" % (S,), r)
                continue
            M, pkey = gm.rargs[0], gm.rargs[1]
            # guards: identity defined, privilege defined
            idg = [x for x in evs[:i] if x.kind == "call" and x.callee.endswith("HashMap::contains_key") and same_origin(x.rargs[1], name) and not same_origin(x.rargs[0], M)]
            pg = [x for x in evs[:i] if x.kind == "call" and x.callee.endswith("HashMap::contains_key") and same_origin(x.rargs[1], pkey) and not same_origin(x.rargs[0], M)]
            conds = []
            ok_guard = bool(idg) and bool(pg)
            if ok_guard:
                rs, _m, _dt, _zm = check_sat(r.pc + [z3.Not(z3.And(idg[-1].ret.scalar("bool"), pg[-1].ret.scalar("bool")))])
                ok_guard = rs == "unsat"
            if not ok_guard:
                viol("C02.flatten.defined-only", "from_authorization_item: only defined identities are granted, and only for defined privileges (undefined names are skipped)",
                     "identity guard %s privilege guard %s" % (bool(idg), bool(pg)), r)
            # provenance: name iterates role_assignment.identities, pkey iterates role.privileges of role_dict.get(role_assignment.role)
            ra_next = [x for x in evs[:i] if x.kind == "call" and re.search(r"IntoIter<RoleAssignment> as Iterator>::next$", x.callee)]
            rg = [x for x in evs[:i] if x.kind == "call" and x.callee.endswith("HashMap::get") and ra_next and is_part_of(x.rargs[1], ra_next[-1].ret)]
            ok_prov = bool(ra_next) and bool(rg) and _element_of(evs, name, ra_next[-1].ret) and _element_of(evs, pkey, rg[-1].ret)
            if not ok_prov:
                viol("C02.flatten.provenance", "from_authorization_item: the identity comes from this assignment's identities and the privilege from the role named by this assignment",
                     "assignment iter %s role lookup %s" % (bool(ra_next), bool(rg)), r)
        # F3: no other mutation of maps/sets
        for e in evs:
            if e.kind == "call" and MUT.search(e.callee) and not re.search(r"(HashMap::insert|HashSet::insert|HashMap::get_mut)$", e.callee) and id(e) not in entry_ok:
                viol("C02.flatten.no-other-mutation", "from_authorization_item: maps and sets are only grown (insert) - no remove/clear/retain/entry", e.callee, r)
        # F4: a defined identity of a defined privilege is always inserted (nothing is skipped)
        for x in evs:
            if x.kind == "call" and x.callee.endswith("HashMap::contains_key"):
                pass
    # the grant must not depend on WHERE in a list of the rule document an entry stands: positional iterator adaptors (a prefix up to the first
    # failing element, the first n, every other one ...) over the document's lists make the result order dependent
    POS = re.compile(r"(Iterator>?::|::)(take_while|skip_while|map_while|take|skip|step_by|nth|last|scan)$")
    pos = sorted({e.callee.split("::")[-1] for r in paths for e in r.events if e.kind == "call" and POS.search(e.callee)})
    rep.add(Query("from_authorization_item: no positional iterator adaptor over the rule document's lists (the grant does not depend on an entry's position)", "holds" if not pos else "violated",
                  "adaptors used: %s" % pos, 0, "mirsym", key="C02.flatten.position-independent", reproduced=None))
    if pos:
        n_setins = max(n_setins, 1)        # (the set is filled through an adaptor chain: the insert events are inside extend())
    if "C02.flatten.no-overwrite" not in seen_viol:
        rep.add(Query("from_authorization_item: every creation of an assignment entry is guarded by `privilege has no entry yet` and creates an empty set (%d insert events on %d paths)" % (n_ins, len(paths)),
                      "holds", "", 0, "mirsym+z3", key="C02.flatten.no-overwrite"))
    for k, nm in (("C02.flatten.set-source", "identities are added to the set stored under the privilege name"), ("C02.flatten.defined-only", "only defined identities / defined privileges are granted"),
                  ("C02.flatten.provenance", "identity from this assignment, privilege from the role it names"), ("C02.flatten.no-other-mutation", "maps and sets only grow")):
        if k not in seen_viol:
            rep.add(Query("from_authorization_item: %s (%d set-insert events examined)" % (nm, n_setins), "holds", "", 0, "mirsym+z3", key=k))
    rep.add(Query("witness: flattening paths with map inserts and set inserts", "witness-hit" if n_ins and n_setins else "witness-missed", "%d/%d" % (n_ins, n_setins), 0, "mirsym"))
    # the three name->object dictionaries are collect()ed from (name.clone(), object) pairs
    cls = [p for p in ctx.idx.files if p.startswith(path + "::{closure")]
    okc = 0
    for c in cls:
        e2 = ctx.engine()
        for r in e2.explore(c):
            ret = r.ret
            a = r.args[1] if len(r.args) > 1 else None
            if isinstance(ret, Agg) and ret.kind == "tuple" and len(ret.fields) == 2 and a is not None and same_origin(ret.fields[1], a) and is_part_of(ret.fields[0], a):
                okc += 1
        rep.functions_encoded.append(c)
    rep.add(Query("from_authorization_item: dictionaries are keyed by the object's own name (3 closures)", "holds" if okc == 3 else "violated", "%d closures of shape (x.name.clone(), x)" % okc, 0, "mirsym",
                  key="C02.flatten.keyed-by-name", reproduced=None))
    check_duplicate_names(rep, ctx, paths, okc, tier)
    rep.bounds["from_authorization_item"] = "loop bound %d per loop (assignments x privileges-of-role x identities-of-assignment); every step of every explored path is checked, so by induction over the loop the relation only grows by declared pairs" % (1 if tier == "quick" else 2)


DUP_TEST = '''
#[cfg(test)]
mod verif_replay_c02_dup {
    use super::*;
    use crate::key_keeper::key::{AccessControlRules, AuthorizationItem, Identity, Privilege, Role, RoleAssignment};
    use crate::proxy::proxy_connection::ConnectionLogger;
    use std::{ffi::OsString, path::PathBuf, str::FromStr};
    fn decide(first: &str, second: &str, url: &str) -> bool {
        let p = |path: &str| Privilege { name: "p".to_string(), path: path.to_string(), queryParameters: None };
        let rules = AccessControlRules {
            roles: Some(vec![Role { name: "r".to_string(), privileges: vec!["p".to_string()] }]),
            privileges: Some(vec![p(first), p(second)]),          // two privileges under ONE name
            identities: Some(vec![Identity { name: "i".to_string(), exePath: None, groupName: None, processName: None, userName: Some("verif".to_string()) }]),
            roleAssignments: Some(vec![RoleAssignment { role: "r".to_string(), identities: vec!["i".to_string()] }]),
        };
        let item = AuthorizationItem { defaultAccess: "deny".to_string(), mode: "enforce".to_string(), rules: Some(rules), id: "0".to_string() };
        let computed = ComputedAuthorizationItem::from_authorization_item(item);
        let claims = crate::proxy::Claims { userId: 0, userName: "verif".to_string(), userGroups: vec![], processId: 1, processFullPath: PathBuf::from("/x"), clientIp: "0".to_string(), clientPort: 0,
            processName: OsString::from("x"), processCmdLine: "x".to_string(), runAsElevated: true };
        let mut logger = ConnectionLogger::new(0, 0);
        computed.is_allowed(&mut logger, hyper::Uri::from_str(url).unwrap(), claims)
    }
    #[test]
    fn c02_decision_does_not_depend_on_the_listing_order_of_same_named_privileges() {
        let (a, b) = (decide("%(p1)s", "%(p2)s", "%(url)s"), decide("%(p2)s", "%(p1)s", "%(url)s"));
        assert_eq!(a, b, "listing the two privileges named p in the other order changes the decision for %(url)s: {} vs {}", a, b);
    }
}
'''


def check_duplicate_names(rep, ctx, paths, okc, tier):
    """Order independence under duplicate names. The three dictionaries are `collect::<HashMap>()` of (name, object) pairs
    (checked above); std documents that a later pair replaces an earlier one with an equal key. With that contract as a z3
    array fold, two same-named privileges listed in either order give different dictionaries, hence (is_allowed looks the
    privilege up by name) different decisions for a URL only one of them matches. The model is replayed natively."""
    collects = 0
    guards = 0
    for r in paths:
        collects = max(collects, len([e for e in r.events if e.kind == "call" and re.search(r"Iterator>::collect$", e.callee)]))
        guards = max(guards, len([e for e in r.events if e.kind == "call" and re.search(r"(dedup|contains_key)$", e.callee) and False]))
    if okc != 3 or collects < 3:
        return
    Name, Val = z3.DeclareSort("Name"), z3.DeclareSort("PrivPath")
    n = z3.Const("n", Name)
    v1, v2 = z3.Const("path1", Val), z3.Const("path2", Val)
    empty = z3.K(Name, z3.Const("absent", Val))
    d12 = z3.Store(z3.Store(empty, n, v1), n, v2)
    d21 = z3.Store(z3.Store(empty, n, v2), n, v1)
    qn = "from_authorization_item: the privilege dictionary does not depend on the listing order of two privileges with one name"
    bad = add_query(rep, qn, [v1 != v2, z3.Select(d12, n) != z3.Select(d21, n)], key="C02.flatten.duplicate-names")
    if not bad:
        return
    import replay as rp
    code = DUP_TEST % {"p1": "/alpha", "p2": "/beta", "url": "http://localhost/alpha/x"}
    path = save_replay("C02", "duplicate_names.rs", "// append to proxy_agent/src/proxy/authorization_rules.rs; run the whole azure-proxy-agent test binary\n" + code)
    if any(f.get("key") == "C02.flatten.duplicate-names" for f in load_known_findings().get("findings", [])) and tier != "thorough":
        st = "FAILED"           # listed in known_findings.json: replayed when it was recorded (findings/C02-duplicate-names.replay.rs); the thorough tier replays it again
        rep.add(Query("the decision depends on the listing order of same-named privileges (HashMap collect keeps the last)", "violated",
                      "z3: two pairs (n, path1), (n, path2) folded in either order give different dictionaries; known finding, native replay recorded in findings/", bad[1], "mirsym+z3",
                      key="C02.flatten.duplicate-names", model=bad[0], replay=path, reproduced=True))
        return
    res, out = rp.run_rust_tests("azure-proxy-agent", [("proxy_agent/src/proxy/authorization_rules.rs", code)], "verif_replay_c02_dup", no_args=True)
    st = (res or {}).get("c02_decision_does_not_depend_on_the_listing_order_of_same_named_privileges")
    if st == "FAILED":
        rep.traces_validated += 1
    rep.add(Query("the decision depends on the listing order of same-named privileges (HashMap collect keeps the last)", "violated" if st in ("FAILED", "ok") else "inconclusive",
                  "z3: two pairs (n, path1), (n, path2) folded in either order give different dictionaries; native replay (privileges p=/alpha, p=/beta, url /alpha/x): %s" % st, bad[1], "mirsym+z3",
                  key="C02.flatten.duplicate-names", model=bad[0], replay=path, reproduced=True if st == "FAILED" else (False if st == "ok" else None)))


def _unwrap_of(evs, v, src):
    v = origin(v)
    if isinstance(v, Sym) and v.tag[0] == "ret" and re.search(r"(unwrap|expect)$", v.tag[1]):
        for e in evs:
            if e.ret is v:
                return same_origin(e.rargs[0], src)
    return False


def _element_of(evs, v, container):
    """v is an element yielded by an iterator over (a part of) container"""
    v = origin(v)
    for _ in range(6):
        if not isinstance(v, Sym):
            return False
        if is_part_of(v, container) or same_origin(v, container):
            return True
        if v.tag[0] == "part":
            v = origin(v.tag[1])
            continue
        if v.tag[0] == "ret":
            nxt = [e for e in evs if e.ret is v and e.rargs]
            if not nxt:
                return False
            v = origin(nxt[0].rargs[0])
            continue
        return False
    return False


def check_query_pairs(rep, ctx, prefix="C02"):
    """hyper_client::query_pairs (the rules and the canonical string both see the query through it): the query is cut at '&', each piece at
    its FIRST '=' only - the key is what precedes it, the value everything after it (further '=' included), a piece with an empty key is dropped"""
    try:
        w = ctx.one("hyper_client::query_pairs")
    except Inconclusive as ex:
        rep.add(Query("query_pairs located", "inconclusive", str(ex), 0, "mirsym", key=prefix + ".query_pairs"))
        return
    from p_c08 import derives
    eng = ctx.engine(loop_bound=1)
    eng.auto_inline = ctx.new_function_auto()
    n = 0
    for i, r in enumerate(eng.explore(w)):
        ev = r.events
        pushes = [e for e in ev if e.kind == "call" and e.callee.endswith("Vec::push")]
        outer = [e for e in ev if e.kind == "call" and re.search(r"str::split$", e.callee) and isinstance(e.rargs[1], ConstV) and "'&'" in (e.rargs[1].text or "")]
        for pu in pushes:
            n += 1
            tup = pu.rargs[1]
            if not (isinstance(tup, Agg) and len(tup.fields) == 2):
                rep.add(Query("query_pairs path %d: pushes a (key, value) pair" % i, "inconclusive", repr(tup)[:80], 0, "mirsym", key=prefix + ".query_pairs"))
                continue
            sp = [e for e in ev[:ev.index(pu)] if e.kind == "call" and re.search(r"str::(splitn|split|rsplitn|rsplit|split_once|rsplit_once|split_terminator)$", e.callee) and e not in outer]
            if not sp:
                rep.add(Query("query_pairs path %d: key and value come from a split of the piece" % i, "inconclusive", "no splitter found", 0, "mirsym", key=prefix + ".query_pairs"))
                continue
            sp = sp[-1]
            kind = sp.callee.split("::")[-1]
            sep_ok = any(isinstance(a, ConstV) and "'='" in (a.text or "") or (isinstance(a, StrV) and a.e.as_string() == "=") for a in sp.rargs[1:])
            piece_ok = bool(outer) and any(e.kind == "call" and e.callee.endswith("::next") and same_origin(e.rargs[0], outer[0].ret) and derives(sp.rargs[0], e.ret, ev) for e in ev)
            if kind == "splitn":
                nval = z3.simplify(sp.rargs[1].e).as_long() if isinstance(sp.rargs[1], Scalar) and z3.is_bv_value(z3.simplify(sp.rargs[1].e)) else None
                nx = [e for e in ev if e.kind == "call" and e.callee.endswith("::next") and same_origin(e.rargs[0], sp.ret)]
                ok = nval == 2 and sep_ok and len(nx) >= 2 and derives(tup.fields[0], nx[0].ret, ev) and derives(tup.fields[1], nx[1].ret, ev)
                detail = "splitn(%s, '=')" % nval
            elif kind == "split_once":
                ok = sep_ok and derives(tup.fields[0], sp.ret, ev) and derives(tup.fields[1], sp.ret, ev)
                detail = "split_once('=')"
            else:
                ok = False
                detail = "%s: the value stops at a second '=' (or the wrong '=' is taken)" % kind
            rep.add(Query("query_pairs path %d: a piece is cut at its first '=' only (key before, whole rest after), pieces come from the split at '&'" % i, "holds" if ok and piece_ok else "violated", detail, 0, "mirsym",
                          key=prefix + ".query_pairs", reproduced=None))
    rep.functions_encoded.append(w)
    rep.add(Query("witness: query_pairs has a pair-producing path", "witness-hit" if n else "witness-missed", "%d" % n, 0, "mirsym"))


def check(rep, tier, seed):
    ctx = Ctx("agent")
    rep.extra["mir_dump"] = {"cache_hit": ctx.dump.cache_hit, "tree_hash": ctx.dump.hash, "seconds": round(ctx.dump.seconds, 1)}
    check_privilege_match(rep, ctx, tier)
    check_identity_match(rep, ctx)
    check_decision(rep, ctx)
    check_flatten(rep, ctx, tier)
    check_query_pairs(rep, ctx)
    import batteries
    batteries.confirm(rep, "C02")
    rep.stubs += ["HashMap/HashSet/Vec iteration: Iterator::next is uninterpreted (any element sequence, any order) under a loop bound", "str::to_lowercase: str.to_lower of cvc5 in the case-fold query, uninterpreted elsewhere",
                  "Iterator::find: uninterpreted Option result; its closure is checked on its own body"]
    rep.assumptions += ["URLs without repeated query keys (Iterator::find takes the first pair of a key)"]
    rep.outside_claim += ["rule documents with more than 2 privileges / assignments per privilege", "non-ASCII paths in the case-fold query",
                          "from_authorization_item with real hashbrown tables (checked structurally only)"]
    rep.trusted += ["mirsym", "z3", "cvc5 1.0 (str.to_lower)"]


def replay(path):
    print(open(path).read())
    return 0
