"""C11 enforce / audit / disabled and record-once (engine M). See DESIGN.md 4/C11."""
from mcommon import *
from handler_model import *
from p_c01 import violated
from p_c08 import implied
import p_c03


def check_authorizer_modes(rep, ctx):
    eng, paths = p_c03.authorize_paths(ctx, rep)
    AR = ctx.enums["AuthorizeResult"]
    AM = ctx.enums["AuthorizationMode"]
    mode_idx = ctx.field("ComputedAuthorizationItem", "mode")
    endpoints = {"WireServer": ("168.63.129.16", 80), "HostGAPlugin": ("168.63.129.16", 32526), "IMDS": ("169.254.169.254", 80)}
    for i, r in enumerate(paths):
        ipz, portz, elev = p_c03.path_inputs(ctx, r)
        d = p_c03.ret_discr(ctx, r)
        ent = [e for e in r.events if e.kind == "enter" and e.callee.endswith("::authorize") and len(e.args) == 4]
        if not ent:
            continue
        rules = origin(ent[0].args[3])
        if not isinstance(rules, Sym):
            continue
        present = rules.discr() == 1
        mode = rules.child(("v", "Some", 0)).child(("f", mode_idx)).discr()
        ia = [e for e in r.events if e.kind == "call" and e.callee.endswith("is_allowed")]
        allowed = ia[0].ret.scalar("bool") if ia else None
        for ep, (ip, port) in endpoints.items():
            here = [ipz == z3.StringVal(ip), portz == port, elev]
            cases = [
                ("rules deny, mode Enforce => Forbidden", [present, mode == AM.index("Enforce")] + ([z3.Not(allowed)] if allowed is not None else [z3.BoolVal(False)]), AR.index("Forbidden")),
                ("rules deny, mode Audit => OkWithAudit", [present, mode == AM.index("Audit")] + ([z3.Not(allowed)] if allowed is not None else [z3.BoolVal(False)]), AR.index("OkWithAudit")),
                ("rules allow => Ok", [present] + ([allowed] if allowed is not None else [z3.BoolVal(False)]), AR.index("Ok")),
                ("no rules => Ok", [z3.Not(present)], AR.index("Ok")),
            ]
            for cname, prem, want in cases:
                qn = "authorize path %d, %s (elevated caller): %s" % (i, ep, cname)
                bad = add_query(rep, qn, r.pc + here + prem + [z3.BoolVal(d != want)], key="C11.mode:%s:%s" % (ep, cname))
                if bad:
                    rep.add(Query(qn, "violated", "returns %s; model %s" % (AR[d], bad[0]), bad[1], "mirsym+z3", key="C11.mode:%s:%s" % (ep, cname), model=bad[0], reproduced=None,
                                  replay=save_replay("C11", "authorize_path%d_%s.json" % (i, ep), json.dumps({"model": bad[0], "returns": AR[d], "case": cname}, indent=1))))
            # a present rule set must be consulted (is_allowed called) before the decision
            qn = "authorize path %d, %s: present rules are consulted" % (i, ep)
            bad = add_query(rep, qn, r.pc + here + [present, z3.BoolVal(allowed is None)], key="C11.consulted:" + ep)
            if bad:
                rep.add(Query(qn, "violated", "a path decides without calling is_allowed", bad[1], "mirsym+z3", key="C11.consulted:" + ep, model=bad[0], reproduced=None))
    # witnesses
    for want in ("OkWithAudit", "Forbidden", "Ok"):
        hit = any(p_c03.ret_discr(ctx, r) == AR.index(want) and [e for e in r.events if e.callee.endswith("is_allowed")] for r in paths)
        rep.add(Query("witness: a rules-consulting path returns %s" % want, "witness-hit" if hit else "witness-missed", "", 0, "mirsym"))


def check_is_allowed_disabled(rep, ctx):
    path = ctx.method("ComputedAuthorizationItem", "is_allowed")
    eng = ctx.engine(loop_bound=2)
    paths = eng.explore(path)
    rep.functions_encoded.append(path)
    AM = ctx.enums["AuthorizationMode"]
    mode_idx = ctx.field("ComputedAuthorizationItem", "mode")
    n = 0
    for i, r in enumerate(paths):
        me = r.args[0]
        mode = eng_child_through_ref(me, mode_idx).discr()
        dis = mode == AM.index("Disabled")
        consulted = [e.callee for e in r.events if e.kind == "call" and re.search(r"(is_match|HashMap.*::(values|get|iter)|::next)$", e.callee)]
        retv = r.ret
        ret_true = isinstance(retv, Scalar) and z3.is_true(z3.simplify(retv.e))
        qn = "is_allowed path %d: mode Disabled => true without consulting any privilege/identity" % i
        bad = add_query(rep, qn, r.pc + [dis, z3.BoolVal(bool(consulted) or not ret_true or r.status != "return")], key="C11.disabled-not-consulted")
        if bad:
            rep.add(Query(qn, "violated", "status %s ret %r consulted %s" % (r.status, retv, consulted[:4]), bad[1], "mirsym+z3", key="C11.disabled-not-consulted", model=bad[0], reproduced=None))
        r2, _m, _dt, _zm = check_sat(r.pc + [dis])
        if r2 == "sat":
            n += 1
    rep.add(Query("witness: is_allowed has a Disabled path", "witness-hit" if n else "witness-missed", "%d" % n, 0, "mirsym+z3"))
    rep.bounds["is_allowed"] = "loop bound 2 per loop (paths beyond are cut; only the Disabled prefix is claimed here)"


def eng_child_through_ref(v, idx):
    # &self argument: the pointee's field
    v = origin(v)
    if isinstance(v, Sym):
        return v.child("*").child(("f", idx))
    raise Inconclusive("self argument is not symbolic")


def check_handler_recording(rep, hm):
    ctx = hm.ctx
    AR = ctx.enums["AuthorizeResult"]

    def failed_records(p, after):
        return [e for e in p.events[after:] if e.kind == "await" and e.callee.endswith("log_connection_summary") and len(e.rargs) >= 4
                and isinstance(e.rargs[3], Scalar) and z3.is_true(z3.simplify(e.rargs[3].e))]

    def sig(p, after):
        out = []
        for e in p.events[after:]:
            if e.kind not in ("call", "await"):
                continue
            if e.callee.endswith("log_connection_summary"):
                continue
            if re.search(r"(fmt|::log$|new_display)", e.callee):
                continue
            out.append((e.kind, e.callee))
        return out
    ok_sigs = {}
    for p in hm.paths:
        au = p.first(r"(^|::)authorize$", ("call",))
        if au is None or p.r.status != "return":
            continue
        ai = p.index(au)
        d = au.ret.discr()
        recs = failed_records(p, ai)
        for name, cond, want in (("Ok", d == AR.index("Ok"), 0), ("OkWithAudit", d == AR.index("OkWithAudit"), 1), ("Forbidden", d == AR.index("Forbidden"), 1)):
            qn = "handler path %d: authorize = %s => exactly %d failed-authorization record(s)" % (p.i, name, want)
            bad = add_query(rep, qn, p.pc + [cond, z3.BoolVal(len(recs) != want)], key="C11.record-once:" + name)
            if bad:
                violated(rep, qn, "C11.record-once:" + name, "%d records on the path" % len(recs), p, bad[1], bad[0])
        if p.implied(d == AR.index("Ok")):
            ok_sigs.setdefault(tuple(sig(p, ai)), []).append((p.i, p.response()))
    for p in hm.paths:
        au = p.first(r"(^|::)authorize$", ("call",))
        if au is None or p.r.status != "return":
            continue
        if p.implied(au.ret.discr() == AR.index("OkWithAudit")):
            s = tuple(sig(p, p.index(au)))
            twin = ok_sigs.get(s)
            qn = "handler path %d (audit-mode denial): continues exactly like an allowed request" % p.i
            if twin and any(resp == p.response() for _i, resp in twin):
                rep.add(Query(qn, "holds", "same event suffix and response as allowed path(s) %s" % [i for i, _r in twin], 0, "mirsym", key="C11.audit-as-allowed"))
            else:
                violated(rep, qn, "C11.audit-as-allowed", "no allowed path has the same suffix", p)
    rep.add(Query("witness: allowed-path suffix signatures", "witness-hit" if ok_sigs else "witness-missed", "%d" % len(ok_sigs), 0, "mirsym"))


def check_summary_body(rep, ctx):
    w = ctx.method("ProxyServer", "log_connection_summary")
    body = w + "::{closure#0}"
    e0 = ctx.engine(); e0._reset([])
    wb = ctx.idx.body(w)
    co = e0.run_body(wb, [Sym(("arg", i + 1)) for i in range(wb.nargs)], 0)
    cap = {n: i for i, n in enumerate(co.names)}
    eng = ctx.engine()
    paths = eng.explore(body)
    rep.functions_encoded.append(body)
    n_t = n_f = 0
    for i, r in enumerate(paths):
        if r.status in ("panic", "cut"):
            continue          # panics are the subject of C13; paths beyond the loop bound of the boundary search are outside the bound
        flag = r.args[0].child(("f", cap["log_authorize_failed"])).scalar("bool")
        failed = [e for e in r.events if e.kind == "await" and e.callee.endswith("add_one_failed_connection_summary")]
        plain = [e for e in r.events if e.kind == "await" and e.callee.endswith("add_one_connection_summary")]
        for name, cond, bad_struct in (("flag set => exactly one failed-summary record and no plain record", flag, not (len(failed) == 1 and len(plain) == 0)),
                                       ("flag clear => no failed-summary record", z3.Not(flag), len(failed) != 0)):
            qn = "log_connection_summary path %d: %s" % (i, name)
            bad = add_query(rep, qn, r.pc + [cond, z3.BoolVal(bad_struct or r.status != "return")], key="C11.summary:" + name)
            if bad:
                rep.add(Query(qn, "violated", "failed=%d plain=%d status=%s" % (len(failed), len(plain), r.status), bad[1], "mirsym+z3", key="C11.summary:" + name, model=bad[0], reproduced=None))
        if failed:
            n_t += 1
            # the record carries the caller of THIS connection and its destination
            summ = failed[0].rargs[-1]
            hc = r.args[0].child(("f", cap["http_connection_context"]))
            if isinstance(summ, Agg) and summ.names:
                f = dict(zip(summ.names, summ.fields))
                want = ["userId", "processFullPath", "processCmdLine", "ip", "port", "userName"]
                missing = [w_ for w_ in want if w_ not in f]
                rep.add(Query("log_connection_summary path %d: failed record is a ProxySummary with user/process/cmdline/destination fields" % i,
                              "holds" if not missing else "violated", "missing %s" % missing, 0, "mirsym", key="C11.summary-fields", reproduced=None))
        if plain:
            n_f += 1
    rep.add(Query("witness: log_connection_summary has both kinds of path", "witness-hit" if n_t and n_f else "witness-missed", "%d/%d" % (n_t, n_f), 0, "mirsym"))


def explore_actor_arm(ctx, body, enum, variant):
    ix = ctx.enums[enum].index(variant)

    def hook(engine, ev):
        if ev.callee.endswith("recv"):
            n = sum(1 for e in engine.events if e.kind == "await" and e.callee.endswith("recv"))
            if n == 1:
                engine.require(ev.ret.discr() == 1)
                engine.require(ev.ret.child(("v", "Some", 0)).discr() == ix)
            else:
                engine.require(ev.ret.discr() == 0)      # channel closed after the one message under study
    eng = ctx.engine(loop_bound=1, max_paths=2000)
    eng.event_hook = hook
    return eng.explore(body)


def map_ordinal(r, v):
    """which `HashMap::new()` of the actor (in creation order) a map value is"""
    news = [e for e in r.events if e.kind == "call" and e.callee.endswith("HashMap::new")]
    o = origin(v)
    for k, e in enumerate(news):
        if e.ret is o or same_origin(e.ret, o):
            return k
    return None


def check_actor_arms(rep, ctx):
    """agent-status actor: a failed-authorization record is counted in the map that the status publisher reads."""
    w = ctx.method("AgentStatusSharedState", "start_new")
    body = w + "::{closure#0}"
    if body not in ctx.idx.files or "AgentStatusAction" not in ctx.enums:
        rep.add(Query("agent-status actor located", "inconclusive", "start_new::{closure#0} or AgentStatusAction not found", 0, "mirsym"))
        return
    rep.functions_encoded.append(body)

    def maps_used(variant, rx):
        used = set()
        paths = explore_actor_arm(ctx, body, "AgentStatusAction", variant)
        for r in paths:
            for e in r.events:
                if e.kind == "call" and re.search(rx, e.callee):
                    used.add(map_ordinal(r, e.rargs[0]))
        return used, paths
    READ = r"HashMap::(iter|values|into_iter|keys|drain|into_values|values_mut|iter_mut)$|IntoIterator>::into_iter$"
    read_failed, pf = maps_used("GetAllFailedConnectionSummary", READ)
    read_plain, pp = maps_used("GetAllConnectionSummary", READ)
    # reading the summary leaves it as it is: "each denial adds one occurrence ... to the summary the agent publishes" holds across
    # publications only if publishing does not consume what it reads
    MUT = r"HashMap::(drain|clear|remove|remove_entry|retain|insert|entry|get_mut|values_mut|iter_mut|extract_if|shrink_to_fit)$|mem::(take|replace|swap)$"
    for variant, paths_ in (("GetAllFailedConnectionSummary", pf), ("GetAllConnectionSummary", pp)):
        mut = sorted({e.callee.split("::")[-1] for r in paths_ for e in r.events if e.kind == "call" and re.search(MUT, e.callee)})
        rep.add(Query("actor arm %s: reading the summary does not change it (no drain / clear / remove / take on the map)" % variant, "holds" if not mut else "violated", "modifying calls: %s" % mut, 0, "mirsym",
                      key="C11.actor.read-only:" + variant, reproduced=None))
    ok_pub = len(read_failed) == 1 and len(read_plain) == 1 and read_failed != read_plain and None not in read_failed | read_plain
    rep.add(Query("actor: the failed-authorization summary and the connection summary are two distinct maps, each read by its own getter", "holds" if ok_pub else "inconclusive",
                  "failed=%s plain=%s" % (read_failed, read_plain), 0, "mirsym", key="C11.actor.maps"))
    if not ok_pub:
        return
    for variant, want, nm in (("AddOneFailedConnectionSummary", read_failed, "failed-authorization"), ("AddOneConnectionSummary", read_plain, "connection")):
        used, paths = maps_used(variant, r"HashMap::(entry|get_mut|insert|get|remove)$")
        rep.add(Query("actor arm %s: lookup, insert and count increment all address the %s summary map" % (variant, nm), "holds" if used == want else "violated",
                      "maps touched %s, published map %s" % (used, want), 0, "mirsym", key="C11.actor.arm:" + variant, reproduced=None,
                      replay=None if used == want else save_replay("C11", "actor_%s.json" % variant, json.dumps({"maps_touched": sorted(map(str, used)), "published": sorted(map(str, want))}))))
        # first occurrence inserts, later ones increment: both branches exist
        vac = any(e.callee.endswith("VacantEntry::insert") or e.callee.endswith("::insert") for r in paths for e in r.events if e.kind == "call")
        inc = any(e.callee.endswith("HashMap::get_mut") for r in paths for e in r.events if e.kind == "call")
        rep.add(Query("witness: actor arm %s has an insert branch and an increment branch" % variant, "witness-hit" if vac and inc else "witness-missed", "", 0, "mirsym"))


KEY_REPLAY = '''
#[cfg(test)]
mod verif_replay_c11_key {
    use super::*;
    fn summary(user: &str, path: &str, cmd: &str) -> ProxySummary {
        ProxySummary { id: 1, method: "GET".to_string(), url: "/x".to_string(), clientIp: "127.0.0.1".to_string(), clientPort: 1, ip: "169.254.169.254".to_string(), port: 80, userId: 1000,
            userName: user.to_string(), userGroups: vec![], processFullPath: PathBuf::from(path), processCmdLine: cmd.to_string(), runAsElevated: false, responseStatus: "403".to_string(),
            elapsedTime: 0, errorDetails: String::new() }
    }
    #[test]
    fn c11_different_callers_have_different_summary_keys() {
        let (a, b) = (summary(%(u1)s, %(p1)s, %(c1)s), summary(%(u2)s, %(p2)s, %(c2)s));
        assert_ne!(a.to_key_string(), b.to_key_string(), "two different callers share one failed-authorization entry (their denials are counted under the first one)");
    }
    #[test]
    fn c11_different_destinations_have_different_summary_keys() {
        // one caller denied on two endpoints that share the address (WireServer :80, HostGAPlugin :32526) and on another address
        let base = summary("u", "/p", "p x");
        let mut other_port = summary("u", "/p", "p x"); other_port.port = 32526;
        let mut other_ip = summary("u", "/p", "p x"); other_ip.ip = "168.63.129.16".to_string();
        assert_ne!(base.to_key_string(), other_port.to_key_string(), "denials on two ports of one address share one failed-authorization entry");
        assert_ne!(base.to_key_string(), other_ip.to_key_string(), "denials on two addresses share one failed-authorization entry");
    }
    #[test]
    fn c11_callers_differing_late_have_different_summary_keys() {
        // a key that measures only a prefix of a field (truncation to a "reasonable" size) merges callers whose long user names,
        // paths or command lines (java -cp <long classpath> MainA / MainB) differ only near the end
        for n in [16usize, 64, 128, 255, 256, 257, 512, 1024, 4096, 70000] {
            let pre = "x".repeat(n);
            let (a, b) = (format!("{}A", pre), format!("{}B", pre));
            assert_ne!(summary("u", "/p", &a).to_key_string(), summary("u", "/p", &b).to_key_string(), "command lines differing after {} bytes share one entry", n);
            assert_ne!(summary("u", &a, "c").to_key_string(), summary("u", &b, "c").to_key_string(), "process paths differing after {} bytes share one entry", n);
            assert_ne!(summary(&a, "/p", "c").to_key_string(), summary(&b, "/p", "c").to_key_string(), "user names differing after {} bytes share one entry", n);
        }
    }
}
'''


def check_summary_key(rep, ctx):
    """ProxySummary::to_key_string - the key under which a denial is counted - (1) is the formatted text itself, of the caller's user,
    destination, process path and command line unmodified; (2) z3 strings: do two DIFFERENT (user, path, command line) tuples exist
    with the same key (separator ambiguity)? A model is replayed natively."""
    from strterm import unescape_bytes_const, parse_fmt_template
    try:
        p = ctx.method("ProxySummary", "to_key_string")
    except Inconclusive:
        return
    eng = ctx.engine()
    paths = [r for r in eng.explore(p) if r.status == "return"]
    rep.functions_encoded.append(p)
    need = {"userName", "ip", "port", "processFullPath", "processCmdLine"}
    fields = ctx.structs.get("ProxySummary", [])
    shape_ok = len(paths) == 1
    template, leaves_f = None, []
    if shape_ok:
        r = paths[0]
        v = origin(r.ret)
        joined = None
        if isinstance(v, Sym) and isinstance(v.tag, tuple) and v.tag[0] == "ret" and re.search(r"(^|::)join$", v.tag[1]):
            je = [e for e in r.events if e.ret is v]
            if je and isinstance(origin(je[0].rargs[0]), Agg) and isinstance(origin(je[0].rargs[1]), StrV):
                joined = (origin(je[0].rargs[0]).fields, origin(je[0].rargs[1]).e.as_string())
        if joined is not None:
            # [a, b, c].join(sep): the same text as format!("{}<sep>{}<sep>{}", a, b, c)
            for a in joined[0]:
                x = origin(a)
                for _ in range(3):
                    if isinstance(x, Sym) and x.tag[0] == "ret" and re.search(r"to_string_lossy$|display$|as_str$|to_str$|as_ref$|to_string$", x.tag[1]):
                        ev = [e for e in r.events if e.ret is x]
                        x = origin(ev[0].rargs[0]) if ev else x
                nm = None
                if isinstance(x, Sym) and x.tag[0] == "part" and isinstance(x.tag[2], tuple) and x.tag[2][0] == "f" and x.tag[2][1] < len(fields):
                    nm = fields[x.tag[2][1]]
                leaves_f.append(nm)
            sep = joined[1].encode("utf-8")
            template = b"".join((bytes([len(sep)]) + sep if k else b"") + b"\xc0" for k in range(len(leaves_f))) + b"\x00"
            shape_ok = need <= set(leaves_f) and None not in leaves_f
        else:
            shape_ok = isinstance(v, Agg) and v.name == "fmt::Formatted"
        if shape_ok and joined is None:
            args_ = v.fields[0]
            template = unescape_bytes_const(args_.fields[0].text) if isinstance(args_.fields[0], ConstV) else None
            arr = args_.fields[1] if len(args_.fields) > 1 else None
            for a in (arr.fields if isinstance(arr, Agg) else []):
                x = origin(a.fields[0] if isinstance(a, Agg) and a.name == "fmt::Argument" else a)
                if isinstance(x, Sym) and x.tag[0] == "ret" and re.search(r"to_string_lossy$|display$|as_str$|to_str$", x.tag[1]):
                    ev = [e for e in r.events if e.ret is x]
                    x = origin(ev[0].rargs[0]) if ev else x
                nm = None
                if isinstance(x, Sym) and x.tag[0] == "part" and isinstance(x.tag[2], tuple) and x.tag[2][0] == "f" and x.tag[2][1] < len(fields):
                    nm = fields[x.tag[2][1]]
                leaves_f.append(nm)
            shape_ok = template is not None and need <= set(leaves_f) and None not in leaves_f
    rep.add(Query("ProxySummary::to_key_string is the formatted text of the caller's user, destination, process path and command line, unmodified (fields %s)" % leaves_f,
                  "holds" if shape_ok else "violated", "" if shape_ok else "result %r" % (paths[0].ret if paths else None,), 0, "mirsym", key="C11.summary-key.shape", reproduced=None))
    if not shape_ok:
        # native witness for a transformed key: callers that differ only in letter case / by surrounding blanks must not share an entry
        import replay as rp
        code = KEY_REPLAY % {"u1": '"Verif"', "p1": '"/usr/bin/Tool"', "c1": '"Tool -V"', "u2": '"verif"', "p2": '"/usr/bin/tool"', "c2": '"tool -v"'}
        res_, _o = rp.run_rust_tests("azure-proxy-agent", [("proxy_agent/src/proxy/proxy_summary.rs", code)], "verif_replay_c11_key", no_args=True)
        sts = [(res_ or {}).get("c11_different_callers_have_different_summary_keys"), (res_ or {}).get("c11_different_destinations_have_different_summary_keys"),
               (res_ or {}).get("c11_callers_differing_late_have_different_summary_keys")]
        st = "FAILED" if "FAILED" in sts else sts[0]
        q = rep.queries[-1]
        q.replay = save_replay("C11", "summary_key_case.rs", "// append to proxy_agent/src/proxy/proxy_summary.rs; run the whole azure-proxy-agent test binary\n" + code)
        q.detail += " || native replay (callers differing only in letter case, or only after a long common prefix; destinations differing in port or address): %s %s" % (st, sts)
        if st == "FAILED":
            q.reproduced = True
            rep.traces_validated += 1
        elif st == "ok":
            q.status = "inconclusive"       # a shape this check cannot read, and the native witnesses pass: undecided (exit 2), not an alarm
        return
    parts = parse_fmt_template(template)

    def keyterm(vs):
        out, k = [], 0
        for prt in parts:
            if prt[0] == "lit":
                out.append(z3.StringVal(prt[1]))
            else:
                out.append(vs[k]); k += 1
        return z3.Concat(*out) if len(out) > 1 else out[0]
    ident = [i for i, nm in enumerate(leaves_f) if nm in ("userName", "processFullPath", "processCmdLine")]
    A = [z3.String("a_%s" % nm) for nm in leaves_f]
    B = [z3.String("b_%s" % nm) for nm in leaves_f]
    sol = z3.Solver()
    sol.set("timeout", 60000)
    for i, nm in enumerate(leaves_f):
        if i not in ident:
            sol.add(A[i] == B[i], A[i] == z3.StringVal({"ip": "1", "port": "80", "clientIp": "2", "responseStatus": "403"}.get(nm, "x")))
        else:
            for v in (A[i], B[i]):
                sol.add(z3.Length(v) >= 1, z3.Length(v) <= 4)
                ab = z3.Union(z3.Range("a", "c"), z3.Re("/"))
                # inside a field: letters, '/', a blank, and every character the template itself uses as a separator - except NUL, which
                # neither a user name, a path nor a command line joined from NUL-separated arguments can contain (stated assumption)
                seps = sorted({ch for prt in parts if prt[0] == "lit" for ch in prt[1] if ch != "\x00"} | {" "})
                mid = z3.Union(ab, *[z3.Re(ch) for ch in seps]) if seps else ab
                sol.add(z3.InRe(v, z3.Concat(ab, z3.Star(mid), ab)))
    sol.add(keyterm(A) == keyterm(B), z3.Or([A[i] != B[i] for i in ident]))
    t0 = time.time()
    res = sol.check()
    dt = time.time() - t0
    qn = "the summary key is injective: different (user, process path, command line) never share a key (strings of 2-4 characters over {a,b,c,/,space} and the template's own separator characters; no NUL inside a field)"
    if res == z3.unsat:
        rep.add(Query(qn, "holds", "", dt, "z3", key="C11.summary-key.injective"))
        return
    if res != z3.sat:
        rep.add(Query(qn, "inconclusive", "z3: %s" % res, dt, "z3", key="C11.summary-key.injective"))
        return
    m = sol.model()
    val = lambda v: m.eval(v, model_completion=True).as_string()
    g = lambda X, nm: json.dumps(val(X[leaves_f.index(nm)]))
    code = KEY_REPLAY % {"u1": g(A, "userName"), "p1": g(A, "processFullPath"), "c1": g(A, "processCmdLine"), "u2": g(B, "userName"), "p2": g(B, "processFullPath"), "c2": g(B, "processCmdLine")}
    path = save_replay("C11", "summary_key_collision.rs", "// append to proxy_agent/src/proxy/proxy_summary.rs; run the whole azure-proxy-agent test binary\n" + code)
    model = {str(d): str(m[d]) for d in m.decls()}
    known = any(f.get("key") == "C11.summary-key.injective" for f in load_known_findings().get("findings", []))
    if known and rep.tier != "thorough":
        st = "FAILED"
    else:
        import replay as rp
        res_, _o = rp.run_rust_tests("azure-proxy-agent", [("proxy_agent/src/proxy/proxy_summary.rs", code)], "verif_replay_c11_key", no_args=True)
        st = (res_ or {}).get("c11_different_callers_have_different_summary_keys")
        if st == "FAILED":
            rep.traces_validated += 1
    rep.add(Query(qn, "violated" if st in ("FAILED", "ok") else "inconclusive", "z3 model %s; native replay: %s%s" % (model, st, " (known finding: replayed when recorded)" if known and rep.tier != "thorough" else ""), dt, "z3",
                  key="C11.summary-key.injective", model=model, replay=path, reproduced=True if st == "FAILED" else (False if st == "ok" else None)))


def check_reporter_wrapper(rep, ctx):
    """'each denial adds exactly one occurrence ... including concurrent connections': the call the handler makes hands the summary to the
    status actor with the WAITING send (back-pressure, nothing dropped when 100 actions are queued) and waits for the actor's reply"""
    try:
        w = ctx.method("AgentStatusSharedState", "add_one_failed_connection_summary") + "::{closure#0}"
    except Exception as e:
        rep.add(Query("add_one_failed_connection_summary located", "inconclusive", str(e), 0, "mirsym", key="C11.reporter"))
        return
    eng = ctx.engine(loop_bound=2)
    paths = eng.explore(w)
    rep.functions_encoded.append(w)
    n_ok = 0
    for i, r in enumerate(paths):
        env = origin(r.args[0])
        summary = env.child(("f", 1))
        lossy = [e.callee for e in r.events if e.kind == "call" and re.search(r"mpsc::\w*Sender::(try_send|send_timeout|try_reserve\w*|blocking_send)$|UnboundedSender::send$", e.callee)]
        sends = [e for e in r.events if e.kind == "await" and re.search(r"mpsc::Sender::send$", e.callee)]
        carried = [e for e in sends if len(e.rargs) > 1 and isinstance(e.rargs[1], Agg) and e.rargs[1].variant == "AddOneFailedConnectionSummary" and any(same_origin(f, summary) for f in e.rargs[1].fields)]
        is_err = isinstance(r.ret, Agg) and r.ret.variant == "Err"
        if lossy:
            rep.add(Query("reporter path %d: the summary is queued with the waiting send (a full queue delays, never drops)" % i, "violated", "uses %s" % lossy, 0, "mirsym", key="C11.reporter.send", reproduced=None))
            continue
        if is_err:
            continue            # the actor is gone (send or reply failed): nothing to count into
        n_ok += 1
        ok = r.status == "return" and len(carried) == 1 and len(sends) == 1
        rep.add(Query("reporter path %d: the summary is queued with the waiting send (a full queue delays, never drops), once, carrying the caller's summary" % i, "holds" if ok else "violated",
                      "awaited sends %d, carrying the summary %d" % (len(sends), len(carried)), 0, "mirsym", key="C11.reporter.send", reproduced=None))
        # the reply is awaited: the count is in the map when the handler goes on
        aw = [e for e in r.events if e.kind == "await"]
        waits = len(aw) >= 2 and r.events.index(aw[-1]) > r.events.index(sends[0]) if sends else False
        rep.add(Query("reporter path %d: the actor's reply is awaited before the call returns" % i, "holds" if waits else "violated", "", 0, "mirsym", key="C11.reporter.reply", reproduced=None))
    rep.add(Query("witness: reporter wrapper has a completing path", "witness-hit" if n_ok else "witness-missed", "%d" % n_ok, 0, "mirsym"))


def check_mode_parser(rep, ctx):
    """'in enforce / audit / disabled mode': which mode a rule document's text selects - AuthorizationMode::from_str maps (the lower-cased)
    "enforce", "audit", "disabled" to the variant of that name and nothing else to any variant; from_authorization_item stores what it returns"""
    c = [p for p in ctx.idx.files if p.endswith("::from_str") and "authorization_rules" in p]
    if len(c) != 1:
        rep.add(Query("AuthorizationMode::from_str located", "inconclusive", "%d candidates" % len(c), 0, "mirsym", key="C11.mode-parser"))
        return
    eng = ctx.engine()
    n = 0
    seen = set()
    for i, r in enumerate(eng.explore(c[0])):
        if r.status != "return" or not isinstance(r.ret, Agg):
            continue
        lows = [e for e in r.events if e.kind == "call" and re.search(r"to_lowercase$|to_ascii_lowercase$", e.callee) and same_origin(e.rargs[0], r.args[0])]
        text = lows[0].ret.string() if lows else origin(r.args[0]).string()
        words = {"Enforce": "enforce", "Audit": "audit", "Disabled": "disabled"}
        if r.ret.variant == "Ok":
            v = r.ret.fields[0]
            name = v.variant if isinstance(v, Agg) else None
            n += 1
            seen.add(name)
            ok = name in words and bool(lows) and implied(r, text == z3.StringVal(words[name]))
            rep.add(Query("mode parser path %d: %s is returned only for the text \"%s\" (any letter case)" % (i, name, words.get(name, "?")), "holds" if ok else "violated", "", 0, "mirsym+z3", key="C11.mode-parser", reproduced=None))
        else:
            ok = implied(r, z3.And([text != z3.StringVal(w) for w in words.values()]))
            rep.add(Query("mode parser path %d: an error only for a text that is none of the three mode names" % i, "holds" if ok else "violated", "", 0, "mirsym+z3", key="C11.mode-parser", reproduced=None))
    rep.functions_encoded.append(c[0])
    rep.add(Query("witness: the mode parser returns each of the three modes", "witness-hit" if seen >= {"Enforce", "Audit", "Disabled"} else "witness-missed", str(sorted(x for x in seen if x)), 0, "mirsym"))


def check(rep, tier, seed):
    ctx = Ctx("agent")
    rep.extra["mir_dump"] = {"cache_hit": ctx.dump.cache_hit, "tree_hash": ctx.dump.hash, "seconds": round(ctx.dump.seconds, 1)}
    check_authorizer_modes(rep, ctx)
    check_is_allowed_disabled(rep, ctx)
    hm = HandlerModel(ctx, rep)
    check_handler_recording(rep, hm)
    check_summary_body(rep, ctx)
    check_actor_arms(rep, ctx)
    check_summary_key(rep, ctx)
    check_reporter_wrapper(rep, ctx)
    check_mode_parser(rep, ctx)
    # "on each endpoint": the mode that decides is the mode of the destination's own rule slot
    import p_c01
    p_c01.check_rules_selection(rep, ctx)
    import p_c02
    p_c02.check_decision(rep, ctx)     # a denial is a denial in every mode but Disabled: is_allowed's decision does not depend on Audit/Enforce
    rep.assumptions += ["is_allowed (beyond its Disabled prefix) is uninterpreted in the authorizers: any decision", "Future::poll returns Ready"]
    rep.outside_claim += ["the status-file writer", "the HashMap entry API itself and u64 overflow of a count", "concurrent connections (each handler instance is independent; the counter is serialised by the actor)"]
    rep.trusted += ["mirsym", "z3"]

    import e2e
    e2e.confirm(rep, "C11")
    import batteries
    batteries.confirm(rep, "C11")


def replay(path):
    print(open(path).read())
    return 0
