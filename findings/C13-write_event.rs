// append to proxy_agent_shared/src/telemetry/event_logger.rs

#[cfg(test)]
mod verif_replay_c13_event {
    #[test]
    fn c13_write_event_long_multibyte_message() {
        let message: String = "a".repeat(4095) + "\u{e9}" + &"b".repeat(16);
        super::write_event(crate::logger::LoggerLevel::Info, message, "verif", "verif", "verif_replay");
    }
}
