// C13: KeyKeeper::loop_poll `sleep.as_millis() - time.elapsed().as_millis()` underflow (fixed by 75761a3).
// append to proxy_agent/src/key_keeper.rs; run the whole azure-proxy-agent test binary (debug build) and look for c13_notifications

#[cfg(test)]
#[cfg(not(windows))]
mod verif_battery_c13_notify {
    use super::*;
    use hyper::server::conn::http1;
    use hyper::service::service_fn;
    use hyper::{Request, Response, StatusCode};
    use hyper_util::rt::TokioIo;

    #[tokio::test(flavor = "multi_thread", worker_threads = 4)]
    async fn c13_notifications_at_any_time_do_not_stop_the_key_keeper() {
        let root = std::env::temp_dir().join(format!("verif_c13_notify_{}", std::process::id()));
        let _ = std::fs::remove_dir_all(&root);
        let token = CancellationToken::new();
        let listener = tokio::net::TcpListener::bind("127.0.0.1:0").await.unwrap();
        let port = listener.local_addr().unwrap().port();
        let polls = std::sync::Arc::new(std::sync::atomic::AtomicUsize::new(0));
        let polls2 = polls.clone();
        let t2 = token.clone();
        tokio::spawn(async move { loop { tokio::select! { _ = t2.cancelled() => return, r = listener.accept() => {
            let (stream, _) = match r { Ok(x) => x, Err(_) => return };
            let polls = polls2.clone();
            tokio::spawn(async move {
                let service = service_fn(move |req: Request<hyper::body::Incoming>| { let polls = polls.clone(); async move {
                    let path = req.uri().path().to_string();
                    let (status, body) = if path == "/secure-channel/status" { polls.fetch_add(1, std::sync::atomic::Ordering::SeqCst);
                            (200u16, r#"{"authorizationScheme": "Azure-HMAC-SHA256", "keyDeliveryMethod": "http", "keyGuid": null, "requiredClaimsHeaderPairs": ["isRoot"], "secureChannelState": "Wireserver", "version": "1.0"}"#.to_string()) }
                        else if path == "/secure-channel/key" { (200, r#"{"authorizationScheme": "Azure-HMAC-SHA256", "guid": "c13c13c1-3c13-4c13-8c13-c13c13c13c01", "issued": "2021-05-05T12:00:00Z", "key": "4A404E635266556A586E3272357538782F413F4428472B4B6250645367566B59"}"#.to_string()) }
                        else if path.ends_with("/key-attestation") { (200, String::new()) } else { (404, String::new()) };
                    Response::builder().status(StatusCode::from_u16(status).unwrap()).header(hyper::header::CONTENT_TYPE, "application/json; charset=utf-8").body(crate::common::hyper_client::full_body(body.into_bytes()))
                }});
                let _ = http1::Builder::new().serve_connection(TokioIo::new(stream), service).await;
            }); } } } });
        let kk = KeyKeeper { base_url: format!("http://127.0.0.1:{}/", port).parse().unwrap(), key_dir: root.join("Keys"), log_dir: root.join("Logs"), interval: Duration::from_millis(10),
            cancellation_token: token.clone(), key_keeper_shared_state: crate::key_keeper::KeyKeeperSharedState::start_new(), telemetry_shared_state: crate::key_keeper::TelemetrySharedState::start_new(),
            redirector_shared_state: crate::key_keeper::RedirectorSharedState::start_new(), provision_shared_state: crate::key_keeper::ProvisionSharedState::start_new(),
            agent_status_shared_state: crate::key_keeper::AgentStatusSharedState::start_new() };
        let task = tokio::spawn({ let kk = kk.clone(); async move { kk.poll_secure_channel_status().await } });
        tokio::time::sleep(Duration::from_millis(300)).await;      // first polls: the state becomes known
        // a busy machine: other work keeps the runtime's workers occupied for a few milliseconds at a time, so a woken task runs a little late
        for _ in 0..4 { let t = token.clone(); tokio::spawn(async move { while !t.is_cancelled() { std::thread::sleep(Duration::from_millis(2)); tokio::task::yield_now().await; } }); }
        let state = kk.key_keeper_shared_state.clone();
        let mut alive = true;
        for i in 0..800u32 {
            // (kept under ~30 s: after 60 s of process uptime the loop starts the event threads, which need a config file this sandbox lacks)
            // one notification every two to four poll intervals, at drifting phases: some arrive while the loop waits in its select
            let _ = state.notify().await;
            tokio::time::sleep(Duration::from_millis(21 + ((i * 5) % 17) as u64)).await;
            if task.is_finished() { alive = false; break; }
        }
        let before = polls.load(std::sync::atomic::Ordering::SeqCst);
        tokio::time::sleep(Duration::from_millis(400)).await;
        let after = polls.load(std::sync::atomic::Ordering::SeqCst);
        let finished = task.is_finished();
        token.cancel();
        let _ = std::fs::remove_dir_all(&root);
        assert!(alive && !finished, "the key-keeper task ended while notifications were arriving (a panic in loop_poll)");
        assert!(after > before, "the key keeper stopped polling the secure channel status ({} polls, then none in 400 ms = 40 intervals)", before);
    }
}
