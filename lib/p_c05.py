"""C05 proxy-owned headers (engine M, shared handler model). See DESIGN.md 4/C05."""
from mcommon import *
from handler_model import *
from p_c01 import violated

MUTATORS = re.compile(r"(Request::(headers_mut|uri_mut|method_mut|version_mut|extensions_mut|body_mut)|HeaderMap::(insert|append|try_insert|try_append|remove|clear|entry|try_entry|extend|drain|get_mut|iter_mut|values_mut))$")


def const_str(eng_ctx, name):
    e2 = eng_ctx.engine()
    e2._reset([])
    v = e2.eval_const("common::constants::" + name)
    if isinstance(v, StrV):
        return v.e.as_string()
    raise Inconclusive("constant %s is not a string literal" % name)


def header_name_of(p, insert_ev):
    """string literal passed to HeaderName::from_static for this insert"""
    nm = origin(insert_ev.rargs[1])
    for e in p.events:
        if e.ret is nm and e.callee.endswith("HeaderName::from_static"):
            a = e.rargs[0]
            if isinstance(a, StrV):
                return a.e.as_string()
    return None


def value_source(p, insert_ev):
    """the argument of HeaderValue::from_str whose Ok payload is inserted"""
    val = origin(insert_ev.rargs[2])
    if isinstance(val, Sym) and val.tag[0] == "part" and val.tag[2] == ("v", "Ok", 0):
        src = origin(val.tag[1])
        for e in p.events:
            if e.ret is src and e.callee.endswith("HeaderValue::from_str"):
                return e.rargs[0]
    return None


def map_owner(p, insert_ev):
    """the request whose headers_mut() produced the map of this insert"""
    mp = origin(insert_ev.rargs[0])
    for e in p.events:
        if e.ret is mp and e.callee.endswith("Request::headers_mut"):
            return e.rargs[0]
    return None


def relayed_request_chain(p, relay):
    """(request object sent, into_parts source) following from_parts(head, ..) <- into_parts(x)"""
    sent = origin(relay.rargs[1]) if len(relay.rargs) > 1 else None
    fp = None
    for e in p.events:
        if e.ret is sent and e.callee.endswith("Request::from_parts"):
            fp = e
    if fp is None:
        return sent, None, None
    head = origin(fp.rargs[0])
    if isinstance(head, Sym) and head.tag[0] == "part" and head.tag[2] == ("f", 0):
        ip = origin(head.tag[1])
        for e in p.events:
            if e.ret is ip and e.callee.endswith("Request::into_parts"):
                return sent, fp, e
    return sent, fp, None


def check_date_unit(rep):
    """'the date is the proxy's current time': get_date_time_rfc1123_string() (named by the date-value obligation) reads the clock on every
    call and returns that reading formatted with the RFC 1123 description - no stored or cached text"""
    from p_c08 import derives
    sctx = Ctx("shared")
    c = [p for p in sctx.idx.files if p.endswith("misc_helpers::get_date_time_rfc1123_string")]
    if len(c) != 1:
        rep.add(Query("get_date_time_rfc1123_string located", "inconclusive", "%d candidates" % len(c), 0, "mirsym", key="C05.date-unit"))
        return
    eng = sctx.engine(loop_bound=1)
    eng.auto_inline = sctx.new_function_auto()
    n = 0
    for i, r in enumerate(eng.explore(c[0])):
        if r.status != "return":
            continue
        n += 1
        ev = r.events
        now = [e for e in ev if e.kind == "call" and re.search(r"OffsetDateTime::now_utc$|SystemTime::now$|Utc::now$", e.callee)]
        fm = [e for e in ev if e.kind == "call" and re.search(r"OffsetDateTime::format$", e.callee)]
        ds = [e for e in ev if e.kind == "call" and e.callee.endswith("parse") and e.rargs and isinstance(origin(e.rargs[0]), StrV)]
        desc = origin(ds[0].rargs[0]).e.as_string() if ds else ""
        ok = len(now) == 1 and len(fm) == 1 and same_origin(fm[0].rargs[0], now[0].ret) and derives(fm[0].rargs[1], ds[0].ret, ev) if ds else False
        ok = ok and "[weekday repr:short], [day] [month repr:short] [year] [hour]:[minute]:[second] GMT" == desc
        cur = r.ret
        for _ in range(4):          # the returned text is the formatted value (through chars().collect() / to_string())
            o = origin(cur)
            if isinstance(o, Sym) and isinstance(o.tag, tuple) and o.tag[0] == "ret" and re.search(r"(collect|chars|to_string|unwrap)$", o.tag[1]):
                nx = [e for e in ev if e.ret is o and e.rargs]
                if not nx:
                    break
                cur = nx[0].rargs[0]
                continue
            break
        ok = ok and bool(fm) and derives(cur, fm[0].ret, ev)
        rep.add(Query("get_date_time_rfc1123_string path %d: one clock reading per call, formatted as RFC 1123 GMT, returned as it is" % i, "holds" if ok else "violated", "format description %r" % desc[:90], 0, "mirsym",
                      key="C05.date-unit", reproduced=None))
    rep.functions_encoded.append("proxy_agent_shared::" + c[0])
    rep.add(Query("witness: get_date_time_rfc1123_string has a returning path", "witness-hit" if n else "witness-missed", "%d" % n, 0, "mirsym"))


def check(rep, tier, seed):
    ctx = Ctx("agent")
    rep.extra["mir_dump"] = {"cache_hit": ctx.dump.cache_hit, "tree_hash": ctx.dump.hash, "seconds": round(ctx.dump.seconds, 1)}
    hm = HandlerModel(ctx, rep)
    CL, DT, AU = const_str(ctx, "CLAIMS_HEADER"), const_str(ctx, "DATE_HEADER"), const_str(ctx, "AUTHORIZATION_HEADER")
    for nm, val in (("CLAIMS_HEADER", CL), ("DATE_HEADER", DT), ("AUTHORIZATION_HEADER", AU)):
        ok = val == {"CLAIMS_HEADER": "x-ms-azure-host-claims", "DATE_HEADER": "x-ms-azure-host-date", "AUTHORIZATION_HEADER": "x-ms-azure-host-authorization"}[nm]
        rep.add(Query("constant %s = %s (lower case, as HeaderName::from_static requires)" % (nm, val), "holds" if ok else "violated", "", 0, "mirsym", key="C05.const:" + nm, nontrivial=False))
    check_date_unit(rep)
    elev_idx = ctx.field("Claims", "runAsElevated")
    claims_idx = ctx.field("TcpConnectionContext", "claims")
    n = 0
    for p in hm.paths:
        relays = p.relays
        if not relays:
            continue
        n += 1
        relay = relays[0]
        # one request, one upstream send: the obligations below are about THE relayed request; a second send on the same path (a resend
        # over another connection, a copy taken at some earlier point) would put a request on the wire that they do not cover
        ups = p.upstream_sends
        if len(ups) != 1:
            violated(rep, "path %d: the request is sent upstream exactly once" % p.i, "C05.one-relay", "upstream sends on this path: %s" % [e.callee for e in ups], p)
        else:
            rep.add(Query("path %d: the request is sent upstream exactly once" % p.i, "holds", "", 0, "mirsym", key="C05.one-relay"))
        ri = p.index(relay)
        pre = p.events[:ri]
        au = p.first(r"(^|::)authorize$", ("call",))
        inserts = [e for e in pre if e.kind == "call" and e.callee.endswith("HeaderMap::insert")]
        names = [header_name_of(p, e) for e in inserts]
        signed = bool([e for e in pre if e.kind == "call" and e.callee.endswith("compute_signature")]) and AU in names

        def ob(name, ok, key, detail=""):
            qn = "path %d: %s" % (p.i, name)
            if ok:
                rep.add(Query(qn, "holds", detail, 0, "mirsym", key=key))
            else:
                violated(rep, qn, key, detail or "trace: %s" % [e.callee.split('::')[-1] for e in pre if MUTATORS.search(e.callee) or 'from_static' in e.callee], p)
        exp = [CL, DT] + ([AU] if signed else [])
        ob("header writes before the relay are exactly insert(%s)" % ", ".join(exp), names == exp, "C05.inserts", "got %s" % names)
        muts = [e for e in pre if e.kind == "call" and MUTATORS.search(e.callee)]
        other = [e.callee for e in muts if not (e.callee.endswith("HeaderMap::insert") or e.callee.endswith("Request::headers_mut"))]
        ob("no other header/request mutation (append, remove, entry, uri_mut, ...) before the relay", not other, "C05.no-other-mutation", "found %s" % other)
        hmuts = [e for e in muts if e.callee.endswith("Request::headers_mut")]
        ob("every headers_mut() feeds one of those inserts", len(hmuts) == len(inserts) and all(any(origin(i.rargs[0]) is h.ret for i in inserts) for h in hmuts),
           "C05.headers_mut-use")
        sent, fp, ip = relayed_request_chain(p, relay)
        ob("the relayed request is from_parts(head of into_parts(incoming request), collected body)", fp is not None and ip is not None and same_origin(ip.rargs[0], p.request),
           "C05.relayed-is-incoming")
        if len(inserts) >= 2 and names[:2] == [CL, DT]:
            i1, i2 = inserts[0], inserts[1]
            ob("claims/date are inserted into the incoming request's own header map", same_origin(map_owner(p, i1), p.request) and same_origin(map_owner(p, i2), p.request), "C05.map-owner")
            ob("authorize() precedes the inserts, the inserts precede into_parts (so they are part of what is signed and relayed)",
               au is not None and ip is not None and p.index(au) < p.index(i1) < p.index(i2) < p.index(ip), "C05.order")
            src = value_source(p, i1)
            leaves = fmt_leaves(src) if src is not None else []
            nonconst = [l for l in leaves if not isinstance(origin(l), (ConstV, StrV))]
            good = len(nonconst) == 1 and is_part_of(nonconst[0], p.tctx, [("f", claims_idx), ("v", "Some", 0), ("f", elev_idx)])
            ob("claims header value is formatted from constants and the context claims' runAsElevated only", good, "C05.claims-value", "leaves %r" % (leaves,))
            isroot = [l for l in leaves if isinstance(origin(l), StrV) and origin(l).e.as_string() == "isRoot"]
            ob("claims header value names the isRoot key", bool(isroot), "C05.claims-key", "leaves %r" % (leaves,))
            src2 = value_source(p, i2)
            o2 = origin(src2) if src2 is not None else None
            ob("date header value is get_date_time_rfc1123_string() of this request", isinstance(o2, Sym) and o2.tag[0] == "ret" and o2.tag[1].endswith("get_date_time_rfc1123_string"),
               "C05.date-value", "source %r" % (src2,))
        # "a request the proxy signs": not one of the two exempt uploads, and a key is latched. Such a request is relayed with the
        # proxy's authorization value (which replaces whatever the client sent) - a relay without compute_signature must be explained
        # by the key being absent
        skip = [e for e in pre if e.kind == "call" and e.callee.endswith("should_skip_sig")]
        exempt = bool(skip) and p.implied(skip[-1].ret.scalar("bool"))
        if not exempt and not [e for e in pre if e.kind == "call" and e.callee.endswith("compute_signature")]:
            ka = [e for e in pre if e.kind == "await" and re.search(r"get_current_key", e.callee)]
            if not ka:
                ob("a request that is not exempt is relayed unsigned only when no key is latched", False, "C05.signed-when-key", "the relay path never reads the key")
            else:
                conds = []
                for k in ka:
                    uw = [e for e in pre if e.kind == "call" and re.search(r"unwrap_or(_default)?$", e.callee) and e.rargs and origin(e.rargs[0]) is k.ret]
                    val = uw[0].ret if uw else k.ret.child(("v", "Ok", 0))
                    val = origin(val)
                    if isinstance(val, Sym) and (val.ty or "").startswith("(") or any(isinstance(kk, tuple) and kk[0] == "f" for kk in getattr(val, "_kids", {})):
                        conds += [val.child(("f", 0)).discr() == 1, val.child(("f", 1)).discr() == 1]
                    elif isinstance(val, Sym):
                        conds.append(val.discr() == 1)
                rs, _m, _dt, _zm = check_sat(p.pc + conds)
                ob("a request that is not exempt is relayed unsigned only when no key is latched", rs == "unsat", "C05.signed-when-key",
                   "the relay is reachable with a key present (%s) and no signature computed: the client's authorization header, if any, reaches the host" % rs)
        if signed:
            i3 = inserts[names.index(AU)]
            ob("authorization header is inserted into the very request that is relayed", same_origin(map_owner(p, i3), sent), "C05.auth-map-owner")
            ob("authorization insert follows every other header write", all(p.index(i3) >= p.index(x) for x in inserts), "C05.auth-order")
    rep.add(Query("witness: relay paths examined", "witness-hit" if n else "witness-missed", "%d" % n, 0, "mirsym"))
    rep.add(Query("witness: a signed relay path exists", "witness-hit" if any(p.relays and p.evs(r"compute_signature$") for p in hm.paths) else "witness-missed", "", 0, "mirsym"))
    rep.bounds["handler"] = "%d complete paths (all), loop-free" % len(hm.paths)
    rep.assumptions += ["http::HeaderMap::insert replaces every existing value of the name and HeaderName is case-normalised (documented contract of the http crate)",
                        "Future::poll returns Ready"]
    rep.outside_claim += ["bytes on the wire", "a client authorization header on requests the proxy does not sign (no key / exempt uploads)"]
    rep.trusted += ["http crate HeaderMap", "mirsym", "z3"]

    import e2e
    e2e.confirm(rep, "C05")


def replay(path):
    print(open(path).read())
    return 0
