"""Static over-approximate call graph over the MIR dump: nodes = body paths, edges by callee text.
A callee text is resolved to every body whose last path segment equals the callee's last segment (over-approximation:
method-name match), plus coroutine/closure bodies nested in a matched body."""
import re
from mirparse import *
from mirsym import strip_generics


def last_seg(callee):
    c = strip_generics(callee)
    c = re.sub(r"^<(.*) as [^>]*>::", "", c) if c.startswith("<") else c
    return c.split("::")[-1]


class CallGraph:
    def __init__(self, idx):
        self.idx = idx
        self.callees = {}      # path -> set(callee text stripped)
        self.by_last = {}
        for p in idx.files:
            segs = [s for s in p.split("::") if not s.startswith("{closure")]
            self.by_last.setdefault(segs[-1], set()).add(p)
        import os, json
        cache = os.path.join(idx.dir, "..", "callgraph.json")
        if os.path.exists(cache):
            try:
                self.callees = {k: set(v) for k, v in json.load(open(cache)).items()}
            except Exception:
                self.callees = {}
        if not self.callees:
            for p in idx.files:
                b = idx.body(p)
                cs = set()
                for n, (raw_stmts, raw_term) in b.blocks.items():
                    if n in b.cleanup:
                        continue
                    line = raw_term[1]
                    if ") -> " not in line:
                        continue
                    try:
                        t = parse_statement_line(line)
                    except MirError:
                        continue
                    if getattr(t, "kind", None) == "call":
                        cs.add(strip_generics(t.callee))
                self.callees[p] = cs
            try:
                json.dump({k: sorted(v) for k, v in self.callees.items()}, open(cache, "w"))
            except OSError:
                pass

    def set_src(self, src_root):
        self.src_root = src_root
        self.impl_methods = {}      # (self type, method) -> [(trait, path)]
        self.free_fns = {}          # last segment -> [path]   (bodies not inside an impl)
        from mirsym import impl_info
        for p in self.idx.files:
            segs = [x for x in p.split("::") if not x.startswith("{closure")]
            if p.endswith("}") and "{closure" in p.split("::")[-1]:
                continue
            info = impl_info(src_root, p)
            if info:
                self.impl_methods.setdefault((info[1], segs[-1]), []).append((info[0], p))
            else:
                self.free_fns.setdefault(segs[-1], []).append(p)

    def resolve(self, callee, caller):
        """Bodies a callee text may denote (type-directed; over-approximate for dyn / generic receivers)."""
        from mirsym import base_type_name
        c = strip_generics(callee)
        out = set()
        if c.startswith("<"):
            m = re.match(r"<(.+) as (.+)>::(\w+)$", c)
            if not m:
                return out
            ty, tr, meth = m.group(1).strip(), base_type_name(m.group(2)), m.group(3)
            if ty.startswith("dyn ") or ty.startswith("impl ") or re.match(r"^[A-Z]\w?$", ty):
                for (t, mm), lst in self.impl_methods.items():
                    if mm == meth:
                        out |= {p for (trait, p) in lst if trait == tr}
                return out
            tn = base_type_name(ty)
            for (trait, p) in self.impl_methods.get((tn, meth), []):
                if trait == tr or trait is None:
                    out.add(p)
            return out
        parts = c.split("::")
        meth = parts[-1]
        if len(parts) >= 2:
            qual = parts[-2]
            for (trait, p) in self.impl_methods.get((qual, meth), []):
                out.add(p)
            for p in self.free_fns.get(meth, []):
                if re.search(r"(^|::)%s::%s$" % (re.escape(qual), re.escape(meth)), p):
                    out.add(p)
            return out
        for p in self.free_fns.get(meth, []):
            out.add(p)
        return out

    def children(self, p):
        out = set()
        for c in self.callees.get(p, ()):
            out |= self.resolve(c, p)
        for q in self.idx.files:
            if q.startswith(p + "::{closure"):
                out.add(q)
        return out

    def reach_callees(self, roots):
        """All callee texts reachable from the bodies in roots (transitively through repo bodies)."""
        seen, todo, texts = set(), list(roots), set()
        while todo:
            p = todo.pop()
            if p in seen:
                continue
            seen.add(p)
            texts |= self.callees.get(p, set())
            todo.extend(self.children(p) - seen)
        return texts, seen
