"""C08 a key is never latched at the host unless the guest can recover it (engine M). DESIGN.md 4/C08.
Crash points: a crash is a prefix of a path's event trace; the ordering obligations below hold for every prefix."""
from mcommon import *

PRE = r"|Instant::elapsed$|get_elapsed_time_in_millisec$|tokio::time::sleep$|Notify::notified$|poll_fn$|provision_timeup$|start_event_threads$|get_current_secure_channel_state$"
KEYFNS = ("store_key", "store_local_key", "check_key", "check_local_key", "fetch_key", "fetch_local_key")


def key_section(ctx, rep):
    w = ctx.method("KeyKeeper", "loop_poll")
    body = w + "::{closure#0}"
    inl = [(r"(KeyKeeper|Self)::%s$" % fn, ctx.method("KeyKeeper", fn)) for fn in KEYFNS]
    eng = ctx.engine(inline=inl, loop_bound=1, max_paths=20000, timeout=420)
    st = eng.find_blocks(body, r"KeyStatus::get_secure_channel_state$")
    if len(st) != 1:
        raise Inconclusive("loop_poll: expected one call of KeyStatus::get_secure_channel_state, found %d" % len(st))
    paths = eng.explore(body, start_bb=st[0], stop_calls=r"update_current_secure_channel_state$|(^|::)get_status$" + PRE)
    rep.functions_encoded += [body + " [key section: from get_secure_channel_state to update_current_secure_channel_state / next iteration]"] + sorted(eng.inlined)
    rep.extra["states"] = eng.stats["blocks"]
    rep.extra["transitions"] = eng.stats["blocks"] + eng.solver_calls
    return eng, paths


TRANSPARENT = re.compile(r"(to_path_buf|as_path|to_string|to_owned|as_str|as_ref|clone|into|from|deref|borrow|as_os_str|unwrap_or|unwrap_or_default)$")
_EVENTS = []


def derives(v, base, events=None):
    """v is base / a part / a conversion of it, also through transparent std calls (to_path_buf, as_path, ...)"""
    from p_c02 import derives_from
    evs = events if events is not None else _EVENTS
    cur = v
    for _ in range(8):
        if derives_from(cur, base):
            return True
        o = origin(cur)
        if isinstance(o, Sym) and o.tag[0] == "ret" and TRANSPARENT.search(o.tag[1]):
            nx = [e for e in evs if e.ret is o and e.rargs]
            if not nx:
                return False
            cur = nx[0].rargs[0]
            continue
        return False
    return False


def implied(r, cond):
    rs, _m, _dt, _zm = check_sat(r.pc + [z3.Not(cond)])
    return rs == "unsat"


def check_key_section(rep, ctx):
    eng, paths = key_section(ctx, rep)
    n_att = n_local = 0
    viol = set()

    def ob(i, name, ok, key, detail, r):
        qn = "key section path %d: %s" % (i, name)
        if ok:
            rep.add(Query(qn, "holds", "", 0, "mirsym+z3", key=key))
        else:
            rep.add(Query(qn, "violated", detail, 0, "mirsym+z3", key=key, reproduced=None,
                          replay=save_replay("C08", "keysec_path%d_%s.json" % (i, re.sub(r"\W+", "_", key)), json.dumps({"obligation": name, "detail": detail, "decisions": r.decisions[:60],
                                             "calls": [e.callee.split("::")[-1] for e in r.events if e.kind in ("call", "await")][:80]}, indent=1))))
    for i, r in enumerate(paths):
        ev = r.events
        acq = [e for e in ev if e.kind == "await" and e.callee.endswith("acquire_key")]
        att = [e for e in ev if e.kind == "await" and e.callee.endswith("attest_key")]
        upd = [e for e in ev if e.kind == "await" and e.callee.endswith("update_key")]
        jw = [e for e in ev if e.kind == "call" and e.callee.endswith("json_write_to_file")]
        fs_ = [e for e in ev if e.kind == "call" and e.callee.endswith("serde_json::from_str")]
        cmps = [e for e in ev if e.kind == "streq"]
        K = acq[0].ret.child(("v", "Ok", 0)) if acq else None
        for a in att:
            n_att += 1
            ai = ev.index(a)
            ok_src = K is not None and derives(a.rargs[1], K)
            ob(i, "the key attested is the key just acquired", ok_src, "C08.attest-source", repr(a.rargs[1])[:120], r)
            stores = [e for e in jw if ev.index(e) < ai and K is not None and derives(e.rargs[0], K)]
            ok_store = bool(stores) and implied(r, stores[-1].ret.discr() == 0)
            ob(i, "attest_key is preceded by a successful store of that key", ok_store, "C08.store-before-attest", "stores before attest: %d" % len(stores), r)
            if stores:
                si = ev.index(stores[-1])
                rb = [e for e in fs_ if si < ev.index(e) < ai]
                ok_rb = bool(rb) and implied(r, rb[-1].ret.discr() == 0)
                lk = rb[-1].ret.child(("v", "Ok", 0)) if rb else None
                gi, ki = ctx.field("Key", "guid"), ctx.field("Key", "key")
                eqs = [e for e in cmps if si < ev.index(e) < ai] if lk is not None else []
                g_ok = [e for e in eqs if any(derives(x, lk.child(("f", gi))) for x in e.rargs) and any(derives(x, K.child(("f", gi))) for x in e.rargs)]
                k_ok = [e for e in eqs if any(derives(x, lk.child(("f", ki))) for x in e.rargs) and any(derives(x, K.child(("f", ki))) for x in e.rargs)]
                ok_cmp = bool(g_ok) and bool(k_ok) and implied(r, z3.And(g_ok[-1].extra, k_ok[-1].extra))
                ob(i, "between store and attest the key file is read back and its guid AND key value equal the acquired key", ok_rb and ok_cmp, "C08.readback-before-attest",
                   "read-backs %d guid-compare %d key-compare %d" % (len(rb), len(g_ok), len(k_ok)), r)
        for u in upd:
            ui = ev.index(u)
            if K is not None and derives(u.rargs[1], K):
                ok = bool(att) and ev.index(att[-1]) < ui and implied(r, att[-1].ret.discr() == 0)
                ob(i, "an acquired key is published in memory only after the host attested it", ok, "C08.publish-after-attest", "", r)
            else:
                n_local += 1
                src = [e for e in fs_ if ev.index(e) < ui and derives(u.rargs[1], e.ret)]
                ok = bool(src) and not [e for e in acq + att if ev.index(e) < ui]
                ob(i, "a key found in the local store is used without acquiring or attesting a new one", ok, "C08.local-key-no-acquire", "acquire/attest before publish: %d" % len([e for e in acq + att if ev.index(e) < ui]), r)
        # a local key that was found and parsed stops the search: no acquire afterwards in that iteration
        if acq:
            before = [e for e in fs_ if ev.index(e) < ev.index(acq[0])]
            if before:
                ok = implied(r, before[-1].ret.discr() != 0) or not implied(r, before[-1].ret.discr() == 0)
                ob(i, "acquire_key is called only when the local key could not be read", implied(r, before[-1].ret.discr() == 1) or _fetch_failed(r, ev, acq[0]), "C08.acquire-only-if-no-local", "", r)
        if att and not acq:
            ob(i, "attest without acquire", False, "C08.attest-source", "attest_key on a path without acquire_key", r)
    rep.add(Query("witness: key section has attesting paths and local-key paths", "witness-hit" if n_att and n_local else "witness-missed", "%d/%d" % (n_att, n_local), 0, "mirsym"))
    rep.bounds["key section"] = "%d paths of one loop_poll iteration from an arbitrary prior state (all locals and the actor state unconstrained)" % len(paths)


def _fetch_failed(r, ev, acq):
    """some step of the local fetch before `acq` failed on this path (file missing, unreadable, unparsable)"""
    ai = ev.index(acq)
    ex = [e for e in ev[:ai] if e.kind == "call" and e.callee.endswith("Path::exists")]
    rd = [e for e in ev[:ai] if e.kind == "call" and e.callee.endswith("read_to_string")]
    fs_ = [e for e in ev[:ai] if e.kind == "call" and e.callee.endswith("serde_json::from_str")]
    conds = [z3.Not(e.ret.scalar("bool")) for e in ex] + [e.ret.discr() == 1 for e in rd] + [e.ret.discr() == 1 for e in fs_]
    if not conds:
        return True
    return implied(r, z3.Or(conds))


def check_file_protocol(rep):
    """misc_helpers::json_write_to_file: the final name only ever appears through rename(tmp -> final) after a complete write."""
    sctx = Ctx("shared")
    cands = [p for p in sctx.idx.files if p.endswith("misc_helpers::json_write_to_file")]
    if len(cands) != 1:
        rep.add(Query("json_write_to_file located in proxy_agent_shared", "inconclusive", "%d candidates" % len(cands), 0, "mirsym"))
        return
    eng = sctx.engine()
    paths = eng.explore(cands[0])
    rep.functions_encoded.append("proxy_agent_shared::" + cands[0])
    n_ok = 0
    for i, r in enumerate(paths):
        ev = r.events
        final = r.args[1]
        cr = [e for e in ev if e.kind == "call" and re.search(r"File::(create|options|create_new)$|OpenOptions::open$|fs::write$", e.callee)]
        wr = [e for e in ev if e.kind == "call" and re.search(r"to_writer(_pretty)?$", e.callee)]
        rn = [e for e in ev if e.kind == "call" and re.search(r"(^|::)rename$", e.callee)]
        we = [e for e in ev if e.kind == "call" and e.callee.endswith("with_extension")]
        tmp = we[0].ret if we else None
        ok_tmp = tmp is not None and derives(we[0].rargs[0], final) and isinstance(we[0].rargs[1], StrV) and we[0].rargs[1].e.as_string() == "tmp"
        direct = [e for e in cr if derives(e.rargs[0], final) and not (tmp is not None and derives(e.rargs[0], tmp))]
        qn = "json_write_to_file path %d" % i
        rep.add(Query(qn + ": the final path is never opened or written directly", "holds" if not direct else "violated", "", 0, "mirsym", key="C08.file.no-direct-write", reproduced=None))
        if rn:
            ri = ev.index(rn[0])
            ok = ok_tmp and derives(rn[0].rargs[0], tmp) and derives(rn[0].rargs[1], final) and len(wr) == 1 and ev.index(wr[0]) < ri and \
                len([e for e in cr if derives(e.rargs[0], tmp)]) == 1
            okz = ok and implied(r, wr[0].ret.discr() == 0)
            # the bytes must be IN the temp file before the rename: the writer is the created file itself, or a buffering wrapper around it
            # that is flushed (flush / into_inner, successfully) before the rename - a wrapper flushed by its drop writes after the rename
            if ok and wr:
                w = origin(wr[0].rargs[0])
                created = [e for e in cr if derives(e.rargs[0], tmp)]
                fpay = created[0].ret.child(("v", "Ok", 0)) if created else None
                direct_file = fpay is not None and (derives(w, fpay) or is_part_of(w, created[0].ret) or same_origin(w, fpay))
                flushed = True
                wrap = [e for e in ev if e.kind == "call" and re.search(r"(BufWriter|LineWriter)(<.*>)?::(new|with_capacity)$", e.callee)]
                if not direct_file:
                    mine = [e for e in wrap if same_origin(e.ret, w) or derives(w, e.ret)]
                    if mine:
                        fl = [e for e in ev if e.kind == "call" and re.search(r"::(flush|into_inner)$", e.callee) and ev.index(e) < ri and
                              (same_origin(e.rargs[0], mine[0].ret) or derives(e.rargs[0], mine[0].ret))]
                        flushed = bool(fl) and implied(r, fl[-1].ret.discr() == 0)
                    else:
                        flushed = False
                rep.add(Query(qn + ": the serialised bytes are in the temp file before the rename (writer = the file, or a buffer flushed successfully before it)", "holds" if flushed else "violated",
                              "writer %r" % (w,), 0, "mirsym+z3", key="C08.file.flushed-before-rename", reproduced=None))
            rep.add(Query(qn + ": rename(tmp -> final) happens only after create(tmp) and a successful complete serialisation into it", "holds" if okz else "violated",
                          "tmp ok %s, writes %d" % (ok_tmp, len(wr)), 0, "mirsym+z3", key="C08.file.rename-after-write", reproduced=None))
            if isinstance(r.ret, Agg) and r.ret.variant == "Ok":
                n_ok += 1
                rep.add(Query(qn + ": Ok is returned only after the rename succeeded", "holds" if implied(r, rn[0].ret.discr() == 0) else "violated", "", 0, "mirsym+z3", key="C08.file.ok-after-rename", reproduced=None))
        elif isinstance(r.ret, Agg) and r.ret.variant == "Ok":
            rep.add(Query(qn + ": Ok without rename", "violated", "", 0, "mirsym", key="C08.file.ok-after-rename", reproduced=None))
    rep.add(Query("witness: json_write_to_file has a successful path", "witness-hit" if n_ok else "witness-missed", "", 0, "mirsym"))


def check_store_fetch_names(rep, ctx):
    """store_local_key(dir, key) writes dir/<key.guid>.key and fetch_local_key(dir, guid) reads dir/<guid>.key: found after restart."""
    def file_expr(fn, which):
        eng = ctx.engine()
        out = set()
        for r in eng.explore(ctx.method("KeyKeeper", fn)):
            ev = r.events
            _EVENTS[:] = ev
            tgt = [e for e in ev if e.kind == "call" and re.search(which, e.callee)]
            for t in tgt:
                path_arg = t.rargs[1] if fn == "store_local_key" else t.rargs[0]
                # chain: join(dir, name) then set_extension(ext)
                js = [e for e in ev if e.kind == "call" and e.callee.endswith("Path::join")]
                se = [e for e in ev if e.kind == "call" and e.callee.endswith("set_extension") and ev.index(e) < ev.index(t)]
                ext = se[-1].rargs[1].e.as_string() if se and isinstance(se[-1].rargs[1], StrV) else None
                nm = None
                if js:
                    a = js[0].rargs[1]
                    if fn == "store_local_key":
                        nm = "guid-of-key" if derives(a, origin(r.args[1]).child("*").child(("f", ctx.field("Key", "guid")))) else "?"
                    else:
                        nm = "guid-arg" if derives(a, r.args[1]) else "?"
                    d = "dir-arg" if derives(js[0].rargs[0], r.args[0]) else "?"
                    out.add((d, nm, ext))
        rep.functions_encoded.append(ctx.method("KeyKeeper", fn))
        return out
    st = file_expr("store_local_key", r"json_write_to_file$")
    ft = file_expr("fetch_local_key", r"read_to_string$")
    ok = ("dir-arg", "guid-of-key", "key") in st and ("dir-arg", "guid-arg", "key") in ft
    rep.add(Query("the key file is stored as <key dir>/<key.guid>.key and looked up as <key dir>/<status guid>.key (found again after a restart)", "holds" if ok else "violated",
                  "store %s fetch %s" % (sorted(st), sorted(ft)), 0, "mirsym", key="C08.file-naming", reproduced=None))
    # the public wrappers hand their directory and guid/key on UNCHANGED (no trimming / case folding on one side only: the name written and
    # the name looked up after a restart must be the same bytes on a case-sensitive file system)
    for wfn, inner, what in (("fetch_key", "fetch_local_key", "guid"), ("store_key", "store_local_key", "key"), ("check_key", "check_local_key", "key")):
        try:
            wpath = ctx.method("KeyKeeper", wfn)
        except Inconclusive:
            continue
        engw = ctx.engine()
        bad, n_calls = [], 0
        for r in engw.explore(wpath):
            _EVENTS[:] = r.events
            for e in r.events:
                if e.kind == "call" and re.search(r"(KeyKeeper|Self)::%s$" % inner, e.callee):
                    n_calls += 1
                    if not (derives(e.rargs[0], r.args[0], r.events) and derives(e.rargs[1], r.args[1], r.events)):
                        bad.append(repr(e.rargs[1])[:80])
        rep.functions_encoded.append(wpath)
        rep.add(Query("%s hands its directory and its %s on to %s unchanged" % (wfn, what, inner), "holds" if n_calls and not bad else "violated", "%d calls; changed: %s" % (n_calls, bad[:2]), 0, "mirsym",
                      key="C08.file-naming:" + wfn, reproduced=None))
    # check_local_key: Ok only if guid and key both equal
    eng = ctx.engine(inline=[(r"(KeyKeeper|Self)::fetch_local_key$", ctx.method("KeyKeeper", "fetch_local_key"))])
    n = 0
    for i, r in enumerate(eng.explore(ctx.method("KeyKeeper", "check_local_key"))):
        if isinstance(r.ret, Agg) and r.ret.variant == "Ok":
            n += 1
            cm = [e for e in r.events if e.kind == "streq"]
            key = origin(r.args[1]).child("*")
            gi, ki = ctx.field("Key", "guid"), ctx.field("Key", "key")
            g = [e for e in cm if any(derives(x, key.child(("f", gi))) for x in e.rargs)]
            k = [e for e in cm if any(derives(x, key.child(("f", ki))) for x in e.rargs)]
            ok = bool(g) and bool(k) and implied(r, z3.And(g[-1].extra, k[-1].extra))
            rep.add(Query("check_local_key path %d: Ok only if the stored guid AND the stored key value equal the given key" % i, "holds" if ok else "violated",
                          "guid compares %d key compares %d" % (len(g), len(k)), 0, "mirsym+z3", key="C08.check-both-fields", reproduced=None))
    rep.add(Query("witness: check_local_key has an Ok path", "witness-hit" if n else "witness-missed", "", 0, "mirsym"))
    rep.functions_encoded.append(ctx.method("KeyKeeper", "check_local_key"))


FS_MUT = re.compile(r"(^|::)(remove_file|remove_dir|remove_dir_all|rename|hard_link|symlink|set_permissions|set_len|create_new)$|(^|fs::)(write|copy)$|File::create$|OpenOptions::open$|File::options$")


def _standalone_fs_ops(ctx, path):
    """file-system mutating calls a crate helper can make (stand-alone exploration, new helpers inlined)"""
    eng = ctx.engine(loop_bound=1, max_paths=2000, timeout=60)
    eng.auto_inline = ctx.new_function_auto()
    ops = set()
    for r in eng.explore(path):
        for e in r.events:
            if e.kind in ("call", "await") and FS_MUT.search(e.callee):
                ops.add(e.callee.split("::")[-1])
    return ops


def check_key_store_untouched(rep, ctx):
    """'a key the host regards as attested is always present': within the key step the key store is modified by the store step alone
    (json_write_to_file under the final name) - nothing in the step removes, truncates, re-creates or renames a file; and inside the store
    helper nothing creates or opens-for-writing the final name before the atomic write (a crash would leave a short file under it)"""
    import callgraph
    eng, paths = key_section(ctx, rep)
    cg = callgraph.CallGraph(ctx.idx)
    cg.set_src(ctx.src)
    bf = os.path.join(os.path.dirname(os.path.abspath(__file__)), "baseline_fn_names.txt")
    baseline = set(open(bf).read().split()) if os.path.exists(bf) else set()
    direct, helpers = {}, {}
    for r in paths:
        for e in r.events:
            if e.kind not in ("call", "await"):
                continue
            if FS_MUT.search(e.callee):
                direct[e.callee] = direct.get(e.callee, 0) + 1
            elif callgraph.last_seg(e.callee) not in baseline and e.callee not in helpers:
                c = []
                for caller in (e.site[0] if e.site else None, ctx.method("KeyKeeper", "loop_poll") + "::{closure#0}", None):
                    try:
                        c = cg.resolve(e.callee, caller)
                    except Exception:
                        c = []
                    if len(c) == 1:
                        break
                if len(c) == 1:
                    helpers[e.callee] = next(iter(c))
                elif re.search(r"(KeyKeeper|Self|key_keeper)::", e.callee):
                    helpers[e.callee] = None        # a function of the key keeper the analysis cannot look into
    rep.add(Query("key step: no file is removed, renamed, re-created or re-permissioned outside the store step's atomic write (%d paths)" % len(paths), "holds" if not direct else "violated",
                  "file-system calls in the step: %s" % sorted(direct), 0, "mirsym", key="C08.store-untouched", reproduced=None))
    for callee, path in sorted(helpers.items()):
        if path is None:
            rep.add(Query("key step: helper %s (new since the obligations were written) examined" % callee, "inconclusive", "its body could not be located", 0, "mirsym", key="C08.store-untouched"))
            continue
        try:
            ops = _standalone_fs_ops(ctx, path)
        except Exception as ex:
            rep.add(Query("key step: helper %s (new since the obligations were written) examined" % callee, "inconclusive", repr(ex)[:200], 0, "mirsym", key="C08.store-untouched"))
            continue
        rep.functions_encoded.append(path)
        rep.add(Query("key step: helper %s makes no file-system modification" % callee, "holds" if not ops else "violated", "the helper can call %s" % sorted(ops), 0, "mirsym", key="C08.store-untouched", reproduced=None))
    # inside the store helper
    w = ctx.method("KeyKeeper", "store_local_key")
    e2 = ctx.engine(loop_bound=1, max_paths=2000)
    e2.auto_inline = ctx.new_function_auto()
    n = 0
    for i, r in enumerate(e2.explore(w)):
        jw = [e for e in r.events if e.kind == "call" and e.callee.endswith("json_write_to_file")]
        if not jw:
            continue
        n += 1
        k = r.events.index(jw[0])
        before = sorted({e.callee.split("::")[-1] for e in r.events[:k] if e.kind == "call" and FS_MUT.search(e.callee)})
        after = sorted({e.callee.split("::")[-1] for e in r.events[k + 1:] if e.kind == "call" and FS_MUT.search(e.callee) and not e.callee.endswith("set_permissions")})
        rep.add(Query("store_local_key path %d: nothing touches the file system before the atomic write, and nothing but permissions after it" % i, "holds" if not before and not after else "violated",
                      "before: %s; after: %s" % (before, after), 0, "mirsym", key="C08.store-only-atomic", reproduced=None))
    rep.add(Query("witness: store_local_key reaches json_write_to_file", "witness-hit" if n else "witness-missed", "%d" % n, 0, "mirsym"))


def check(rep, tier, seed):
    ctx = Ctx("agent")
    rep.extra["mir_dump"] = {"cache_hit": ctx.dump.cache_hit, "tree_hash": ctx.dump.hash, "seconds": round(ctx.dump.seconds, 1)}
    check_key_section(rep, ctx)
    check_store_fetch_names(rep, ctx)
    check_key_store_untouched(rep, ctx)
    check_file_protocol(rep)
    rep.assumptions += ["rename(2) is atomic (POSIX)", "Future::poll returns Ready", "a crash is a prefix of a path's event trace: the obligations are orderings, so they hold for every prefix"]
    rep.outside_claim += ["durability against power loss (no fsync in the code)", "the Windows encrypted store", "host-side behaviour"]
    rep.trusted += ["mirsym", "z3"]
    import batteries
    batteries.confirm(rep, "C08")


def replay(path):
    print(open(path).read())
    return 0
