"""Produce (and cache by content hash) built-phase MIR dumps of the repo's crates with the nightly toolchain."""
import os, shutil, re, json
from common import *
import kani  # FixedScratch

CRATES = {
    # key: (cargo package, target args, source dirs that determine the hash, file to touch)
    "agent": ("azure-proxy-agent", ["--bin", "azure-proxy-agent"], ["proxy_agent", "proxy_agent_shared", "Cargo.toml", "Cargo.lock"],
              "proxy_agent/src/main.rs"),
    "shared": ("proxy_agent_shared", ["--lib"], ["proxy_agent_shared", "Cargo.toml", "Cargo.lock"], "proxy_agent_shared/src/lib.rs"),
    "ext": ("ProxyAgentExt", ["--bin", "ProxyAgentExt"], ["proxy_agent_extension", "proxy_agent_shared", "Cargo.toml", "Cargo.lock"],
            "proxy_agent_extension/src/main.rs"),
    "setup": ("proxy_agent_setup", ["--bin", "proxy_agent_setup"], ["proxy_agent_setup", "proxy_agent_shared", "Cargo.toml", "Cargo.lock"],
              "proxy_agent_setup/src/main.rs"),
}


class Dump:
    def __init__(self, dir, src, cache_hit, seconds, h):
        self.dir, self.src, self.cache_hit, self.seconds, self.hash = dir, src, cache_hit, seconds, h


def get_dump(crate):
    """-> Dump(dir with *.built.after.mir, dir with the source snapshot the dump was made from)."""
    pkg, targs, srcs, touch = CRATES[crate]
    h = tree_hash(srcs)
    root = os.path.join(CACHE, "mirdump")
    out = os.path.join(root, "%s-%s" % (crate, h))
    with Lock("mirdump-" + crate):
        if os.path.exists(os.path.join(out, "DONE")):
            os.utime(out, None)
            return Dump(os.path.join(out, "mir"), os.path.join(out, "src"), True, 0.0, h)
        # drop stale dumps of this crate (other hashes)
        if os.path.isdir(root):
            old = sorted([d for d in os.listdir(root) if d.startswith(crate + "-") and d != os.path.basename(out)],
                         key=lambda d: os.path.getmtime(os.path.join(root, d)))
            import time as _t
            for d in old[:-6]:      # keep the most recent other trees (mutant / restored tree alternate; concurrent runs on other copies)
                if _t.time() - os.path.getmtime(os.path.join(root, d)) > 1800:
                    shutil.rmtree(os.path.join(root, d), ignore_errors=True)
        shutil.rmtree(out, ignore_errors=True)
        os.makedirs(out)
        with kani.FixedScratch("mir") as fs:
            env = dict(ENV)
            env["CARGO_TARGET_DIR"] = fs.target
            env["CARGO_INCREMENTAL"] = "0"
            tp = os.path.join(fs.repo, touch)
            if os.path.exists(tp):
                os.utime(tp, None)
            cmd = ["cargo", "+nightly", "rustc", "--offline", "-p", pkg] + targs + ["--", "-Zdump-mir=all & built",
                                                                                  "-Zdump-mir-dir=" + os.path.join(out, "mir")]
            rc, o, e, secs = run(cmd, cwd=fs.repo, env=env, timeout=1800)
            if rc != 0 or not os.path.isdir(os.path.join(out, "mir")):
                shutil.rmtree(out, ignore_errors=True)
                raise RuntimeError("MIR dump failed for %s (rc=%s): %s" % (crate, rc, (o + e)[-1500:]))
            # keep only the built-phase files and a snapshot of the sources they were produced from
            for f in os.listdir(os.path.join(out, "mir")):
                if not f.endswith(".built.after.mir"):
                    os.remove(os.path.join(out, "mir", f))
            os.makedirs(os.path.join(out, "src"))
            for s in srcs:
                sp = os.path.join(fs.repo, s)
                if os.path.isdir(sp):
                    run(["rsync", "-a", "--exclude", "target", sp + "/", os.path.join(out, "src", s) + "/"])
                elif os.path.exists(sp):
                    shutil.copy(sp, os.path.join(out, "src", s))
            open(os.path.join(out, "DONE"), "w").write(json.dumps({"hash": h, "seconds": secs}))
            return Dump(os.path.join(out, "mir"), os.path.join(out, "src"), False, secs, h)
