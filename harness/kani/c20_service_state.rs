// C20 (engine K): ServiceState::update_service_state_entry, injected as a child module of
// proxy_agent_extension/src/service_main/service_state.rs. The scratch copy's
// `use std::collections::HashMap;` line is rewritten to the association-list model below
// (lib/p_c20.py does the rewrite and fails with exit 2 if the line is missing). The model offers the lookup/update API of
// std's HashMap except the Entry API and iteration (a refactoring onto those needs the model extended: exit 2, never an alarm).
use super::*;

pub struct HashMap<K, V> {
    items: Vec<(K, V)>,
}
impl<K, V> Default for HashMap<K, V> {
    fn default() -> Self {
        HashMap { items: Vec::new() }
    }
}
impl<K: Clone, V: Clone> Clone for HashMap<K, V> {
    fn clone(&self) -> Self {
        HashMap { items: self.items.clone() }
    }
}
impl<V> HashMap<String, V> {
    pub fn get_mut(&mut self, k: &str) -> Option<&mut V> {
        let mut i = 0;
        while i < self.items.len() {
            if self.items[i].0 == k {
                return Some(&mut self.items[i].1);
            }
            i += 1;
        }
        None
    }
    pub fn get(&self, k: &str) -> Option<&V> {
        let mut i = 0;
        while i < self.items.len() {
            if self.items[i].0 == k {
                return Some(&self.items[i].1);
            }
            i += 1;
        }
        None
    }
    pub fn contains_key(&self, k: &str) -> bool {
        self.get(k).is_some()
    }
    pub fn remove(&mut self, k: &str) -> Option<V> {
        let mut i = 0;
        while i < self.items.len() {
            if self.items[i].0 == k {
                return Some(self.items.remove(i).1);
            }
            i += 1;
        }
        None
    }
    pub fn len(&self) -> usize {
        self.items.len()
    }
    pub fn is_empty(&self) -> bool {
        self.items.is_empty()
    }
    pub fn clear(&mut self) {
        self.items.clear()
    }
    pub fn insert(&mut self, k: String, v: V) -> Option<V> {
        let mut i = 0;
        while i < self.items.len() {
            if self.items[i].0 == k {
                return Some(core::mem::replace(&mut self.items[i].1, v));
            }
            i += 1;
        }
        self.items.push((k, v));
        None
    }
}

// One notification from ANY single-entry pre-state (value in {a,b}, count and max_count any u32), and from the
// empty map: the return value and the post-state follow the reference transition
//     (v, c) --notify(v', m)--> if v != v' || c >= m { (v', 1), true } else { (v', c + 1), false }
// By induction over this transition every notification history is covered; the rate-limit consequence of the
// reference transition is checked on integers in c20_service_state_reference_rate_limit.
fn read_entry(st: &ServiceState, key: &str) -> Option<(bool, u32)> {
    let mut i = 0;
    while i < st.state_map.items.len() {
        if st.state_map.items[i].0 == key {
            let e = &st.state_map.items[i].1;
            return Some((e.0 == "a", e.1));
        }
        i += 1;
    }
    None
}

// The three shapes of a single notification (strings concrete, count and max_count any u32):
#[kani::proof]
#[kani::unwind(6)]
fn c20_service_state_step_first_sight() {
    let mut st = ServiceState::default();
    let m: u32 = kani::any();
    let r = st.update_service_state_entry("k", "a", m);
    assert!(r, "emitted on first sight");
    assert!(read_entry(&st, "k") == Some((true, 1)));
    kani::cover!(m == 0);
}

#[kani::proof]
#[kani::unwind(6)]
fn c20_service_state_step_same_value() {
    let c0: u32 = kani::any();
    let m: u32 = kani::any();
    let mut st = ServiceState::default();
    st.state_map.insert("k".to_string(), ("a".to_string(), c0));
    let r = st.update_service_state_entry("k", "a", m);
    let post = read_entry(&st, "k");
    if c0 >= m {
        assert!(r, "emitted when the count reached max_count");
        assert!(post == Some((true, 1)));
    } else {
        assert!(!r, "swallowed while the count is below max_count");
        assert!(post == Some((true, c0 + 1)));
    }
    assert!(st.state_map.items.len() == 1);
    kani::cover!(c0 == 119 && m == 120 && !r);
    kani::cover!(c0 == 120 && m == 120 && r);
}

#[kani::proof]
#[kani::unwind(6)]
fn c20_service_state_step_changed_value() {
    let c0: u32 = kani::any();
    let m: u32 = kani::any();
    let mut st = ServiceState::default();
    st.state_map.insert("k".to_string(), ("a".to_string(), c0));
    let r = st.update_service_state_entry("k", "b", m);
    assert!(r, "emitted on change");
    assert!(read_entry(&st, "k") == Some((false, 1)));
    assert!(st.state_map.items.len() == 1);
    kani::cover!(c0 == 5 && m == 120);
}

// Consequence of the reference transition, on integers only, for the production max_count = 120 and for every
// max_count in 1..=130: over 300 identical notifications the emissions are exactly the calls number 1, 1+m, 1+2m, ...
#[kani::proof]
#[kani::unwind(302)]
fn c20_service_state_reference_rate_limit() {
    let m: u32 = kani::any();
    kani::assume(m >= 1 && m <= 130);
    let mut c: u32 = 0; // 0 = no entry yet
    let mut i: u32 = 0;
    while i < 300 {
        let emit = c == 0 || c >= m;
        c = if emit { 1 } else { c + 1 };
        assert!(emit == (i % m == 0), "at most one emission per max_count identical notifications");
        i += 1;
    }
    kani::cover!(m == 120);
}

// two keys do not interfere
#[kani::proof]
#[kani::unwind(6)]
fn c20_service_state_keys_independent() {
    let mut st = ServiceState::default();
    st.state_map.insert("k1".to_string(), ("a".to_string(), 1));
    let m: u32 = kani::any();
    assert!(st.update_service_state_entry("k2", "a", m), "a new key is emitted whatever other keys hold");
    assert!(read_entry(&st, "k1") == Some((true, 1)), "the other key's entry is untouched");
    kani::cover!(m == 120);
}

// vacuity twin: must come back FAILED
#[kani::proof]
#[kani::unwind(6)]
fn c20_twin_must_fail_service_state() {
    let mut st = ServiceState::default();
    let _ = st.update_service_state_entry("k", "a", 2);
    assert!(st.update_service_state_entry("k", "a", 2));
}
