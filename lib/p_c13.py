"""C13 no input can crash a request handler or a background task -- enumerated panic sites (engine M). DESIGN.md 4/C13.
For each site the function is executed symbolically with the panic-capable std operations modelled (string slicing and
String::truncate panic unless the offset is a char boundary within the length; unwrap panics on Err/None; slice indexing
panics out of bounds; checked arithmetic panics on overflow). A feasible panic path (z3) is a counterexample; it is replayed
natively with a concrete witness of the model's class (N-1 ASCII bytes followed by a 2-byte character, an obs-text header
byte, an odd-length UTF-16 body)."""
from mcommon import *
import replay as replay_mod, e2e

def WITS(n):
    """texts longer than n in which byte n lies inside a 2-, 3- or 4-byte character at every interior offset"""
    out = []
    for ch, k in (("\\u{e9}", 2), ("\\u{20ac}", 3), ("\\u{1f600}", 4)):
        for j in range(1, k):
            out.append('"a".repeat(%d) + "%s" + &"b".repeat(16)' % (n - j, ch))
    # and texts that are longer than n BYTES but have fewer than n CHARACTERS (a cut computed in characters must not be used as a byte offset)
    for ch, k in (("\\u{e9}", 2), ("\\u{20ac}", 3), ("\\u{1f600}", 4)):
        for pre in range(0, k):
            if (n - pre) % k != 0:
                out.append('"a".repeat(%d) + &"%s".repeat(%d)' % (pre, ch, n // k + 4))
    return "vec![%s]" % ", ".join(out)

TEST_EVENT = '''
#[cfg(test)]
mod verif_replay_c13_event {
    #[test]
    fn c13_write_event_long_multibyte_message() {
        let witnesses: Vec<String> = %s;
        for message in witnesses {
            let m = message.clone();
            let r = std::panic::catch_unwind(move || super::write_event(crate::logger::LoggerLevel::Info, m, "verif", "verif", "verif_replay"));
            assert!(r.is_ok(), "write_event panicked on a {}-byte message with a multi-byte character across the cut", message.len());
        }
    }
}
''' % WITS(4096)

TEST_STATUS = '''
#[cfg(test)]
mod verif_replay_c13_status {
    use super::*;
    #[tokio::test(flavor = "current_thread")]
    async fn c13_get_module_status_long_multibyte_message() {
        let witnesses: Vec<String> = %s;
        for message in witnesses {
            let st = AgentStatusSharedState::start_new();
            let n = message.len();
            st.set_module_status_message(message, AgentStatusModule::KeyKeeper).await.unwrap();
            let h = tokio::spawn(async move { let _ = st.get_module_status(AgentStatusModule::KeyKeeper).await; }).await;
            assert!(h.is_ok(), "get_module_status panicked on a {}-byte status message with a multi-byte character across the cut", n);
        }
    }
}
''' % WITS(1024)

TEST_HEADERS = '''
#[cfg(test)]
mod verif_replay_c13_headers {
    #[test]
    fn c13_canonical_headers_with_obs_text_value() {
        let mut headers = hyper::HeaderMap::new();
        headers.insert("x-verif", hyper::header::HeaderValue::from_bytes(&[0x63, 0x61, 0x66, 0xe9]).unwrap()); // "caf\\xe9": legal obs-text
        let _ = super::headers_to_canonicalized_string(&headers);
    }
    #[tokio::test(flavor = "multi_thread", worker_threads = 2)]
    async fn c13_odd_length_utf16_body() {
        use std::io::{Read, Write};
        let l = std::net::TcpListener::bind("127.0.0.1:0").unwrap();
        let port = l.local_addr().unwrap().port();
        std::thread::spawn(move || {
            if let Ok((mut s, _)) = l.accept() {
                let mut b = [0u8; 4096];
                let _ = s.read(&mut b);
                let _ = s.write_all(b"HTTP/1.1 200 OK\\r\\ncontent-type: application/json; charset=utf-16\\r\\ncontent-length: 3\\r\\n\\r\\n{}\\n");
                std::thread::sleep(std::time::Duration::from_millis(300));
            }
        });
        let url: hyper::Uri = format!("http://127.0.0.1:{}/x", port).parse().unwrap();
        let r = tokio::spawn(async move { super::get::<serde_json::Value, _>(&url, &std::collections::HashMap::new(), None, None, |_| {}).await.is_ok() }).await;
        assert!(r.is_ok(), "the response reader panicked on an odd-length UTF-16 body");
    }
    #[tokio::test(flavor = "multi_thread", worker_threads = 2)]
    async fn c13_one_byte_utf16_body() {
        use std::io::{Read, Write};
        let l = std::net::TcpListener::bind("127.0.0.1:0").unwrap();
        let port = l.local_addr().unwrap().port();
        std::thread::spawn(move || {
            if let Ok((mut s, _)) = l.accept() {
                let mut b = [0u8; 4096];
                let _ = s.read(&mut b);
                let _ = s.write_all(b"HTTP/1.1 200 OK\\r\\ncontent-type: application/json; charset=utf-16\\r\\ncontent-length: 1\\r\\n\\r\\n{");
                std::thread::sleep(std::time::Duration::from_millis(300));
            }
        });
        let url: hyper::Uri = format!("http://127.0.0.1:{}/x", port).parse().unwrap();
        let r = tokio::spawn(async move { super::get::<serde_json::Value, _>(&url, &std::collections::HashMap::new(), None, None, |_| {}).await.is_ok() }).await;
        assert!(r.is_ok(), "the response reader panicked on a one-byte UTF-16 body frame");
    }
    #[test]
    fn c13_canonical_parameters_of_any_query_text() {
        // query names and values with every kind of percent sequence (complete, cut short at the end, doubled), empty pieces, multi-byte text
        for q in ["a=1", "tag%2=1", "tag%=1", "%=1", "%2", "%", "a%2", "a=%", "a=%2", "%zz=%zz", "a%20b=c%2", "=&&=&a", "n%c3%a9=v", "\\u{e9}=\\u{20ac}", "a=1&a=2&A=3", "x%2%2=%%"] {
            let uri: hyper::Uri = match format!("/machine?{}", q).parse() { Ok(u) => u, Err(_) => continue };
            let r = std::panic::catch_unwind(|| super::get_path_and_canonicalized_parameters(&uri));
            assert!(r.is_ok(), "get_path_and_canonicalized_parameters panicked on the query {:?}", q);
        }
    }
    #[test]
    fn c13_canonical_headers_with_blank_and_empty_values() {
        // every value a client can send: empty, only blanks / tabs, padded on either side, one character
        for v in ["", " ", "\\t", " \\t \\t ", " a", "a ", " a b ", "a"] {
            let mut headers = hyper::HeaderMap::new();
            headers.insert("x-verif", hyper::header::HeaderValue::from_str(v).unwrap());
            headers.append("x-verif-2", hyper::header::HeaderValue::from_str(v).unwrap());
            let r = std::panic::catch_unwind(|| super::headers_to_canonicalized_string(&headers));
            assert!(r.is_ok(), "headers_to_canonicalized_string panicked on the header value {:?}", v);
        }
    }
    #[tokio::test(flavor = "multi_thread", worker_threads = 2)]
    async fn c13_utf16_body_in_frames_of_any_length() {
        use std::io::{Read, Write};
        // a UTF-16LE JSON body delivered in two or three chunked frames, cut at odd and even offsets
        let body: Vec<u8> = r#"{"a":"bcdefghij"}"#.encode_utf16().flat_map(|u| u.to_le_bytes()).collect();
        for cuts in [vec![3usize], vec![1], vec![5], vec![17], vec![18], vec![8], vec![3, 6], vec![1, 2], vec![2, 9], vec![7, 8]] {
            let listener = std::net::TcpListener::bind("127.0.0.1:0").unwrap();
            let port = listener.local_addr().unwrap().port();
            let body = body.clone();
            let cuts2 = cuts.clone();
            let server = std::thread::spawn(move || {
                let (mut stream, _) = listener.accept().unwrap();
                let mut buf = [0u8; 4096];
                let _ = stream.read(&mut buf);
                stream.write_all(b"HTTP/1.1 200 OK\\r\\nContent-Type: application/json; charset=utf-16\\r\\nTransfer-Encoding: chunked\\r\\n\\r\\n").unwrap();
                let mut bounds = vec![0usize];
                bounds.extend(cuts2.iter().cloned());
                bounds.push(body.len());
                for w in bounds.windows(2) {
                    let part = &body[w[0]..w[1]];
                    if part.is_empty() { continue; }
                    stream.write_all(format!("{:x}\\r\\n", part.len()).as_bytes()).unwrap();
                    stream.write_all(part).unwrap();
                    stream.write_all(b"\\r\\n").unwrap();
                    stream.flush().unwrap();
                    std::thread::sleep(std::time::Duration::from_millis(50));
                }
                stream.write_all(b"0\\r\\n\\r\\n").unwrap();
            });
            let url: hyper::Uri = format!("http://127.0.0.1:{}/x", port).parse().unwrap();
            let r = tokio::spawn(async move { super::get::<serde_json::Value, _>(&url, &std::collections::HashMap::new(), None, None, |_| {}).await.is_ok() }).await;
            let _ = server.join();
            assert!(r.is_ok(), "the response reader panicked on a UTF-16 body delivered in frames cut at {:?}", cuts);
        }
    }
}
'''


def explore_site(rep, ctx, name, path, loop_bound=2, setup=None, crate="agent"):
    eng = ctx.engine(loop_bound=loop_bound, max_paths=20000)
    paths = eng.explore(path, setup=setup)
    rep.functions_encoded.append(("proxy_agent_shared::" if crate == "shared" else "") + path)
    pan = [r for r in paths if r.status == "panic"]
    # a helper introduced at a site (its own loops, indexing, arithmetic) is part of the site: functions that did not exist when the
    # sites were enumerated and that the exploration left uninterpreted are explored on their own, arguments unconstrained (a panic path
    # found there counts only if the native witnesses reproduce it)
    import callgraph
    cg = callgraph.CallGraph(ctx.idx)
    cg.set_src(ctx.src)
    bf = os.path.join(os.path.dirname(os.path.abspath(__file__)), "baseline_fn_names.txt")
    baseline = set(open(bf).read().split()) if os.path.exists(bf) else set()
    for callee in sorted(eng.uninterpreted):
        if callgraph.last_seg(callee) in baseline:
            continue
        try:
            c = cg.resolve(callee, path)
        except Exception:
            c = []
        if len(c) != 1:
            continue
        hp = next(iter(c))
        try:
            e2 = ctx.engine(loop_bound=loop_bound, max_paths=5000, timeout=120)
            hps = e2.explore(hp)
        except Inconclusive:
            continue
        rep.functions_encoded.append(hp + " [helper new at this site, stand-alone]")
        paths = paths + hps
        pan = pan + [r for r in hps if r.status == "panic"]
    return paths, pan


def site_result(rep, key, name, paths, panics, native, path_file, detail_extra=""):
    """native: None (no panic path -> holds), or test status 'FAILED' / 'ok' / None(not run)"""
    qn = "%s: no feasible panic path (%d paths explored)" % (name, len(paths))
    if not panics:
        rep.add(Query(qn, "holds", "", 0, "mirsym+z3", key=key))
        return
    kinds = sorted({p.note for p in panics})
    r0 = panics[0]
    rs, model, dt, zm = check_sat(r0.pc)
    st = native
    if st == "FAILED":
        rep.traces_validated += 1
    rep.add(Query(qn, "violated" if st in ("FAILED", "ok") else "inconclusive", "%d feasible panic paths: %s; path condition model %s; native replay: %s %s" % (len(panics), kinds, str(model)[:200], st, detail_extra),
                  dt, "mirsym+z3", key=key, model=model, replay=path_file, reproduced=True if st == "FAILED" else (False if st == "ok" else None)))


def check(rep, tier, seed):
    ctx = Ctx("agent")
    sctx = Ctx("shared")
    rep.extra["mir_dump"] = {"cache_hit": ctx.dump.cache_hit, "tree_hash": ctx.dump.hash, "seconds": round(ctx.dump.seconds, 1)}
    results = {}
    # 1. event_logger::write_event (shared crate)
    c = [p for p in sctx.idx.files if p.endswith("event_logger::write_event")]
    if len(c) == 1:
        results["event"] = explore_site(rep, sctx, "write_event", c[0], crate="shared")
    # 2. log_connection_summary
    results["summary"] = explore_site(rep, ctx, "log_connection_summary", ctx.method("ProxyServer", "log_connection_summary") + "::{closure#0}")
    # 3. get_module_status
    results["status"] = explore_site(rep, ctx, "get_module_status", ctx.method("AgentStatusSharedState", "get_module_status") + "::{closure#0}")
    # 4. headers_to_canonicalized_string
    results["headers"] = explore_site(rep, ctx, "headers_to_canonicalized_string", ctx.one("hyper_client::headers_to_canonicalized_string"))
    # 5. utf-16 decoding closure of read_response_body: its argument is a piece produced by chunks(n) / chunks_exact(n)
    rb = ctx.one("hyper_client::read_response_body") + "::{closure#0}"
    eng = ctx.engine(loop_bound=1, max_paths=20000)
    producer = None
    piece_closure = None      # the closure that decodes one piece: wherever the code lives (the loop body or a helper it calls)
    for r in eng.explore(rb):
        for e in r.events:
            if e.kind == "call" and re.search(r"slice::<impl \[u8\]>::(chunks|chunks_exact)$|\[u8\]>::(chunks|chunks_exact)$|::(chunks|chunks_exact)$", e.callee):
                n_ = e.rargs[1]
                producer = (e.callee.split("::")[-1], z3.simplify(n_.e).as_long() if isinstance(n_, Scalar) and z3.is_bv_value(z3.simplify(n_.e)) else None)
                for m_ in r.events:
                    if m_.kind == "call" and re.search(r"Iterator>::map$|::map$", m_.callee) and len(m_.rargs) == 2 and same_origin(m_.rargs[0], e.ret):
                        cl = m_.rargs[1]
                        if isinstance(cl, Agg) and cl.kind == "closure" and cl.body_path:
                            piece_closure = cl.body_path
    rep.functions_encoded.append(rb)
    eng_b = ctx.engine(loop_bound=1, max_paths=20000)
    eng_b.auto_inline = ctx.new_function_auto()
    body_paths = eng_b.explore(rb)
    results["utf16body"] = (body_paths, [r for r in body_paths if r.status == "panic" and "unwrap" not in r.note])
    clo = [piece_closure] if piece_closure else [p for p in ctx.idx.files if p.startswith(rb + "::{closure")]
    if producer and producer[1] and clo:
        kind, n_ = producer

        def setup(engine, a):
            ln = engine.len_of(a[1])
            # std: chunks(n) yields pieces of length n except possibly a shorter, non-empty last one; chunks_exact(n) only length n
            engine.assume(z3.And(z3.UGE(ln, 1), z3.ULE(ln, n_)) if kind == "chunks" else ln == n_)
        results["utf16"] = explore_site(rep, ctx, "utf-16 piece decoder", clo[0], setup=setup)
        rep.stubs.append("slice::%s(%d): pieces have length %s (std documentation)" % (kind, n_, "1..=%d" % n_ if kind == "chunks" else "== %d" % n_))
    else:
        rep.add(Query("utf-16 decoder: piece producer recognised", "inconclusive", str(producer), 0, "mirsym", key="C13.utf16"))

    # 6. the key-keeper loop's time arithmetic: every slice of loop_poll that starts at a reading of the clock (Instant::elapsed, any value)
    #    and runs to the next sleep: an arithmetic-overflow assert must not be reachable (debug build: panic of the task; release build:
    #    the wrapped value becomes the sleep length, the task never polls again)
    lp = ctx.method("KeyKeeper", "loop_poll") + "::{closure#0}"
    eng6 = ctx.engine(loop_bound=1, max_paths=6000, timeout=300)
    tpaths, tpan = [], []
    for sb in eng6.find_blocks(lp, r"Instant::elapsed$"):
        ps = eng6.explore(lp, start_bb=sb, stop_calls=r"tokio::time::sleep$|(^|::)sleep$|Instant::now$|get_status$|provision_timeup$|start_event_threads$")
        tpaths += ps
        tpan += [r for r in ps if r.status == "panic" and re.search(r"overflow|subtract|attempt to", r.note or "")]
    rep.functions_encoded.append(lp + " [slices from every Instant::elapsed() to the next sleep]")
    results["looptime"] = (tpaths, tpan)

    # 7. the canonical string of the signing path is computed from client-chosen text (URL, header names and values)
    results["canon"] = explore_site(rep, ctx, "get_path_and_canonicalized_parameters", ctx.one("hyper_client::get_path_and_canonicalized_parameters"), loop_bound=1)
    # 8. the key step of the key-keeper loop handles host-chosen documents: no unwrap / expect on a value the host controls
    import p_c08
    eng8, kpaths = p_c08.key_section(ctx, rep)
    kpan = [r for r in kpaths if r.status == "panic" and re.search(r"unwrap|expect|index|slice|overflow", (r.note or "") + " ".join(str(e.callee) for e in r.events if e.kind == "panic"))]
    results["keystep"] = (kpaths, kpan)

    # ---- native replays (only for sites with feasible panic paths) ----
    need = {k for k, (ps, pan) in results.items() if pan}
    native = {}
    files = {}
    if "event" in need:
        res, out = replay_mod.run_rust_tests("proxy_agent_shared", [("proxy_agent_shared/src/telemetry/event_logger.rs", TEST_EVENT)], "verif_replay_c13_event")
        native["event"] = (res or {}).get("c13_write_event_long_multibyte_message")
        files["event"] = save_replay("C13", "write_event.rs", "// append to proxy_agent_shared/src/telemetry/event_logger.rs\n" + TEST_EVENT)
    inj = []
    if "status" in need:
        inj.append(("proxy_agent/src/shared_state/agent_status_wrapper.rs", TEST_STATUS))
    if "headers" in need or "utf16" in need or "utf16body" in need or "canon" in need:
        inj.append(("proxy_agent/src/common/hyper_client.rs", TEST_HEADERS))
    if inj:
        res, out = replay_mod.run_rust_tests("azure-proxy-agent", inj, "verif_replay_c13", no_args=True)
        res = res or {}
        native["status"] = res.get("c13_get_module_status_long_multibyte_message")
        hs = (res.get("c13_canonical_headers_with_obs_text_value"), res.get("c13_canonical_headers_with_blank_and_empty_values"))
        native["headers"] = "FAILED" if "FAILED" in hs else hs[0]
        native["canon"] = res.get("c13_canonical_parameters_of_any_query_text")
        native["utf16"] = res.get("c13_odd_length_utf16_body")
        us = (res.get("c13_odd_length_utf16_body"), res.get("c13_one_byte_utf16_body"), res.get("c13_utf16_body_in_frames_of_any_length"))
        native["utf16body"] = "FAILED" if "FAILED" in us else res.get("c13_one_byte_utf16_body")
        files["status"] = save_replay("C13", "get_module_status.rs", "// append to proxy_agent/src/shared_state/agent_status_wrapper.rs\n" + TEST_STATUS)
        files["canon"] = files["headers"] = files["utf16"] = files["utf16body"] = save_replay("C13", "hyper_client.rs", "// append to proxy_agent/src/common/hyper_client.rs\n" + TEST_HEADERS)
    if "keystep" in need:
        import batteries
        r8, out8 = replay_mod.run_rust_tests("azure-proxy-agent", [("proxy_agent/src/key_keeper.rs", batteries.C13_KEYSTEP)], "verif_battery_c13_keystep", no_args=True, timeout=2400)
        native["keystep"] = (r8 or {}).get("c13_key_keeper_task_survives_every_status_sequence")
        files["keystep"] = save_replay("C13", "key_step_status_sequences.rs", "// append to proxy_agent/src/key_keeper.rs; run the whole azure-proxy-agent test binary\n" + batteries.C13_KEYSTEP)
    if "looptime" in need:
        import batteries
        pkg, inj6, flt, no_args = batteries.BATTERIES["C13"][0][:4]
        r6, out6 = replay_mod.run_rust_tests(pkg, inj6, flt, no_args=no_args, timeout=2400)
        native["looptime"] = (r6 or {}).get("c13_notifications_at_any_time_do_not_stop_the_key_keeper")
        files["looptime"] = save_replay("C13", "loop_poll_notify_timing.rs", "// append to proxy_agent/src/key_keeper.rs; cargo test -p azure-proxy-agent (whole binary), look for c13_notifications\n" + batteries.C13_NOTIFY)
    if "summary" in need:
        # an enforced denial of a caller whose command line is long multi-byte text: error details exceed 4096 bytes
        T = []
        for k, pre in enumerate(("", "a")):
            sc = e2e.scenario_rs(dest=("169.254.169.254", 80), elevated=False, rules=("enforce", "deny")).replace('processCmdLine: "verif".to_string()', "")
            T.append(e2e.test_rs("c13_denial_with_long_multibyte_cmdline_%d" % k, sc, "o.status == 403", "the handler must answer 403 (it panicked / dropped the connection if status is 0)"))
        code = "".join(T)
        harness = e2e.HARNESS.replace('processCmdLine: "verif".to_string()', 'processCmdLine: std::env::var("VERIF_CMDLINE_PREFIX").unwrap_or_default() + &"\\u{e9}".repeat(4000)')
        full = harness % {"tests": code}
        os.environ["VERIF_CMDLINE_PREFIX"] = ""
        r1, out1 = replay_mod.run_rust_tests("azure-proxy-agent", [("proxy_agent/src/proxy/proxy_connection.rs", e2e.CTX_HOOK), ("proxy_agent/src/proxy/proxy_server.rs", full)], "verif_e2e", timeout=2400, no_args=True)
        ENV["VERIF_CMDLINE_PREFIX"] = "a"
        r2, out2 = replay_mod.run_rust_tests("azure-proxy-agent", [("proxy_agent/src/proxy/proxy_connection.rs", e2e.CTX_HOOK), ("proxy_agent/src/proxy/proxy_server.rs", full)], "verif_e2e", timeout=2400, no_args=True)
        ENV.pop("VERIF_CMDLINE_PREFIX", None)
        sts = [(r1 or {}).get("c13_denial_with_long_multibyte_cmdline_0"), (r2 or {}).get("c13_denial_with_long_multibyte_cmdline_0")]
        native["summary"] = "FAILED" if "FAILED" in sts else ("ok" if all(s == "ok" for s in sts) else None)
        files["summary"] = save_replay("C13", "log_connection_summary_e2e.rs", "// e2e: caller command line = VERIF_CMDLINE_PREFIX + 4000 x U+00E9; run with prefix \"\" and \"a\" (one of them puts byte 4096 inside a character)\n" + full)
    names = {"event": "event_logger::write_event (message[..4096])", "summary": "log_connection_summary (error_details.truncate(4096))", "status": "get_module_status (&message[0..1024])",
             "headers": "headers_to_canonicalized_string (value.to_str().unwrap())", "utf16": "read_response_body utf-16 decoder (chunk[1])", "utf16body": "read_response_body frame loop (indexing / slicing of a body frame)",
             "canon": "get_path_and_canonicalized_parameters (query text chosen by the client, on the signing path)", "keystep": "KeyKeeper::loop_poll key step (unwrap / index on host-controlled documents)",
             "looptime": "KeyKeeper::loop_poll time arithmetic between a clock reading and the next sleep (elapsed time is any value)"}
    for k, (ps, pan) in results.items():
        site_result(rep, "C13." + k, names[k], ps, pan, native.get(k), files.get(k))
    rep.bounds["sites"] = "five enumerated mechanisms of the property's anchors plus the time arithmetic of the key-keeper loop; loops bounded at 2 iterations"
    rep.assumptions += ["text is valid UTF-8 (Rust String invariant); an offset inside a string is a char boundary or not, independently of other offsets (uninterpreted predicate, 0 and len are boundaries)",
                        "http::HeaderValue::to_str is Err iff some byte is not visible ASCII (documented)"]
    rep.outside_claim += ["every other unwrap/index in the tree, panics inside dependencies, liveness of the listener after a task panic"]
    rep.trusted += ["mirsym", "z3"]


def replay(path):
    print(open(path).read())
    return 0
