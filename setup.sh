#!/bin/bash
# MANIFEST.setup_cmd: verify the pre-installed tools and warm the dependency caches (offline).
set -u
export CARGO_NET_OFFLINE=true GOPROXY=off PIP_NO_INDEX=1
fail=0
for t in cbmc cargo rsync gcc python3-vt z3 cvc5; do command -v $t >/dev/null || { echo "missing tool: $t"; fail=1; }; done
cargo kani --version || fail=1
python3-vt -c "import z3; print('z3py', z3.get_version_string())" || fail=1
mkdir -p /var/tmp/gpa-verif-cache
exit $fail
