/* verification shim for <bpf/bpf_helpers.h>; helper semantics are in model.c */
#ifndef VERIF_SHIM_BPF_HELPERS_H
#define VERIF_SHIM_BPF_HELPERS_H
#define SEC(name)
#define __always_inline inline
#define __uint(name, val) int (*name)[val]
#define __type(name, val) val *name
#ifndef BPF_ANY
#define BPF_ANY 0
#define BPF_NOEXIST 1
#define BPF_EXIST 2
#endif
#ifndef NULL
#define NULL ((void *)0)
#endif
void *bpf_map_lookup_elem(void *map, const void *key);
long bpf_map_update_elem(void *map, const void *key, const void *value, __u64 flags);
long bpf_map_delete_elem(void *map, const void *key);
__u64 bpf_get_current_pid_tgid(void);
__u64 bpf_get_current_uid_gid(void);
__u64 bpf_get_socket_cookie(void *ctx);
long bpf_probe_read(void *dst, __u32 size, const void *unsafe_ptr);
#define bpf_printk(fmt, ...) ((void)0)
#endif
