"""C19, the naming half: retention counts and deletes what a LISTING returns, in the listing's (name) order. That bounds the
directory only if (membership) every name the writer generates is returned by the lister and (order) names sort by creation time.
The generated-name terms, the lister's accept predicate, the search pattern and the timestamp format are all read from the code
(mirsym traces); membership and prefix-equality are string queries (cvc5), the order lemma is a byte-level z3 bit-vector query."""
from mcommon import *
from p_c08 import derives, implied
import smtstr, strterm

TS_FN = re.compile(r"get_date_time_string_with_milliseconds$")
NANO_FN = re.compile(r"get_date_time_unix_nano$")
IDENT = re.compile(r"(as_str|as_ref|deref|borrow|to_string|to_owned|clone|into|from|as_bytes|as_path|as_os_str|to_path_buf|to_str|to_string_lossy|into_string|unwrap|unwrap_or)$")


class Unknown(Exception):
    pass


class Names:
    """structured string terms: ("lit", s) ("var", name, shared) ("cat", [..]) ("repl", t, a, b) ("lower", t) ("upper", t) ("setext", t, ext)"""

    def __init__(self, events, me=None, args=None, leaf=None):
        self.events, self.me, self.args, self.leaf = events, me, args or [], leaf

    def ev_of(self, sym):
        for e in self.events:
            if e.ret is sym:
                return e
        return None

    def lit_of(self, v):
        if isinstance(v, StrV):
            return v.e.as_string()
        if isinstance(v, ConstV):
            m = re.match(r"^'(.)'$", v.text or "")
            if m:
                return m.group(1)
        return None

    def term(self, v, depth=0):
        if depth > 40:
            raise Unknown("term too deep")
        if isinstance(v, Ref) and v.frame is None:
            v = v.val.v if isinstance(v.val, Cell) else v.val
        s = self.lit_of(v)
        if s is not None:
            return ("lit", s)
        if isinstance(v, Agg) and v.name == "fmt::Formatted":
            return self.term(v.fields[0], depth + 1)
        if isinstance(v, Agg) and v.name == "fmt::Arguments":
            tmpl = v.fields[0]
            tb = strterm.unescape_bytes_const(tmpl.text) if isinstance(tmpl, ConstV) else None
            if tb is None:
                raise Unknown("format template is not a constant")
            try:
                parts = strterm.parse_fmt_template(tb)
            except Inconclusive as e:
                raise Unknown(str(e))
            args = []
            if len(v.fields) > 1 and isinstance(v.fields[1], Agg):
                args = [a.fields[0] if isinstance(a, Agg) and a.name == "fmt::Argument" else a for a in v.fields[1].fields]
            out, k = [], 0
            for p in parts:
                if p[0] == "lit":
                    out.append(("lit", p[1]))
                else:
                    if k >= len(args):
                        raise Unknown("more placeholders than arguments")
                    out.append(self.term(args[k], depth + 1)); k += 1
            return ("cat", out)
        if isinstance(v, Agg) and v.variant == "Some" and v.fields:
            return self.term(v.fields[0], depth + 1)
        if self.leaf is not None:
            t = self.leaf(v)
            if t is not None:
                return t
        o = v
        if isinstance(o, Sym) and isinstance(o.tag, tuple):
            if o.tag[0] == "conv":
                return self.term(o.tag[2], depth + 1)
            if o.tag[0] == "ret":
                e = self.ev_of(o)
                nm = o.tag[1]
                if TS_FN.search(nm):
                    return ("var", "T", False)
                if NANO_FN.search(nm):
                    return ("var", "U", False)
                if e is not None and e.rargs:
                    if re.search(r"str::replace$|String::replace$", nm) and len(e.rargs) == 3:
                        a, b = self.lit_of(origin(e.rargs[1])), self.lit_of(origin(e.rargs[2]))
                        if a is None or b is None:
                            raise Unknown("replace with non-constant arguments")
                        return ("repl", self.term(e.rargs[0], depth + 1), a, b)
                    if strterm.LOWER.search(nm):
                        return ("lower", self.term(e.rargs[0], depth + 1))
                    if re.search(r"(to_uppercase|to_ascii_uppercase)$", nm):
                        return ("upper", self.term(e.rargs[0], depth + 1))
                    if IDENT.search(nm):
                        return self.term(e.rargs[0], depth + 1)
                return ("var", "unk%d" % o.id, False)
            if o.tag[0] == "part":
                if o.tag[2] == "*" or (isinstance(o.tag[2], tuple) and o.tag[2][0] == "v"):
                    return self.term(o.tag[1], depth + 1)
                return ("var", "part%d" % o.id, True)
            if o.tag[0] == "arg":
                return ("var", "arg%s" % o.tag[1], True)
        # anything else (an enum value, a computed number, ...): a component the analysis knows nothing about, free in every generation
        return ("var", "unk_x%d" % (abs(hash(repr(v))) % 100000), False)


def part_key(o):
    """field path of a `part` Sym relative to its root argument, e.g. arg1.*.f1"""
    ks = []
    cur = o
    while isinstance(cur, Sym) and isinstance(cur.tag, tuple) and cur.tag[0] == "part":
        k = cur.tag[2]
        ks.append("".join(str(x) for x in k) if isinstance(k, tuple) else str(k))
        cur = cur.tag[1]
    root = "arg%s" % cur.tag[1] if isinstance(cur, Sym) and isinstance(cur.tag, tuple) and cur.tag[0] == "arg" else "x%d" % getattr(cur, "id", 0)
    return root + "." + ".".join(reversed(ks))


def config_leaf(v):
    """self.<field> (through derefs) -> a variable shared by every call with the same settings"""
    o = origin(v)
    if isinstance(o, Sym) and isinstance(o.tag, tuple) and o.tag[0] == "part":
        k = part_key(o)
        if k.startswith("arg"):
            return ("var", "cfg_" + re.sub(r"\W+", "_", k.replace("*", "d")), True)
    return None


# ---- term utilities ---------------------------------------------------------------------------
def flatten(t, maps=()):
    """-> list of atoms (kind, payload, maps): per-character maps (replace one char, lower, upper) distribute over concatenation"""
    k = t[0]
    if k == "lit":
        s = t[1]
        for m in maps:
            s = apply_map(m, s)
        return [("lit", s, ())]
    if k == "var":
        return [("var", (t[1], t[2]), tuple(maps))]
    if k == "cat":
        out = []
        for x in t[1]:
            out += flatten(x, maps)
        return out
    if k == "repl":
        if len(t[2]) == 1 and len(t[3]) == 1:
            return flatten(t[1], (("repl", t[2], t[3]),) + tuple(maps))
        return [("opaque", t, tuple(maps))]
    if k in ("lower", "upper"):
        return flatten(t[1], ((k,),) + tuple(maps))
    if k == "setext":
        inner = flatten(t[1], maps)
        ext = flatten(t[2], maps)
        # Path::set_extension: what follows the last '.' of the file name is replaced
        if inner and inner[-1][0] == "lit" and "." in inner[-1][1]:
            head = inner[-1][1][:inner[-1][1].rindex(".") + 1]
            return inner[:-1] + [("lit", head, ())] + ext
        return [("opaque", t, tuple(maps))]
    return [("opaque", t, tuple(maps))]


def apply_map(m, s):
    if m[0] == "repl":
        return s.replace(m[1], m[2])
    if m[0] == "lower":
        return s.lower()
    if m[0] == "upper":
        return s.upper()
    return s


def smt_atom(a, gen):
    kind, payload, maps = a
    if kind == "lit":
        return smtstr.lit(payload), []
    if kind == "var":
        name, shared = payload
        v = name if shared else "%s_%d" % (name, gen)
        t = v
        for m in maps:
            if m[0] == "repl":
                t = "(str.replace_all %s %s %s)" % (t, smtstr.lit(m[1]), smtstr.lit(m[2]))
            elif m[0] == "lower":
                t = "(str.to_lower %s)" % t
            elif m[0] == "upper":
                t = "(str.to_upper %s)" % t
        return t, [v]
    raise Unknown("opaque name component %r" % (payload,))


def smt_name(atoms, gen):
    ts, vs = [], []
    for a in atoms:
        t, v = smt_atom(a, gen)
        ts.append(t); vs += v
    if not ts:
        return '""', vs
    return (ts[0] if len(ts) == 1 else "(str.++ %s)" % " ".join(ts)), vs


def show(atoms):
    out = []
    for kind, payload, maps in atoms:
        if kind == "lit":
            out.append(repr(payload))
        elif kind == "var":
            out.append("{%s%s}" % (payload[0], "".join("|" + m[0] for m in maps)))
        else:
            out.append("<?>")
    return " ++ ".join(out)


# ---- regex (the subset used for file-name patterns) -> SMT-LIB RegLan ---------------------------
def regex_to_smt(pat):
    """Rust regex (unanchored is_match semantics) -> RegLan matching the WHOLE string; None if outside the subset"""
    i, n = 0, len(pat)
    start_anchor = pat.startswith("^")
    end_anchor = pat.endswith("$") and not pat.endswith("\\$")
    body = pat[1 if start_anchor else 0: n - 1 if end_anchor else n]
    allc = "re.allchar"

    def parse_alt(s, i):
        alts = []
        seq, i = parse_seq(s, i)
        alts.append(seq)
        while i < len(s) and s[i] == "|":
            seq, i = parse_seq(s, i + 1)
            alts.append(seq)
        return (alts[0] if len(alts) == 1 else "(re.union %s)" % " ".join(alts)), i

    def parse_seq(s, i):
        items = []
        while i < len(s) and s[i] not in "|)":
            atom, i = parse_atom(s, i)
            if atom is None:
                return None, i
            while i < len(s) and s[i] in "*+?":
                atom = {"*": "(re.* %s)", "+": "(re.+ %s)", "?": "(re.opt %s)"}[s[i]] % atom
                i += 1
            items.append(atom)
        if not items:
            return '(str.to_re "")', i
        return (items[0] if len(items) == 1 else "(re.++ %s)" % " ".join(items)), i

    def cls(ch):
        return {"d": '(re.range "0" "9")', "w": '(re.union (re.range "a" "z") (re.range "A" "Z") (re.range "0" "9") (str.to_re "_"))',
                "s": '(re.union (str.to_re " ") (str.to_re "\\u{9}"))'}.get(ch)

    def parse_atom(s, i):
        c = s[i]
        if c == "(":
            j = i + 1
            if s.startswith("?:", j):
                j += 2
            r, j = parse_alt(s, j)
            if r is None or j >= len(s) or s[j] != ")":
                raise Unknown("group")
            return r, j + 1
        if c == "[":
            j = s.index("]", i + 1)
            inner = s[i + 1:j]
            neg = inner.startswith("^")
            if neg:
                inner = inner[1:]
            parts, k = [], 0
            while k < len(inner):
                if inner[k] == "\\":
                    cc = cls(inner[k + 1])
                    parts.append(cc if cc else '(str.to_re %s)' % smtstr.lit(inner[k + 1])); k += 2
                elif k + 2 < len(inner) and inner[k + 1] == "-":
                    parts.append('(re.range %s %s)' % (smtstr.lit(inner[k]), smtstr.lit(inner[k + 2]))); k += 3
                else:
                    parts.append('(str.to_re %s)' % smtstr.lit(inner[k])); k += 1
            r = parts[0] if len(parts) == 1 else "(re.union %s)" % " ".join(parts)
            if neg:
                r = "(re.diff re.allchar %s)" % r
            return r, j + 1
        if c == ".":
            return '(re.diff re.allchar (str.to_re "\\u{a}"))', i + 1
        if c == "\\":
            cc = cls(s[i + 1])
            if cc:
                return cc, i + 2
            if s[i + 1].isalnum():
                raise Unknown("escape \\%s" % s[i + 1])
            return "(str.to_re %s)" % smtstr.lit(s[i + 1]), i + 2
        if c in "{}^$":
            raise Unknown("regex construct %r" % c)
        return "(str.to_re %s)" % smtstr.lit(c), i + 1

    try:
        r, j = parse_alt(body, 0)
    except (Unknown, ValueError, IndexError):
        return None
    if r is None or j != len(body):
        return None
    parts = ([] if start_anchor else ["(re.* re.allchar)"]) + [r] + ([] if end_anchor else ["(re.* re.allchar)"])
    return parts[0] if len(parts) == 1 else "(re.++ %s)" % " ".join(parts)


# ---- the time-stamp format, read from the code -------------------------------------------------
WIDTH = {"year": 4, "month": 2, "day": 2, "hour": 2, "minute": 2, "second": 2, "subsecond": 9}


def timestamp_layout(sctx, rep):
    """[(kind, char)] for the text get_date_time_string_with_milliseconds() returns: 'd' digit positions and literal characters"""
    c = [p for p in sctx.idx.files if TS_FN.search(p)]
    if len(c) != 1:
        return None
    eng = sctx.engine(loop_bound=1)
    paths = eng.explore(c[0])
    rep.functions_encoded.append("proxy_agent_shared::" + c[0])
    fmt, take = None, None
    for r in paths:
        for e in r.events:
            if e.callee.endswith("format_description::parse") or e.callee.endswith("parse"):
                for a in e.rargs:
                    if isinstance(origin(a), StrV):
                        fmt = origin(a).e.as_string()
            if re.search(r"Iterator>::take$|::take$", e.callee) and len(e.rargs) == 2 and isinstance(e.rargs[1], Scalar):
                tv = z3.simplify(e.rargs[1].e)
                if z3.is_bv_value(tv):
                    take = tv.as_long()
    if fmt is None:
        return None
    lay = []
    for m in re.finditer(r"\[(\w+)[^\]]*\]|(.)", fmt):
        if m.group(1):
            if m.group(1) not in WIDTH:
                return None
            lay += [("d", None)] * WIDTH[m.group(1)]
        else:
            lay.append(("c", m.group(2)))
    if take is not None:
        lay = lay[:take]
    return lay


def order_lemma(rep, what, atoms, layout, key):
    """z3, bytes: two names from the same settings whose time stamps differ (T1 < T2) or are equal with U1 < U2 (same digit count)
    compare in the same order, the per-character maps of the code (':' -> '.') applied"""
    idx = [k for k, a in enumerate(atoms) if a[0] == "var" and a[1][0] == "T"]
    if not idx:
        return
    first = idx[0]

    def mapped(b, maps):
        for m in maps:
            if m[0] == "repl":
                b = z3.If(b == ord(m[1]), z3.BitVecVal(ord(m[2]), 8), b)
            elif m[0] == "lower":
                b = z3.If(z3.And(z3.UGE(b, 65), z3.ULE(b, 90)), b + 32, b)
            elif m[0] == "upper":
                b = z3.If(z3.And(z3.UGE(b, 97), z3.ULE(b, 122)), b - 32, b)
        return b

    def build(gen, s):
        out = []
        T = []
        U = []
        for k, (kind, payload, maps) in enumerate(atoms[first:]):
            if kind == "lit":
                out += [z3.BitVecVal(x, 8) for x in payload.encode("utf-8")]
            elif kind == "var" and payload[0] == "T":
                bs = []
                for j, (lk, ch) in enumerate(layout):
                    b = z3.BitVec("T%d_%d" % (gen, j), 8)
                    s.add(z3.And(z3.UGE(b, 48), z3.ULE(b, 57)) if lk == "d" else b == ord(ch))
                    bs.append(b)
                T = T or bs
                out += [mapped(b, maps) for b in bs]
            elif kind == "var" and payload[0] == "U":
                bs = []
                for j in range(19):
                    b = z3.BitVec("U%d_%d" % (gen, j), 8)
                    s.add(z3.And(z3.UGE(b, 48), z3.ULE(b, 57)))
                    bs.append(b)
                U = U or bs
                out += [mapped(b, maps) for b in bs]
            else:
                shared = kind == "var" and payload[1]
                out += [mapped(z3.BitVec("%s_%s_%d" % (payload[0] if kind == "var" else "op", "s" if shared else gen, j), 8), maps if kind == "var" else ()) for j in range(2)]
        return out, T, U

    def lex_lt(a, b):
        # same length by construction
        r = z3.BoolVal(False)
        for x, y in reversed(list(zip(a, b))):
            r = z3.Or(z3.ULT(x, y), z3.And(x == y, r))
        return r
    s = z3.Solver()
    s.set("timeout", 60000)
    n1, t1, u1 = build(1, s)
    n2, t2, u2 = build(2, s)
    earlier = lex_lt(t1, t2)
    if u1 and u2:
        earlier = z3.Or(earlier, z3.And(z3.And([x == y for x, y in zip(t1, t2)]), lex_lt(u1, u2)))
    s.add(earlier, z3.Not(lex_lt(n1, n2)))
    t0 = time.time()
    rs = str(s.check())
    dt = time.time() - t0
    rep.solver_time += dt
    detail = "from the first time stamp on: %s; stamp layout %s" % (show(atoms[first:]), "".join("9" if k == "d" else c for k, c in layout))
    if rs == "unsat":
        rep.add(Query("%s: names generated at a later time (later stamp, or the same stamp and a larger nanosecond count of equal width) sort after earlier ones" % what, "holds", detail, dt, "z3", key=key, reproduced=None))
    elif rs == "sat":
        m = s.model()
        def txt(bs):
            return bytes(m.eval(b, model_completion=True).as_long() for b in bs).decode("latin-1")
        rep.add(Query("%s: a later name sorts before an earlier one" % what, "violated", "%s || earlier %r later %r" % (detail, txt(n1), txt(n2)), dt, "z3", key=key, model={"earlier": txt(n1), "later": txt(n2)}, reproduced=None))
    else:
        rep.add(Query("%s: order lemma" % what, "inconclusive", "z3: %s" % rs, dt, "z3", key=key))


def run_z3new(smt, timeout=20):
    """the newer z3 (sequence/regex derivatives) decides regex membership over concatenations that cvc5 1.0 and z3 4.8 do not finish"""
    import subprocess
    t0 = time.time()
    try:
        p = subprocess.run(["z3-new", "-in", "-T:%d" % timeout], input=smt, capture_output=True, text=True, timeout=timeout + 10)
    except (subprocess.TimeoutExpired, FileNotFoundError):
        return "unknown", {}, time.time() - t0, "timeout"
    out = p.stdout.strip()
    first = out.split("\n", 1)[0].strip()
    errs = [l for l in out.split("\n") if "(error" in l and "model is not available" not in l]
    if errs:
        return "unknown", {}, time.time() - t0, "; ".join(errs)[-300:]
    model = {}
    if first == "sat":
        for m in re.finditer(r"\(define-fun (\S+) \(\) String\s+\"((?:[^\"]|\"\")*)\"\)", out):
            model[m.group(1)] = m.group(2).replace('""', '"')
    return first if first in ("sat", "unsat") else "unknown", model, time.time() - t0, out[-300:]


def cvc5_query(rep, name, smt, key, on_sat, dt_list=None):
    rs, model, dt, raw = run_z3new("(set-logic ALL)\n" + smt + "(check-sat)\n(get-model)\n", timeout=20)
    eng_name = "z3 5.1 (seq/regex)"
    rep.solver_time += dt
    if rs not in ("sat", "unsat"):
        rs, model, dt, raw = smtstr.run_cvc5("(set-logic ALL)\n" + smt + "(check-sat)\n(get-model)\n", timeout=40)
        eng_name = "cvc5"
        rep.solver_time += dt
    if rs == "unsat":
        rep.add(Query(name, "holds", "", dt, eng_name, key=key, reproduced=None))
    elif rs == "sat":
        rep.add(Query(name, "violated", on_sat(model), dt, eng_name, key=key, model={k: v for k, v in model.items() if isinstance(v, str)}, reproduced=None))
    else:
        rep.add(Query(name, "inconclusive", "cvc5: %s" % raw[-200:], dt, "cvc5", key=key))
    return rs


def decl(vs):
    return "".join("(declare-const %s String)\n" % v for v in sorted(set(vs)))


def prefix_query(rep, what, atoms, key):
    idx = [k for k, a in enumerate(atoms) if a[0] == "var" and a[1][0] == "T"]
    if not idx:
        rep.add(Query("%s: the generated name carries the time stamp its order is taken from" % what, "violated", "name: %s" % show(atoms), 0, "mirsym", key=key, reproduced=None))
        return False
    pre = atoms[:idx[0]]
    try:
        p1, v1 = smt_name(pre, 1)
        p2, v2 = smt_name(pre, 2)
    except Unknown as e:
        rep.add(Query("%s: name prefix expressible" % what, "inconclusive", str(e), 0, "mirsym", key=key))
        return False
    smt = decl(v1 + v2) + "(assert (not (= %s %s)))\n" % (p1, p2)
    rs = cvc5_query(rep, "%s: whatever precedes the time stamp in the name is the same text for every file written with the same settings (so names sort by time)" % what, smt, key,
                    lambda m: "prefix %s; two generations differ: %s" % (show(pre), {k: v for k, v in m.items() if isinstance(v, str)}))
    return rs == "unsat"


# ---- listers -------------------------------------------------------------------------------------
STR_PRED = re.compile(r"(str::starts_with|str::ends_with|str::contains|String::starts_with|String::ends_with|String::contains|Regex::is_match|PartialEq.*>::eq|PartialEq.*>::ne)$")


def lister_skip_conditions(rep, ctx, fn_path, label, entry_name_leaf, extra_leaf=None):
    """explore a directory lister for ONE entry that is a regular file with a valid name; -> [(atoms-level predicate text builder)] for the
    paths on which that entry is NOT put on the list. Each item: list of (kind, a_term, b_term, value)."""
    eng = ctx.engine(loop_bound=1, max_paths=4000)
    eng.auto_inline = ctx.new_function_auto()
    paths = eng.explore(fn_path)
    rep.functions_encoded.append(fn_path)
    out, n_keep = [], 0
    for r in paths:
        ev = r.events
        nx = [e for e in ev if e.kind == "call" and e.callee.endswith("Iterator>::next")]
        if r.status != "return" or not nx or not (isinstance(r.ret, Agg) and r.ret.variant == "Ok"):
            continue
        if not implied(r, nx[0].ret.discr() == 1):
            continue
        extra = []
        for e in ev:
            if e.kind == "call" and e.callee.endswith("is_file"):
                extra.append(e.ret.scalar("bool"))
            if e.kind == "call" and e.callee.endswith("is_dir"):
                extra.append(z3.Not(e.ret.scalar("bool")))
            if e.kind == "call" and e.callee.endswith("into_string"):
                extra.append(e.ret.discr() == 0)
        rs, _m, _dt, _zm = check_sat(r.pc + extra)
        if rs != "sat":
            continue
        pushed = [e for e in ev if e.kind == "call" and e.callee.endswith("Vec::push")]
        if pushed:
            n_keep += 1
            continue
        preds = []
        nb = Names(ev, leaf=lambda v: entry_name_leaf(v, ev) or (extra_leaf(v, ev) if extra_leaf else None) or config_leaf(v))
        ok = True
        for e in ev:
            if e.kind == "call" and STR_PRED.search(e.callee) and len(e.rargs) >= 2:
                b = e.ret.scalar("bool")
                val = True if implied(r, z3.Implies(z3.And(extra), b)) else (False if implied(r, z3.Implies(z3.And(extra), z3.Not(b))) else None)
                if val is None:
                    continue
                try:
                    preds.append((e.callee, nb.term(e.rargs[0]), nb.term(e.rargs[1]), val))
                except Unknown as x:
                    ok = False
        out.append((preds, ok))
    return out, n_keep


def pred_smt(callee, a_smt, b_smt, val, regex=None):
    if callee.endswith("starts_with"):
        t = "(str.prefixof %s %s)" % (b_smt, a_smt)
    elif callee.endswith("ends_with"):
        t = "(str.suffixof %s %s)" % (b_smt, a_smt)
    elif callee.endswith("contains"):
        t = "(str.contains %s %s)" % (a_smt, b_smt)
    elif callee.endswith("is_match"):
        t = "(str.in_re %s %s)" % (b_smt, regex)
    elif callee.endswith("::ne"):
        t = "(not (= %s %s))" % (a_smt, b_smt)
    else:
        t = "(= %s %s)" % (a_smt, b_smt)
    return t if val else "(not %s)" % t


def layout_re(layout):
    parts = []
    for k, c in layout:
        parts.append('(re.range "0" "9")' if k == "d" else "(str.to_re %s)" % smtstr.lit(c))
    return "(re.++ %s)" % " ".join(parts)


def absorb_maps(atoms, layout):
    """a single-character replace applied to a time stamp of fixed layout (or to a decimal count) is applied to the layout's literal
    characters instead: digits are not touched by it. -> atoms without those maps, {variable: layout regex}"""
    out, res = [], {}
    for kind, payload, maps in atoms:
        if kind == "var" and payload[0] in ("T", "U") and all(m[0] == "repl" and not m[1].isdigit() and m[1] != "-" for m in maps):
            if payload[0] == "T" and layout:
                lay = list(layout)
                for m in maps:
                    lay = [(k, (m[2] if c == m[1] else c)) for k, c in lay]
                name = "T" + "".join("%02x%02x" % (ord(m[1]), ord(m[2])) for m in maps)
                res[name] = layout_re(lay)
                out.append(("var", (name, False), ()))
                continue
            if payload[0] == "U":
                out.append(("var", ("U", False), ()))
                continue
        out.append((kind, payload, maps))
    return out, res


def membership(rep, what, key, gen_atoms, skips, regex=None, layout=None):
    """no skip path of the lister is satisfiable for an entry whose name is a generated name"""
    shown = gen_atoms
    gen_atoms, tre = absorb_maps(gen_atoms, layout)
    try:
        g, gv = smt_name(gen_atoms, 1)
    except Unknown as e:
        rep.add(Query("%s: generated name expressible" % what, "inconclusive", str(e), 0, "mirsym", key=key))
        return
    n = 0
    for k, (preds, ok) in enumerate(skips):
        if not ok:
            rep.add(Query("%s: lister skip path %d expressible" % (what, k), "inconclusive", "a string predicate has an argument that is not a name term", 0, "mirsym", key=key))
            continue
        n += 1
        vs, asserts = list(gv) + ["F"], ["(assert (= F %s))" % g]
        good = True
        for callee, a, b, val in preds:
            try:
                b_s, bv = smt_name(flatten(b), 1)
                if callee.endswith("is_match"):
                    if regex is None:
                        good = False
                        break
                    vs += bv
                    asserts.append("(assert %s)" % pred_smt(callee, None, b_s, val, regex))
                    continue
                a_s, av = smt_name(flatten(a), 1)
            except Unknown:
                good = False
                break
            vs += av + bv
            asserts.append("(assert %s)" % pred_smt(callee, a_s, b_s, val))
        if not good:
            rep.add(Query("%s: lister skip path %d expressible" % (what, k), "inconclusive", "predicate outside the string fragment", 0, "mirsym", key=key))
            continue
        # settings are plain file-name text: not empty, no path separator
        cfg = sorted({v for v in vs if v.startswith("cfg_") or v.startswith("arg")})
        for c in cfg:
            asserts.append('(assert (and (>= (str.len %s) 1) (not (str.contains %s "/"))))' % (c, c))
        for v in sorted(set(vs)):
            if v.rsplit("_", 1)[0] in tre:
                asserts.append("(assert (str.in_re %s %s))" % (v, tre[v.rsplit("_", 1)[0]]))
            elif v.startswith("T_") and layout:
                asserts.append("(assert (str.in_re %s %s))" % (v, layout_re(layout)))
            if v.startswith("U_"):
                asserts.append('(assert (str.in_re %s (re.++ (re.opt (str.to_re "-")) (re.+ (re.range "0" "9")))))' % v)
        smt = decl(vs) + "\n".join(asserts) + "\n"
        cvc5_query(rep, "%s: a file the writer generated is never left out by the lister (skip path %d: %s)" % (what, k, "; ".join("%s=%s" % (p[0].split("::")[-1], p[3]) for p in preds) or "unconditional"),
                   smt, key, lambda m: "generated name %s; model %s" % (show(shown), {k_: v for k_, v in m.items() if isinstance(v, str)}))
    rep.add(Query("witness: %s lister has skip paths for a regular file" % what, "witness-hit" if n else "witness-missed", "%d" % n, 0, "mirsym"))


# ---- the two mechanisms --------------------------------------------------------------------------
def check_names(rep, ctx, sctx):
    layout = timestamp_layout(sctx, rep)
    if layout is None:
        rep.add(Query("time stamp layout read from get_date_time_string_with_milliseconds", "inconclusive", "format description not recognised", 0, "mirsym", key="C19.names.layout"))
    # ---------- rule dumps ----------
    w = ctx.method("AuthorizationRulesForLogging", "write_all")
    eng = ctx.engine(loop_bound=1)
    gen, pattern = None, None
    for r in eng.explore(w):
        jw = [e for e in r.events if e.kind == "call" and e.callee.endswith("json_write_to_file")]
        sf = [e for e in r.events if e.kind == "call" and e.callee.endswith("search_files")]
        if not jw or not sf or r.status != "return":
            continue
        if isinstance(origin(sf[0].rargs[1]), StrV):
            pattern = origin(sf[0].rargs[1]).e.as_string()
        jn = [e for e in r.events if e.kind == "call" and e.callee.endswith("Path::join") and e.ret is origin(jw[0].rargs[1])]
        same_dir = bool(jn) and same_origin(jn[0].rargs[0], sf[0].rargs[0])
        rep.add(Query("rule dumps: the new dump is written into the directory that was searched", "holds" if same_dir else "violated", "", 0, "mirsym", key="C19.names.dumps.dir", reproduced=None))
        if jn:
            try:
                gen = flatten(Names(r.events, leaf=config_leaf).term(jn[0].rargs[1]))
            except Unknown as e:
                rep.add(Query("rule dumps: generated file name expressible", "inconclusive", str(e), 0, "mirsym", key="C19.names.dumps"))
        break
    if gen is not None:
        rep.extra.setdefault("names", {})["rule dump"] = show(gen)
        if prefix_query(rep, "rule dumps", gen, "C19.names.dumps.order") and layout:
            order_lemma(rep, "rule dumps", gen, layout, "C19.names.dumps.order")
        rx = regex_to_smt(pattern) if pattern is not None else None
        if rx is None:
            rep.add(Query("rule dumps: search pattern within the translated regex subset", "inconclusive", repr(pattern), 0, "python", key="C19.names.dumps.member"))
        else:
            c = [p for p in sctx.idx.files if p.endswith("misc_helpers::search_files")]
            if len(c) == 1:
                def entry_leaf(v, ev):
                    o = origin(v)
                    if isinstance(o, Sym) and isinstance(o.tag, tuple) and o.tag[0] == "ret" and o.tag[1].endswith("get_file_name"):
                        e = [x for x in ev if x.ret is o]
                        if e and isinstance(origin(e[0].rargs[0]), Sym) and origin(e[0].rargs[0]).tag[0] == "ret" and origin(e[0].rargs[0]).tag[1].endswith("DirEntry::path"):
                            return ("var", "F", True)
                    if isinstance(o, Sym) and isinstance(o.tag, tuple) and o.tag[0] == "ret" and o.tag[1].endswith("DirEntry::file_name"):
                        return ("var", "F", True)
                    if isinstance(o, Sym) and isinstance(o.tag, tuple) and o.tag[0] == "part" and isinstance(o.tag[1], Sym) and isinstance(o.tag[1].tag, tuple) and o.tag[1].tag[0] == "ret" and o.tag[1].tag[1].endswith("Regex::new"):
                        return ("var", "PATTERN", True)
                    return None
                skips, keep = lister_skip_conditions(rep, sctx, c[0], "search_files", entry_leaf)
                # is_match(regex, name): the regex object is the compiled search pattern argument
                membership(rep, "rule dumps", "C19.names.dumps.member", gen, skips, regex=rx, layout=layout)
                rep.add(Query("witness: search_files keeps an entry on some path", "witness-hit" if keep else "witness-missed", "%d" % keep, 0, "mirsym"))
    # ---------- rolling log ----------
    g = [p for p in sctx.idx.files if p.endswith("::get_current_file_full_path")]
    a = [p for p in sctx.idx.files if p.endswith("::archive_file")]
    lf = [p for p in sctx.idx.files if p.endswith("::get_log_files")]
    if len(g) == 1 and len(a) == 1 and len(lf) == 1:
        eng = sctx.engine(loop_bound=1)
        arch = None
        for r in eng.explore(g[0]):
            if r.status != "return":
                continue
            ps = [e for e in r.events if e.kind == "call" and e.callee.endswith("PathBuf::push")]
            se = [e for e in r.events if e.kind == "call" and e.callee.endswith("PathBuf::set_extension")]
            pushes = [e for e in r.events if e.kind == "call" and re.search(r"String::(push|push_str)$", e.callee)]
            if not pushes or len(ps) != 1:
                continue           # the current file's name (no time stamp): not an archive
            nb = Names(r.events, leaf=lambda v: (("var", "TIME", False) if isinstance(origin(v), Sym) and origin(v).tag[0] == "part" and part_key(origin(v)).startswith("arg2") else None) or config_leaf(v))
            try:
                builder = origin(ps[0].rargs[1])
                parts = [nb.term(builder)]
                for e in pushes:
                    if origin(e.rargs[0]) is builder:
                        parts.append(nb.term(e.rargs[1]))
                t = ("cat", parts)
                if se and same_origin(se[0].rargs[0], ps[0].rargs[0]):
                    t = ("setext", t, nb.term(se[0].rargs[1]))
                arch = t
            except Unknown as e:
                rep.add(Query("rolling log: archive name expressible", "inconclusive", str(e), 0, "mirsym", key="C19.names.log"))
        rep.functions_encoded.append("proxy_agent_shared::" + g[0])
        time_term = None
        eng = sctx.engine(loop_bound=1)
        for r in eng.explore(a[0]):
            gc = [e for e in r.events if e.kind == "call" and e.callee.endswith("get_current_file_full_path")]
            rn = [e for e in r.events if e.kind == "call" and re.search(r"(^|::)rename$", e.callee)]
            if rn and gc:
                tgt = [e for e in gc if e.ret is origin(rn[0].rargs[1])]
                if tgt:
                    try:
                        time_term = Names(r.events, leaf=config_leaf).term(tgt[0].rargs[1])
                    except Unknown as e:
                        rep.add(Query("rolling log: archive time stamp expressible", "inconclusive", str(e), 0, "mirsym", key="C19.names.log"))
                    break
        if arch is not None and time_term is not None:
            def subst(t):
                if t[0] == "var" and t[1] == "TIME":
                    return time_term
                if t[0] == "cat":
                    return ("cat", [subst(x) for x in t[1]])
                if t[0] == "repl":
                    return ("repl", subst(t[1]), t[2], t[3])
                if t[0] in ("lower", "upper"):
                    return (t[0], subst(t[1]))
                if t[0] == "setext":
                    return ("setext", subst(t[1]), subst(t[2]))
                return t
            gen = flatten(subst(arch))
            rep.extra.setdefault("names", {})["archived log"] = show(gen)
            if prefix_query(rep, "rolling log", gen, "C19.names.log.order") and layout:
                order_lemma(rep, "rolling log", gen, layout, "C19.names.log.order")

            def entry_leaf(v, ev):
                o = origin(v)
                if isinstance(o, Sym) and isinstance(o.tag, tuple) and o.tag[0] == "part" and isinstance(o.tag[1], Sym) and isinstance(o.tag[1].tag, tuple) and o.tag[1].tag[0] == "ret" \
                        and o.tag[1].tag[1].endswith("into_string"):
                    return ("var", "F", True)
                if isinstance(o, Sym) and isinstance(o.tag, tuple) and o.tag[0] == "ret" and (o.tag[1].endswith("DirEntry::file_name") or o.tag[1].endswith("get_file_name")):
                    return ("var", "F", True)
                if isinstance(o, Sym) and isinstance(o.tag, tuple) and o.tag[0] == "ret" and o.tag[1].endswith("DirEntry::path"):
                    return ("cat", [("var", "cfg_dir", True), ("lit", "/"), ("var", "F", True)])
                return None
            skips, keep = lister_skip_conditions(rep, sctx, lf[0], "get_log_files", entry_leaf)
            membership(rep, "rolling log", "C19.names.log.member", gen, skips, layout=layout)
            rep.add(Query("witness: get_log_files keeps an entry on some path", "witness-hit" if keep else "witness-missed", "%d" % keep, 0, "mirsym"))
        elif arch is None:
            rep.add(Query("rolling log: archive name located", "inconclusive", "", 0, "mirsym", key="C19.names.log"))
    else:
        rep.add(Query("rolling log: name helpers located", "inconclusive", "%d/%d/%d" % (len(g), len(a), len(lf)), 0, "mirsym", key="C19.names.log"))
    # ---------- event directory: the cap is compared with get_files(dir).len(): every regular file counts, whatever it is called ----------
    gf = [p for p in sctx.idx.files if p.endswith("misc_helpers::get_files")]
    ev = [p for p in sctx.idx.files if re.search(r"event_logger::start::\{closure#0\}$", p)]
    if len(gf) == 1:
        skips, keep = lister_skip_conditions(rep, sctx, gf[0], "get_files", lambda v, ev_: None)
        rep.add(Query("event directory: get_files leaves out no regular file (the count the cap is compared with is the number of files there)", "holds" if not skips and keep else "violated",
                      "%d path(s) on which a regular file with a valid name is not listed" % len(skips), 0, "mirsym+z3", key="C19.names.events.member", reproduced=None))
    else:
        rep.add(Query("misc_helpers::get_files located", "inconclusive", "%d candidates" % len(gf), 0, "mirsym", key="C19.names.events.member"))
    rep.assumptions += ["settings (log file name, extension) are non-empty file-name text without '/'", "nanosecond counts of two files have the same number of digits (true from 2001 to 2286)"]
