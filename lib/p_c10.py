"""C10 the key id in a signature names the key that produced the MAC (engine M + z3 schedule search)."""
from mcommon import *
from handler_model import *

TRANSPARENT = re.compile(r"(unwrap_or|unwrap_or_default|unwrap_or_else|::ok|::map|::cloned|::clone|::as_ref|::as_deref|::to_string|::to_owned|::into|::from|::unwrap|::expect)$")


def await_source(events, v, depth=0):
    """The await event (actor message round-trip) a value is derived from, following payload projections and
    transparent combinators."""
    v = origin(v)
    for _ in range(40):
        if isinstance(v, Ref):
            v = v.val.v if (v.frame is None and isinstance(v.val, Cell)) else v
        if isinstance(v, Agg) and v.variant in ("Some", "Ok") and len(v.fields) == 1:
            v = origin(v.fields[0])
            continue
        if not isinstance(v, Sym) or not isinstance(v.tag, tuple):
            return None
        if v.tag[0] == "await":
            for e in events:
                if e.kind == "await" and e.ret is v:
                    return e
            return None
        if v.tag[0] == "part":
            v = origin(v.tag[1])
            continue
        if v.tag[0] == "ret" and TRANSPARENT.search(v.tag[1]):
            for e in events:
                if e.ret is v and e.rargs:
                    v = origin(e.rargs[0])
                    break
            else:
                return None
            continue
        return None
    return None


def schedule_query(rep, site, ev_value, ev_guid, events, setters=2):
    """z3: is there an interleaving of the keeper's SetKey messages with this site's key reads such that the value and
    the guid come from different actor states?"""
    name = "%s: no schedule pairs the id of one key with the secret of another (reads: value<-%s, guid<-%s; <=%d concurrent SetKey)" % (
        site, ev_value.callee.split("::")[-1] if ev_value else "?", ev_guid.callee.split("::")[-1] if ev_guid else "?", setters)
    key = "C10.torn-read:" + site
    if ev_value is None or ev_guid is None:
        rep.add(Query(name, "inconclusive", "could not trace the key value / guid back to an actor read", 0, "mirsym", key=key))
        return None
    s = z3.Solver()
    tv, tg = z3.Int("t_value_read"), z3.Int("t_guid_read")
    ts = [z3.Int("t_setkey_%d" % i) for i in range(setters)]
    if ev_value is ev_guid:
        s.add(tv == tg)
    else:
        iv, ig = events.index(ev_value), events.index(ev_guid)
        s.add(tv < tg if iv < ig else tg < tv)
    s.add(z3.Distinct(*( [tv, tg] if ev_value is not ev_guid else [tv]) + ts))
    for i in range(setters - 1):
        s.add(ts[i] < ts[i + 1])
    for t in [tv, tg] + ts:
        s.add(t >= 0, t <= 2 * (setters + 2))

    def state_at(t):
        return z3.Sum([z3.If(x < t, 1, 0) for x in ts])
    s.add(state_at(tv) != state_at(tg))
    t0 = time.time()
    r = s.check()
    dt = time.time() - t0
    if r == z3.unsat:
        rep.add(Query(name, "holds", "value and guid are taken from one actor reply", dt, "z3", key=key))
        return None
    if r != z3.sat:
        rep.add(Query(name, "inconclusive", "z3: %s" % r, dt, "z3", key=key))
        return None
    m = s.model()
    order = sorted([(m.eval(t, model_completion=True).as_long(), str(t)) for t in [tv, tg] + ts])
    return {"name": name, "key": key, "schedule": [x[1] for x in order], "dt": dt}


REPLAY = '''
#[cfg(test)]
mod verif_replay_c10 {
    use crate::key_keeper::key::Key;
    use crate::shared_state::key_keeper_wrapper::KeyKeeperSharedState;

    fn key(guid: &str, value: &str) -> Key {
        let mut k = Key::empty();
        k.guid = guid.to_string();
        k.key = value.to_string();
        k
    }

    // Schedule found by the solver: [SetKey(A)] value-read, SetKey(B), guid-read  -- the exact message order the two
    // separate getters of a signing site allow.  The pair used for one signature must belong to ONE key.
    #[tokio::test(flavor = "current_thread")]
    async fn c10_value_and_guid_reads_straddle_a_rotation() {
        let ks = KeyKeeperSharedState::start_new();
        ks.update_key(key("guid-A", "AAAA")).await.unwrap();
        %(first)s
        ks.update_key(key("guid-B", "BBBB")).await.unwrap();
        %(second)s
        let consistent = (value.as_deref() == Some("AAAA") && guid.as_deref() == Some("guid-A"))
            || (value.as_deref() == Some("BBBB") && guid.as_deref() == Some("guid-B"))
            || (value.is_none() && guid.is_none());
        assert!(consistent, "authorization header would pair key id {:?} with the secret {:?}", guid, value);
    }
}
'''


def check_key_actor(rep, ctx):
    """The key actor: after SetKey(k1), SetKey(k2) the reply to GetKey is k2 as a whole (id and secret of ONE key), whatever k1 was;
    after SetKey(k) alone it is k. Messages are pinned by hooks on Receiver::recv; the replies are read from the oneshot send events."""
    w = ctx.method("KeyKeeperSharedState", "start_new")
    body = w + "::{closure#0}"
    if body not in ctx.idx.files or "KeyKeeperAction" not in ctx.enums:
        rep.add(Query("key actor located", "inconclusive", "start_new::{closure#0} / KeyKeeperAction not found", 0, "mirsym"))
        return
    ix_set, ix_get = ctx.enums["KeyKeeperAction"].index("SetKey"), ctx.enums["KeyKeeperAction"].index("GetKey")
    rep.functions_encoded.append(body + " [message sequences SetKey,GetKey and SetKey,SetKey,GetKey]")
    for seq in ([ix_set, ix_get], [ix_set, ix_set, ix_get]):
        def hook(engine, ev, seq=seq):
            if ev.kind == "await" and ev.callee.endswith("recv"):
                n = sum(1 for e in engine.events if e.kind == "await" and e.callee.endswith("recv"))
                if n <= len(seq):
                    engine.require(ev.ret.discr() == 1)
                    engine.require(ev.ret.child(("v", "Some", 0)).discr() == seq[n - 1])
                else:
                    engine.require(ev.ret.discr() == 0)
        eng = ctx.engine(loop_bound=len(seq), max_paths=4000)
        eng.auto_inline = ctx.new_function_auto()        # arm bodies moved into helpers are looked into
        eng.event_hook = hook
        paths = eng.explore(body)
        n_ok = n = 0
        bad = ""
        for r in paths:
            if r.status not in ("return", "cut"):
                continue
            rc = [e for e in r.events if e.kind == "await" and e.callee.endswith("recv")]
            if len(rc) < len(seq):
                continue
            sends = [e for e in r.events if e.kind == "call" and re.search(r"oneshot::Sender.*::send$", e.callee) and r.events.index(e) > r.events.index(rc[len(seq) - 1])]
            if not sends:
                continue
            n += 1
            last_set = rc[len(seq) - 2].ret.child(("v", "Some", 0)).child(("v", "SetKey", 0))
            reply = sends[0].rargs[1]
            if same_origin(reply, last_set):
                n_ok += 1
            else:
                bad = "reply %r is not the key of the last SetKey %r" % (reply, last_set)
        name = "key actor: after %s the reply to GetKey is the key of the last SetKey as a whole (id and secret of one key)" % ", ".join("SetKey(k%d)" % (i + 1) for i in range(len(seq) - 1))
        if n == 0:
            rep.add(Query(name, "inconclusive", "no path with a GetKey reply (%d paths)" % len(paths), 0, "mirsym", key="C10.actor"))
        else:
            rep.add(Query(name, "holds" if n_ok == n else "violated", bad[:300] or "%d paths" % n, 0, "mirsym+z3", key="C10.actor:%d" % len(seq), reproduced=None))


ACTOR_REPLAY = '''
#[cfg(test)]
mod verif_replay_c10_actor {
    use crate::key_keeper::key::Key;
    use crate::shared_state::key_keeper_wrapper::KeyKeeperSharedState;
    fn key(guid: &str, value: &str, inc: Option<u32>) -> Key { let mut k = Key::empty(); k.guid = guid.to_string(); k.key = value.to_string(); k.incarnationId = inc; k }
    #[tokio::test(flavor = "current_thread")]
    async fn c10_a_rotation_replaces_id_and_secret_together() {
        for (i1, i2) in [(None, None), (Some(1), Some(1)), (Some(1), Some(2)), (None, Some(1))] {
            let ks = KeyKeeperSharedState::start_new();
            ks.update_key(key("guid-A", "AAAA", i1)).await.unwrap();
            ks.update_key(key("guid-B", "BBBB", i2)).await.unwrap();
            let (g, v) = ks.get_current_key_guid_and_value().await.unwrap();
            assert!(g.as_deref() == Some("guid-B") && v.as_deref() == Some("BBBB"), "after a rotation (incarnations {:?} -> {:?}) the actor holds id {:?} with secret {:?}", i1, i2, g, v);
        }
    }
}
'''


def check(rep, tier, seed):
    ctx = Ctx("agent")
    rep.extra["mir_dump"] = {"cache_hit": ctx.dump.cache_hit, "tree_hash": ctx.dump.hash, "seconds": round(ctx.dump.seconds, 1)}
    setters = 2 if tier == "quick" else 3
    check_key_actor(rep, ctx)
    if any(q.status == "violated" and (q.key or "").startswith("C10.actor") for q in rep.queries):
        import replay as _rp
        res_a, _o = _rp.run_rust_tests("azure-proxy-agent", [("proxy_agent/src/shared_state/key_keeper_wrapper.rs", ACTOR_REPLAY)], "verif_replay_c10_actor", no_args=True)
        st_a = (res_a or {}).get("c10_a_rotation_replaces_id_and_secret_together")
        pa = save_replay("C10", "actor_rotation.rs", "// append to proxy_agent/src/shared_state/key_keeper_wrapper.rs; run the whole azure-proxy-agent test binary\n" + ACTOR_REPLAY)
        for q in rep.queries:
            if q.status == "violated" and (q.key or "").startswith("C10.actor"):
                q.replay = pa
                q.detail += " || native replay on the real actor: %s" % st_a
                if st_a == "FAILED":
                    q.reproduced = True
                    rep.traces_validated += 1
    cex = []
    # site 1: the proxied route
    # the key getters of the wrapper are inlined down to the single actor round-trip (get_key = one GetKey message)
    keep10 = re.compile(KEEP.pattern.replace("SharedState::|", "(?<!KeyKeeper)SharedState::|KeyKeeperSharedState::(get_key|set_key|update_key|clear_key)$|"))
    hm = HandlerModel(ctx, rep, keep=keep10)
    rep.stubs.append("one actor message = one await of KeyKeeperSharedState::get_key (the private GetKey round-trip); the public getters are inlined")
    seen = False
    for p in hm.paths:
        cs = [e for e in p.events if e.kind == "call" and e.callee.endswith("compute_signature")]
        ins = [e for e in p.events if e.kind == "call" and e.callee.endswith("HeaderValue::from_str")]
        if not cs or not p.relays:
            continue
        # guid: a leaf of the formatted authorization value that is not the signature and not a constant
        sig_ok = cs[0].ret
        auth_src = None
        for e in ins:
            leaves = fmt_leaves(e.rargs[0])
            if any(is_part_of(l, sig_ok) for l in leaves):
                auth_src = leaves
        if auth_src is None:
            continue
        guid_leaf = [l for l in auth_src if not isinstance(origin(l), (ConstV, StrV)) and not is_part_of(l, sig_ok)]
        ev_v = await_source(p.events, cs[0].rargs[0])
        ev_g = await_source(p.events, guid_leaf[0]) if len(guid_leaf) == 1 else None
        if seen:
            continue
        seen = True
        c = schedule_query(rep, "proxy_server::handle_request_with_signature", ev_v, ev_g, p.events, setters)
        if c:
            c["first_is_value"] = p.events.index(ev_v) < p.events.index(ev_g)
            cex.append(c)
    if not seen:
        rep.add(Query("locate the signing path of the handler", "inconclusive", "no relay path with compute_signature", 0, "mirsym"))
    # sites 2..4: the agent's own host calls
    known_sites = []
    for (ty, fn) in (("WireServerClient", "get_goalstate"), ("WireServerClient", "get_shared_config"), ("ImdsClient", "get_imds_instance_info")):
        try:
            known_sites.append((ty, fn, ctx.method(ty, fn)))
        except Inconclusive as e:
            rep.add(Query("%s::%s located" % (ty, fn), "inconclusive", str(e), 0, "mirsym"))
    # ... and every other function that reads the key (found through the call graph): a signing site added later is a site
    import callgraph as _cgm
    getters = ("get_current_key_value", "get_current_key_guid", "get_current_key_guid_and_value", "get_key")
    have = {w for _t, _f, w in known_sites}
    for pth, callees in sorted(hm.cg.callees.items()):
        base = pth.split("::{closure")[0]
        if base in have or "key_keeper_wrapper" in pth or "proxy_server" in pth or "::tests::" in pth or "key_keeper::" in pth:
            continue
        if any(_cgm.last_seg(c) in getters for c in callees) and (base + "::{closure#0}") in ctx.idx.files:
            have.add(base)
            known_sites.append((base.split("::")[-2] if "::" in base else "", base.split("::")[-1], base))
    for (ty, fn, w) in known_sites:
        eng = ctx.engine()
        only_getters = re.compile(r"KeyKeeperSharedState::get_current_key")
        base_auto = make_auto_inline(hm.cg, keep10)
        eng.auto_inline = lambda engine, callee, caller: base_auto(engine, callee, caller) if only_getters.search(callee) else None
        paths = eng.explore(w + "::{closure#0}")
        rep.functions_encoded.append(w + "::{closure#0}")
        done = False
        shapes = set()
        for r in paths:
            gets = [(e, 2, 3) for e in r.events if e.kind == "call" and re.search(r"hyper_client::get$|(^|::)get$", e.callee) and len(e.rargs) >= 4]
            gets += [(e, 4, 5) for e in r.events if e.kind == "call" and re.search(r"(^|::)build_request$", e.callee) and len(e.rargs) >= 6]
            gets.sort(key=lambda t: r.events.index(t[0]))
            # EVERY signed request the function can send (a retry, a second call ...), not only the first one
            for k, (g, ig, iv) in enumerate(gets):
                ev_g = await_source(r.events, g.rargs[ig])
                ev_v = await_source(r.events, g.rargs[iv])
                if ev_g is None and ev_v is None:
                    continue          # a request on which no key is latched: nothing is signed
                lit_none = [a for a in (g.rargs[ig], g.rargs[iv]) if isinstance(origin(a), Agg) and origin(a).variant == "None"]
                if lit_none:
                    continue          # id or secret is the literal None on this path: build_request signs only when both are present
                shape = (k, g.site, "same" if ev_g is ev_v else "two", None if ev_g is None else ev_g.site, None if ev_v is None else ev_v.site)
                if shape in shapes:
                    continue
                shapes.add(shape)
                done = True
                c = schedule_query(rep, "%s::%s%s" % (ty, fn, "" if k == 0 else " (request #%d of the path)" % (k + 1)), ev_v, ev_g, r.events, setters)
                if c:
                    c["first_is_value"] = r.events.index(ev_v) < r.events.index(ev_g)
                    cex.append(c)
        if not done:
            if (ty, fn) in (("WireServerClient", "get_goalstate"), ("WireServerClient", "get_shared_config"), ("ImdsClient", "get_imds_instance_info")):
                rep.add(Query("%s::%s: signing call located" % (ty, fn), "inconclusive", "no hyper_client::get call with key arguments found", 0, "mirsym"))
            else:
                rep.add(Query("%s::%s reads the key keeper's key state but sends no signed request" % (ty, fn), "holds", "found through the call graph", 0, "mirsym", key="C10.site-no-signing"))
    # replay the schedules on the real actor
    if cex:
        import replay
        first_value = "let value = ks.get_current_key_value().await.unwrap();"
        first_guid = "let guid = ks.get_current_key_guid().await.unwrap();"
        fv = cex[0]["first_is_value"]
        code = REPLAY % {"first": first_value if fv else first_guid, "second": first_guid if fv else first_value}
        res, out = replay.run_rust_tests("azure-proxy-agent", [("proxy_agent/src/shared_state/key_keeper_wrapper.rs", code)], "verif_replay_c10")
        path = save_replay("C10", "torn_read_replay.rs", "// append to proxy_agent/src/shared_state/key_keeper_wrapper.rs; cargo test -p azure-proxy-agent verif_replay_c10\n" + code)
        st = (res or {}).get("c10_value_and_guid_reads_straddle_a_rotation")
        for c in cex:
            if st == "FAILED":
                rep.traces_validated += 1
                rep.add(Query(c["name"], "violated", "schedule %s; replayed on the real actor: the two getters return the secret of one key and the id of another" % c["schedule"],
                              c["dt"], "z3", key=c["key"], model={"schedule": c["schedule"]}, replay=path, reproduced=True))
            elif st == "ok":
                rep.add(Query(c["name"], "violated", "schedule %s did not reproduce on the real actor" % c["schedule"], c["dt"], "z3", key=c["key"], replay=path, reproduced=False))
            else:
                rep.add(Query(c["name"], "inconclusive", "replay did not run: %s" % (out or "")[-300:], c["dt"], "z3", key=c["key"], replay=path))
    # witness: the schedule encoding is satisfiable for two independent reads (sanity of the encoding itself)
    s = z3.Solver(); a, b, c_ = z3.Ints("a b c"); s.add(a < c_, c_ < b)
    rep.add(Query("witness: the schedule encoding admits a SetKey between two distinct reads", "witness-hit" if s.check() == z3.sat else "witness-missed", "", 0, "z3"))
    rep.bounds["schedules"] = "1 signer x %d concurrent SetKey/ClearKey messages, all interleavings (message times are free integers)" % setters
    rep.assumptions += ["the key-keeper actor processes one message at a time (single task owning the state)", "a read's reply reflects the actor state at the time the message is processed"]
    rep.outside_claim += ["more than %d key changes during one signature" % setters, "tokio's scheduler (any interleaving of messages is assumed possible)"]
    rep.trusted += ["mirsym", "z3"]


def replay(path):
    print(open(path).read())
    return 0
