// append to proxy_agent/src/common/hyper_client.rs

#[cfg(test)]
mod verif_replay_c13_headers {
    #[test]
    fn c13_canonical_headers_with_obs_text_value() {
        let mut headers = hyper::HeaderMap::new();
        headers.insert("x-verif", hyper::header::HeaderValue::from_bytes(&[0x63, 0x61, 0x66, 0xe9]).unwrap()); // "caf\xe9": legal obs-text
        let _ = super::headers_to_canonicalized_string(&headers);
    }
    #[tokio::test(flavor = "multi_thread", worker_threads = 2)]
    async fn c13_odd_length_utf16_body() {
        use std::io::{Read, Write};
        let l = std::net::TcpListener::bind("127.0.0.1:0").unwrap();
        let port = l.local_addr().unwrap().port();
        std::thread::spawn(move || {
            if let Ok((mut s, _)) = l.accept() {
                let mut b = [0u8; 4096];
                let _ = s.read(&mut b);
                let _ = s.write_all(b"HTTP/1.1 200 OK\r\ncontent-type: application/json; charset=utf-16\r\ncontent-length: 3\r\n\r\n{}\n");
                std::thread::sleep(std::time::Duration::from_millis(300));
            }
        });
        let url: hyper::Uri = format!("http://127.0.0.1:{}/x", port).parse().unwrap();
        let r = tokio::spawn(async move { super::get::<serde_json::Value, _>(&url, &std::collections::HashMap::new(), None, None, |_| {}).await.is_ok() }).await;
        assert!(r.is_ok(), "the response reader panicked on an odd-length UTF-16 body");
    }
}
