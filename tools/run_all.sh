#!/bin/bash
# run every registered quick (or thorough) check on the current tree; prints one line per property
cd "$(dirname "$(readlink -f "$0")")/.."
tier=${1:-quick}
for p in $(python3 -c "import json;print(' '.join(c['property_id'] for c in json.load(open('MANIFEST.json'))['checks']))"); do
  s=$(date +%s); out=$(./check $p --tier $tier 2>&1); rc=$?; e=$(( $(date +%s) - s ))
  echo "$p rc=$rc ${e}s $(echo "$out" | tail -1 | cut -c1-120)"
done
