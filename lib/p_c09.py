"""C09 agent state converges to the host's latest secure-channel status (engine M). DESIGN.md 4/C09.
One poll iteration is analysed in three slices, each from an ARBITRARY prior state (locals and actor state free)."""
from mcommon import *
from p_c08 import PRE, KEYFNS, derives, implied
import p_c08

EFFECTS = re.compile(r"(set_(wireserver|imds|hostga)_rules|update_(wireserver|imds|hostga)_rule_id|update_key|clear_key|update_current_secure_channel_state|"
                     r"update_(wire_server|imds|hostga)_redirect_policy|acquire_key|attest_key|json_write_to_file)$")


def loop_body(ctx):
    w = ctx.method("KeyKeeper", "loop_poll")
    return w + "::{closure#0}"


def status_of(r, ev):
    gs = [e for e in ev if e.kind == "await" and re.search(r"(^|::)get_status$", e.callee)]
    return gs[0] if gs else None


def is_status_getter(r, v, getter, status_val):
    """v is (a conversion of) `status.<getter>()` of this iteration's status document"""
    cur = v
    for _ in range(6):
        o = origin(cur)
        if isinstance(o, Sym) and o.tag[0] == "ret":
            ev = [e for e in r.events if e.ret is o]
            if not ev:
                return False
            if ev[0].callee.endswith("KeyStatus::" + getter):
                return status_val is None or derives(ev[0].rargs[0], status_val, r.events)
            if p_c08.TRANSPARENT.search(o.tag[1]) and ev[0].rargs:
                cur = ev[0].rargs[0]
                continue
        return False
    return False


def check_rules_section(rep, ctx):
    body = loop_body(ctx)
    eng = ctx.engine(loop_bound=1, max_paths=20000, timeout=600)
    gs = eng.find_blocks(body, r"(^|::)get_status$")
    if len(gs) != 1:
        raise Inconclusive("loop_poll: expected one get_status call, found %d" % len(gs))
    # pin the rule-dump branch (logging only) to keep the slice small
    # the section ends where the state handling begins: at get_secure_channel_state ONCE the three rule-id updates have been made (the
    # getter is pure; a version that computes the state text earlier still has its rule handling examined)
    def section_end(engine, ev):
        begins_next = (ev.kind == "call" and ev.callee.endswith("KeyStatus::get_secure_channel_state")) or \
            (ev.kind == "streq" and any(isinstance(origin(x), StrV) and origin(x).e.as_string() == "disabled" for x in ev.rargs)) or \
            (ev.kind in ("call", "await") and re.search(r"get_current_key_guid$|(^|::)acquire_key$", ev.callee))
        if begins_next:
            ups = [e for e in engine.events if e.kind == "await" and re.search(r"update_(wireserver|imds|hostga)_rule_id$", e.callee)]
            if len({e.callee.split("::")[-1] for e in ups}) >= 3:
                # the third endpoint's block is complete once its decision was taken: stop at the first event of the next section
                raise EndPath("stop", "reached the state / key handling after the rule handling")
    eng.event_hook = section_end
    paths = eng.explore(body, start_bb=gs[0], stop_calls=r"AuthorizationRulesForLogging::new$|(^|::)get_status$" + PRE)
    rep.functions_encoded.append(body + " [rules section: from get_status to get_secure_channel_state]")
    n_err = n_upd = 0
    for i, r in enumerate(paths):
        ev = r.events
        st = status_of(r, ev)
        if st is None:
            rep.add(Query("rules section path %d starts with get_status" % i, "inconclusive", "", 0, "mirsym"))
            continue
        rs, _m, _dt, _zm = check_sat(r.pc + [st.ret.discr() == 1])
        if rs == "sat" and implied(r, st.ret.discr() == 1):
            n_err += 1
            eff = [e.callee.split("::")[-1] for e in ev if e.kind in ("call", "await") and EFFECTS.search(e.callee)]
            rep.add(Query("rules section path %d: a failed/invalid status poll changes nothing (no rule, key, state or policy update before the next poll)" % i,
                          "holds" if not eff else "violated", "effects: %s" % eff, 0, "mirsym+z3", key="C09.failed-poll-no-effect", reproduced=None))
            continue
        status = st.ret.child(("v", "Ok", 0))
        for X, getter_id, getter_rules in (("wireserver", "get_wireserver_rule_id", "get_wireserver_rules"), ("imds", "get_imds_rule_id", "get_imds_rules"), ("hostga", "get_hostga_rule_id", "get_hostga_rules")):
            up = [e for e in ev if e.kind == "await" and e.callee.endswith("update_%s_rule_id" % X)]
            sets = [e for e in ev if e.kind == "await" and e.callee.endswith("set_%s_rules" % X)]
            if not up:
                continue         # slice ended before this endpoint (stop at next section)
            u = up[0]
            ok_arg = is_status_getter(r, u.rargs[1], getter_id, status)
            rep.add(Query("rules section path %d: %s rule id offered to the state is this document's %s()" % (i, X, getter_id), "holds" if ok_arg else "violated", repr(u.rargs[1])[:100], 0, "mirsym",
                          key="C09.rule-id-source:" + X, reproduced=None))
            updated = z3.And(u.ret.discr() == 0, u.ret.child(("v", "Ok", 0)).child(("f", 0), "bool").scalar("bool"))
            # updated => exactly one set_X_rules(status.get_X_rules()); not updated => none
            bad = add_query(rep, "rules section path %d: %s rule id changed => its rules are replaced by this document's %s()" % (i, X, getter_rules),
                            r.pc + [updated, z3.BoolVal(not (len(sets) == 1 and is_status_getter(r, sets[0].rargs[1], getter_rules, status)))], key="C09.rules-replaced:" + X)
            if bad:
                rep.add(Query("rules section path %d: %s rules not replaced from this document on an id change" % (i, X), "violated", "set events %d" % len(sets), bad[1], "mirsym+z3",
                              key="C09.rules-replaced:" + X, model=bad[0], reproduced=None))
            bad = add_query(rep, "rules section path %d: %s rule id unchanged => its rules are left alone" % (i, X), r.pc + [u.ret.discr() == 0, z3.Not(updated), z3.BoolVal(bool(sets))],
                            key="C09.rules-untouched:" + X)
            if bad:
                rep.add(Query("rules section path %d: %s rules rewritten although the id did not change" % (i, X), "violated", "", bad[1], "mirsym+z3", key="C09.rules-untouched:" + X, model=bad[0], reproduced=None))
            if sets:
                n_upd += 1
        # cross-endpoint: no set_Y_rules with X's getter
        for e in ev:
            if e.kind == "await":
                m = re.search(r"set_(wireserver|imds|hostga)_rules$", e.callee)
                if m:
                    want = "get_%s_rules" % m.group(1)
                    ok = is_status_getter(r, e.rargs[1], want, status)
                    rep.add(Query("rules section path %d: set_%s_rules receives %s() (no endpoint mix-up)" % (i, m.group(1), want), "holds" if ok else "violated", "", 0, "mirsym",
                                  key="C09.rules-endpoint:" + m.group(1), reproduced=None))
    rep.add(Query("witness: rules section has failed-poll paths and rule-replacing paths", "witness-hit" if n_err and n_upd else "witness-missed", "%d/%d" % (n_err, n_upd), 0, "mirsym"))
    rep.bounds["rules section"] = "%d paths" % len(paths)


def check_state_section(rep, ctx):
    body = loop_body(ctx)
    eng = ctx.engine(loop_bound=1, max_paths=20000, timeout=600)
    st = eng.find_blocks(body, r"KeyStatus::get_secure_channel_state$")
    if len(st) != 1:
        raise Inconclusive("loop_poll: get_secure_channel_state not found")

    def hook(engine, ev):
        # this slice studies the state/policy step: pin "no key work needed" (the key step is analysed by C08 and check_key_trigger)
        if ev.kind == "call" and ev.callee.endswith("Option::is_none"):
            engine.require(z3.Not(ev.ret.scalar("bool")))
        if ev.kind == "call" and re.search(r"Option<.*String.*> as PartialEq>::ne$", ev.callee):
            engine.require(z3.Not(ev.ret.scalar("bool")))
    eng.event_hook = hook
    paths = eng.explore(body, start_bb=st[0], stop_calls=r"(^|::)get_status$" + PRE)
    rep.functions_encoded.append(body + " [state section: from update_current_secure_channel_state to the end of the iteration]")
    n_upd = n_dis = 0
    for i, r in enumerate(paths):
        ev = r.events
        us = [e for e in ev if e.kind == "await" and e.callee.endswith("update_current_secure_channel_state")]
        if not us:
            continue
        u = us[0]
        updated = z3.And(u.ret.discr() == 0, u.ret.child(("v", "Ok", 0)).scalar("bool"))
        pol = {X: [e for e in ev if e.kind == "await" and e.callee.endswith("update_%s_redirect_policy" % X)] for X in ("wire_server", "imds", "hostga")}
        clr = [e for e in ev if e.kind == "await" and e.callee.endswith("clear_key")]
        ok_state_arg = is_status_getter(r, u.rargs[1], "get_secure_channel_state", None)
        rep.add(Query("state section path %d: the state offered is this document's get_secure_channel_state()" % i, "holds" if ok_state_arg else "violated", "", 0, "mirsym", key="C09.state-source", reproduced=None))
        all_three = all(len(v) == 1 for v in pol.values())
        none = all(len(v) == 0 for v in pol.values())
        bad = add_query(rep, "state section path %d: channel state changed => each of the three redirect policies is updated exactly once" % i, r.pc + [updated, z3.BoolVal(not all_three)], key="C09.policy-on-change")
        if bad:
            rep.add(Query("state section path %d: state changed but policies updated %s" % (i, {k: len(v) for k, v in pol.items()}), "violated", "", bad[1], "mirsym+z3", key="C09.policy-on-change", model=bad[0], reproduced=None))
        bad = add_query(rep, "state section path %d: channel state unchanged (or update failed) => no policy update, no key clear" % i, r.pc + [z3.Not(updated), z3.BoolVal(not none or bool(clr))], key="C09.no-policy-without-change")
        if bad:
            rep.add(Query("state section path %d: policy/key touched without a state change" % i, "violated", "", bad[1], "mirsym+z3", key="C09.no-policy-without-change", model=bad[0], reproduced=None))
        if all_three:
            n_upd += 1
            for X, getter in (("wire_server", "get_wire_server_mode"), ("imds", "get_imds_mode"), ("hostga", "get_hostga_mode")):
                e = pol[X][0]
                flag = e.rargs[0]
                # flag = Not(streq(status.getter(), DISABLE_STATE))
                cm = [c for c in ev if c.kind == "streq" and ev.index(c) < ev.index(e)]
                okf = False
                if isinstance(flag, Scalar):
                    for c in cm:
                        if any(is_status_getter(r, x, getter, None) for x in c.rargs) and any(isinstance(origin(x), StrV) and origin(x).e.as_string() == "disabled" for x in c.rargs):
                            rs, _m, _dt, _zm = check_sat(r.pc + [flag.e != z3.Not(c.extra)])
                            if rs == "unsat":
                                okf = True
                rep.add(Query("state section path %d: %s is intercepted exactly when this document's %s() is not \"disabled\"" % (i, X, getter), "holds" if okf else "violated", repr(flag)[:120], 0, "mirsym+z3",
                              key="C09.policy-flag:" + X, reproduced=None))
            # disabled => key cleared
            dis = [c for c in ev if c.kind == "streq" and any(isinstance(origin(x), StrV) and origin(x).e.as_string() == "disabled" for x in c.rargs) and
                   any(derives(x, u.rargs[1], ev) or is_status_getter(r, x, "get_secure_channel_state", None) or same_origin(conv_chain(x)[1], conv_chain(u.rargs[1])[1]) for x in c.rargs)]
            if dis:
                isdis = dis[-1].extra
                bad = add_query(rep, "state section path %d: new state is disabled => the in-memory key is cleared" % i, r.pc + [updated, isdis, z3.BoolVal(not clr)], key="C09.clear-on-disabled")
                if bad:
                    rep.add(Query("state section path %d: disabled but key kept" % i, "violated", "", bad[1], "mirsym+z3", key="C09.clear-on-disabled", model=bad[0], reproduced=None))
                bad = add_query(rep, "state section path %d: new state is not disabled => the key is not cleared" % i, r.pc + [updated, z3.Not(isdis), z3.BoolVal(bool(clr))], key="C09.no-clear-when-enabled")
                if bad:
                    rep.add(Query("state section path %d: key cleared although enabled" % i, "violated", "", bad[1], "mirsym+z3", key="C09.no-clear-when-enabled", model=bad[0], reproduced=None))
                if clr:
                    n_dis += 1
    rep.add(Query("witness: state section has policy-updating paths and key-clearing paths", "witness-hit" if n_upd and n_dis else "witness-missed", "%d/%d" % (n_upd, n_dis), 0, "mirsym"))
    rep.bounds["state section"] = "%d paths" % len(paths)


def _is_local_state(r, v):
    """the slice starts after `let state = status.get_secure_channel_state()`: `state` is then an unconstrained local of the body"""
    names, base = conv_chain(v)
    o = origin(base)
    return isinstance(o, Sym) and isinstance(o.tag, tuple) and o.tag[0] in ("uninit", "part") and "uninit" in repr(o)


def check_key_trigger(rep, ctx):
    eng, paths = p_c08.key_section(ctx, rep)
    n = 0
    kidx = ctx.field("KeyStatus", "keyGuid")
    n_idle = 0
    for i, r in enumerate(paths):
        ev = r.events
        ops = [e for e in ev if (e.kind == "await" and re.search(r"(acquire_key|attest_key|update_key)$", e.callee)) or (e.kind == "call" and e.callee.endswith("read_to_string"))]
        if not ops:
            # the other direction: with the channel not disabled and the host naming NO latched key (or a key other than the one held) the
            # step must go for a key - "the key used is the one the host names as latched", so a held key the host no longer names is not kept
            if r.status not in ("return", "stop", "cut") or not ev or not ev[0].callee.endswith("get_secure_channel_state"):
                continue
            st = origin(ev[0].rargs[0])
            isn = [e for e in ev if e.kind == "call" and e.callee.endswith("Option::is_none")]
            kg = origin(isn[0].rargs[0]) if isn and isinstance(origin(isn[0].rargs[0]), Sym) and is_part_of(origin(isn[0].rargs[0]), st) else st.child(("f", kidx))
            dis = [c for c in ev if c.kind == "streq" and any(isinstance(origin(x), StrV) and origin(x).e.as_string() == "disabled" for x in c.rargs)]
            not_disabled = z3.Not(dis[-1].extra) if dis else z3.Bool("c09_not_disabled_%d" % i)
            ne = [e for e in ev if e.kind == "call" and re.search(r"Option<.*String.*> as PartialEq>::(ne|eq)$", e.callee) and any(same_origin(x, kg) for x in e.rargs)]
            differs = [(ne[-1].ret.scalar("bool") if ne[-1].callee.endswith("ne") else z3.Not(ne[-1].ret.scalar("bool")))] if ne else []
            must = z3.And(not_disabled, z3.Or([kg.discr() == 0] + differs))
            rs, _m, _dt, _zm = check_sat(r.pc + [z3.Or(kg.discr() == 0, kg.discr() == 1), must])
            n_idle += 1
            rep.add(Query("key section path %d: no key work only when the channel is disabled or the host names the key that is held" % i, "holds" if rs == "unsat" else "violated",
                          "the step does nothing although the channel is enabled and the host names no key / another key (%s)" % rs if rs != "unsat" else "", 0, "mirsym+z3", key="C09.key-trigger-sufficient", reproduced=None))
            continue
        n += 1
        first = ev.index(ops[0])
        dis = [c for c in ev[:first] if c.kind == "streq" and any(isinstance(origin(x), StrV) and origin(x).e.as_string() == "disabled" for x in c.rargs)]
        isn = [e for e in ev[:first] if e.kind == "call" and e.callee.endswith("Option::is_none")]
        ne = [e for e in ev[:first] if e.kind == "call" and re.search(r"Option<.*String.*> as PartialEq>::(ne|eq)$", e.callee)]
        conds = []
        if dis:
            conds.append(z3.Not(dis[-1].extra))
        trig = []
        if isn:
            trig.append(isn[-1].ret.scalar("bool"))
        if ne:
            b = ne[-1].ret.scalar("bool")
            trig.append(b if ne[-1].callee.endswith("ne") else z3.Not(b))
        ok = bool(dis) and bool(trig) and implied(r, z3.And(conds + [z3.Or(trig)]))
        rep.add(Query("key section path %d: key work (fetch/acquire/attest/publish) happens only if the state is not disabled and the host's key guid is absent or differs from the one in memory" % i,
                      "holds" if ok else "violated", "", 0, "mirsym+z3", key="C09.key-trigger", reproduced=None))
        if ne:
            gk = [e for e in ev[:first] if e.kind == "await" and e.callee.endswith("get_current_key_guid")]
            okops = any(derives(x, gk[-1].ret, ev) for x in ne[-1].rargs) if gk else False
            rep.add(Query("key section path %d: the comparison is between the document's keyGuid and the guid of the key in memory" % i, "holds" if okops else "violated", "", 0, "mirsym", key="C09.key-compare-operands", reproduced=None))
    rep.add(Query("witness: key section paths doing key work", "witness-hit" if n else "witness-missed", "%d" % n, 0, "mirsym"))
    rep.add(Query("witness: key section paths doing no key work", "witness-hit" if n_idle else "witness-missed", "%d" % n_idle, 0, "mirsym"))


def check_wrappers(rep, ctx):
    """update_*_rule_id / update_current_secure_channel_state: report `updated` iff the stored value differs, and store the new one."""
    for fn, getter, setter, tuple_ret in (("update_wireserver_rule_id", "get_wireserver_rule_id", "set_wireserver_rule_id", True), ("update_imds_rule_id", "get_imds_rule_id", "set_imds_rule_id", True),
                                          ("update_hostga_rule_id", "get_hostga_rule_id", "set_hostga_rule_id", True), ("update_current_secure_channel_state", "get_current_secure_channel_state", "set_secure_channel_state", False)):
        try:
            w = ctx.method("KeyKeeperSharedState", fn)
        except Inconclusive as ex:
            rep.add(Query("wrapper %s located" % fn, "inconclusive", str(ex), 0, "mirsym"))
            continue
        e0 = ctx.engine(); e0._reset([])
        wb = ctx.idx.body(w)
        co = e0.run_body(wb, [Sym(("arg", k + 1)) for k in range(wb.nargs)], 0)
        cap = {n: k for k, n in enumerate(co.names)}
        eng = ctx.engine()
        n_t = n_f = 0
        for i, r in enumerate(eng.explore(w + "::{closure#0}")):
            ev = r.events
            g = [e for e in ev if e.kind == "await" and e.callee.endswith(getter)]
            s_ = [e for e in ev if e.kind == "await" and e.callee.endswith(setter)]
            if not (isinstance(r.ret, Agg) and r.ret.variant == "Ok"):
                continue
            val = r.ret.fields[0]
            flag = val.fields[0] if tuple_ret and isinstance(val, Agg) else val
            newv = [v for k, v in cap.items() if k != "self"]
            new_arg = r.args[0].child(("f", newv[0])) if newv else None
            cm = [c for c in ev if c.kind == "streq"]
            if not g or not isinstance(flag, Scalar):
                rep.add(Query("wrapper %s path %d: shape" % (fn, i), "inconclusive", "getter %d compare %d" % (len(g), len(cm)), 0, "mirsym"))
                continue
            if not cm:
                # the path answers updated / not updated without having compared the stored value with the offered one
                # (e.g. an empty id - which is what a document without rules for the endpoint carries - taken as "nothing to do")
                rep.add(Query("wrapper %s path %d: reports updated <=> stored value differs from the offered one" % (fn, i), "violated",
                              "the path returns %s without comparing the stored and the offered value" % z3.simplify(flag.e), 0, "mirsym+z3", key="C09.wrapper:" + fn, reproduced=None))
                continue
            same = cm[-1].extra
            okops = any(derives(x, g[0].ret, ev) for x in cm[-1].rargs) and any(new_arg is not None and derives(x, new_arg, ev) for x in cm[-1].rargs)
            bad = add_query(rep, "wrapper %s path %d: reports updated <=> stored value differs from the offered one" % (fn, i), r.pc + [flag.e == same], key="C09.wrapper:" + fn)
            if bad or not okops:
                rep.add(Query("wrapper %s path %d: updated flag / operands wrong" % (fn, i), "violated", "operands ok %s" % okops, 0, "mirsym+z3", key="C09.wrapper:" + fn, reproduced=None))
            stored = len(s_) == 1 and new_arg is not None and derives(s_[0].rargs[1], new_arg, ev)
            if z3.is_true(z3.simplify(flag.e)):
                n_t += 1
                rep.add(Query("wrapper %s path %d: when updated, the offered value is stored" % (fn, i), "holds" if stored else "violated", "", 0, "mirsym", key="C09.wrapper-stores:" + fn, reproduced=None))
            else:
                n_f += 1
                rep.add(Query("wrapper %s path %d: when not updated, nothing is stored" % (fn, i), "holds" if not s_ else "violated", "", 0, "mirsym", key="C09.wrapper-stores:" + fn, reproduced=None))
        rep.add(Query("witness: wrapper %s has updated and not-updated paths" % fn, "witness-hit" if n_t and n_f else "witness-missed", "%d/%d" % (n_t, n_f), 0, "mirsym"))
        rep.functions_encoded.append(w + "::{closure#0}")


def check_getters(rep, ctx):
    """KeyStatus rule getters return the item of their own endpoint."""
    for getter, field in (("get_wireserver_rules", "wireserver"), ("get_imds_rules", "imds"), ("get_hostga_rules", "hostga")):
        w = ctx.method("KeyStatus", getter)
        eng = ctx.engine()
        ok = True
        n_some = 0
        for r in eng.explore(w):
            me = origin(r.args[0]).child("*")
            rules = me.child(("f", ctx.field("KeyStatus", "authorizationRules"))).child(("v", "Some", 0))
            want = rules.child("*").child(("f", ctx.field("AuthorizationRules", field))) if False else None
            v = r.ret
            if isinstance(v, Agg) and v.variant == "None":
                continue
            n_some += 1
            # the returned Option is (a clone of) authorizationRules.<field>
            names, base = conv_chain(v)
            o = origin(v)
            chain = []
            cur = o
            while isinstance(cur, Sym) and cur.tag[0] == "part":
                chain.append(cur.tag[2]); cur = origin(cur.tag[1])
            fidx = ctx.field("AuthorizationRules", field)
            if ("f", fidx) not in chain:
                ok = False
        rep.add(Query("KeyStatus::%s returns authorizationRules.%s" % (getter, field), "holds" if ok and n_some else "violated", "", 0, "mirsym", key="C09.getter:" + getter, reproduced=None))
        rep.functions_encoded.append(w)


def check_mode_getters(rep, ctx):
    """KeyStatus::get_wire_server_mode / get_imds_mode (version 2.0 branch): the value loop_poll compares with "disabled" is the
    LOWER-CASED mode of the endpoint's own rule item, or the literal "disabled" when there is none (so `Disabled` switches interception off
    like `disabled`). get_hostga_mode delegates to the WireServer mode (stated short-term design)."""
    from strterm import LOWER
    mode_idx = ctx.field("AuthorizationItem", "mode")
    for getter, field, rules_getter in (("get_wire_server_mode", "wireserver", "get_wireserver_rules"), ("get_imds_mode", "imds", "get_imds_rules")):
        try:
            w = ctx.method("KeyStatus", getter)
        except Inconclusive:
            continue
        eng = ctx.engine()
        n2 = 0
        for i, r in enumerate(eng.explore(w)):
            if r.status != "return":
                continue
            ver = [e for e in r.events if e.kind == "streq" and any(isinstance(origin(x), StrV) and origin(x).e.as_string() == "2.0" for x in e.rargs)]
            if not ver or not implied(r, ver[0].extra):
                continue          # version 1 documents: the mode is derived from secureChannelState (two constants)
            n2 += 1
            v = origin(r.ret)
            ok, detail = False, repr(r.ret)[:120]
            if isinstance(v, StrV):
                ok = v.e.as_string() == "disabled"
            else:
                lows = [e for e in r.events if e.kind == "call" and LOWER.search(e.callee) and same_origin(e.ret, v)]
                if lows:
                    src = origin(lows[0].rargs[0])
                    chain, cur = [], src
                    while isinstance(cur, Sym) and isinstance(cur.tag, tuple) and cur.tag[0] == "part":
                        chain.append(cur.tag[2]); cur = origin(cur.tag[1])
                    own = ("f", ctx.field("AuthorizationRules", field)) in chain or (isinstance(cur, Sym) and cur.tag[0] == "ret" and cur.tag[1].endswith(rules_getter))
                    ok = ("f", mode_idx) in chain and own
                    detail = "lowercase of %r" % (src,)
                else:
                    detail = "not lower-cased: %r" % (v,)
            rep.add(Query("KeyStatus::%s path %d (version 2.0): returns \"disabled\" or the lower-cased mode of the %s item" % (getter, i, field), "holds" if ok else "violated", detail, 0, "mirsym+z3",
                          key="C09.mode-getter:" + getter, reproduced=None))
        rep.add(Query("witness: %s has version 2.0 paths" % getter, "witness-hit" if n2 else "witness-missed", "%d" % n2, 0, "mirsym"))
        rep.functions_encoded.append(w)


def check_state_string(rep, ctx):
    """KeyStatus::get_secure_channel_state (v2.0): the WireServer and IMDS segments of the state string are decided by the
    mode of their OWN rule item, so a change of either mode changes the reported state (which is what triggers the policy update)."""
    w = ctx.method("KeyStatus", "get_secure_channel_state")
    eng = ctx.engine()
    paths = eng.explore(w)
    rep.functions_encoded.append(w)
    ar_idx = ctx.field("KeyStatus", "authorizationRules")
    n = 0
    for i, r in enumerate(paths):
        ret = r.ret
        if not (isinstance(ret, Agg) and ret.name == "fmt::Formatted"):
            continue
        leaves = [origin(l) for l in fmt_leaves(ret)]
        lits = [l.e.as_string() for l in leaves if isinstance(l, StrV)]
        n += 1
        me = origin(r.args[0]).child("*")
        rules = me.child(("f", ar_idx)).child(("v", "Some", 0))
        lows = [e for e in r.events if e.kind == "call" and e.callee.endswith("to_lowercase")]
        for seg, field in (("WireServer", "wireserver"), ("IMDS", "imds")):
            lit = [x for x in lits if x.strip().startswith(seg + " ")]
            if len(lit) != 1:
                rep.add(Query("state string path %d: one %s segment" % (i, seg), "violated", str(lits), 0, "mirsym", key="C09.state-string:" + seg, reproduced=None))
                continue
            word = lit[0].strip().split(" ", 1)[1].lower()
            item_opt = rules.child("*").child(("f", ctx.field("AuthorizationRules", field))) if False else None
            # the lower-cased mode of THIS endpoint's item on this path (if the item is present)
            mine = [e for e in lows if _mode_of(ctx, e.rargs[0], rules, field)]
            present = _present_flag(ctx, r, rules, field)
            m = mine[0].ret.string() if mine else z3.String("unread_mode_%s_%d" % (field, i))
            valid = z3.Or(m == z3.StringVal("enforce"), m == z3.StringVal("audit"), m == z3.StringVal("disabled"))
            pres = present if present is not None else z3.Bool("unread_presence_%s_%d" % (field, i))
            want = z3.If(z3.Not(pres), z3.StringVal("disabled"), m)
            bad = add_query(rep, "state string path %d: the %s segment says %s exactly when that endpoint's own item has that mode (absent item = disabled)" % (i, seg, word),
                            r.pc + [valid, want != z3.StringVal(word)], key="C09.state-string:" + seg)
            if bad:
                rep.add(Query("state string path %d: %s segment does not follow the %s item's mode" % (i, seg, field), "violated", "segment %r, model %s" % (lit[0], bad[0]), bad[1], "mirsym+z3",
                              key="C09.state-string:" + seg, model=bad[0], reproduced=None))
    rep.add(Query("witness: state string paths with three segments", "witness-hit" if n else "witness-missed", "%d" % n, 0, "mirsym"))


def _mode_of(ctx, v, rules, field):
    """v is the `mode` of the item stored under authorizationRules.<field>"""
    o = origin(v)
    chain = []
    cur = o
    for _ in range(12):
        if isinstance(cur, Sym) and cur.tag[0] == "part":
            chain.append(cur.tag[2]); cur = origin(cur.tag[1])
        else:
            break
    fidx = ("f", ctx.field("AuthorizationRules", field))
    midx = ("f", ctx.field("AuthorizationItem", "mode"))
    return fidx in chain and midx in chain and (cur is rules.root() or same_origin(cur, rules) or is_part_of(o, rules))


def _present_flag(ctx, r, rules, field):
    """z3 Bool: authorizationRules.<field> is Some, if the path looked at it"""
    fidx = ("f", ctx.field("AuthorizationRules", field))
    for c in r.pc:
        pass
    # the Option value itself
    cand = [rules.child("*").child(fidx), rules.child(fidx)]
    for c in cand:
        d = c.discr()
        if any(str(d) in str(x) for x in r.pc):
            return d == 1
    return None


def check_document_validity(rep, ctx):
    """'a poll that returns an invalid document changes nothing': get_status hands out a document only after validate() accepted it,
    and validate() accepts exactly the documents of the reference predicate (differential: implementation vs a short reference model,
    over every version text, presence of the two channel fields and every state text):
      valid <=> not(both channel fields missing) and (state present => lower(state) in {disabled, wireserver, wireserverandimds})
                and (state missing => version != "1.0") and (enabled missing => version != "2.0")"""
    # U1: get_status
    try:
        w = ctx.one("key::get_status") + "::{closure#0}"
    except Inconclusive as e:
        rep.add(Query("get_status located", "inconclusive", str(e), 0, "mirsym", key="C09.valid.get_status"))
        w = None
    if w:
        eng = ctx.engine(loop_bound=1)
        n = 0
        for i, r in enumerate(eng.explore(w)):
            if not (r.status == "return" and isinstance(r.ret, Agg) and r.ret.variant == "Ok"):
                continue
            n += 1
            doc = [e for e in r.events if e.kind == "await" and re.search(r"hyper_client::get$|(^|::)get$", e.callee)]
            va = [e for e in r.events if e.kind == "call" and e.callee.endswith("KeyStatus::validate")]
            ok = bool(doc) and len(va) >= 1 and derives(va[-1].rargs[0], doc[-1].ret, r.events) and implied(r, va[-1].ret.discr() == 0) and derives(r.ret.fields[0], doc[-1].ret, r.events)
            rep.add(Query("get_status path %d: a document is handed out only after validate() accepted that very document" % i, "holds" if ok else "violated", "validate calls %d" % len(va), 0, "mirsym+z3",
                          key="C09.valid.get_status", reproduced=None))
        rep.functions_encoded.append(w)
        rep.add(Query("witness: get_status has a succeeding path", "witness-hit" if n else "witness-missed", "%d" % n, 0, "mirsym"))
    # U2: validate against the reference
    try:
        w = ctx.method("KeyStatus", "validate")
    except Inconclusive as e:
        rep.add(Query("KeyStatus::validate located", "inconclusive", str(e), 0, "mirsym", key="C09.valid.reference"))
        return
    f_en, f_st, f_ver = ctx.field("KeyStatus", "secureChannelEnabled"), ctx.field("KeyStatus", "secureChannelState"), ctx.field("KeyStatus", "version")
    eng = ctx.engine(loop_bound=1, max_paths=4000)
    paths = eng.explore(w)
    rep.functions_encoded.append(w)
    n_ok = n_err = 0
    reported = set()
    for i, r in enumerate(paths):
        if r.status != "return" or not isinstance(r.ret, Agg):
            continue
        me = origin(r.args[0]).child("*")
        en, st, ver = me.child(("f", f_en)), me.child(("f", f_st)), me.child(("f", f_ver))
        en_some, st_some = en.discr() == 1, st.discr() == 1
        lows = [e for e in r.events if e.kind == "call" and re.search(r"to_lowercase$|to_ascii_lowercase$", e.callee) and derives(e.rargs[0], st, r.events)]
        if lows:
            lv = lows[0].ret.string()
            state_ok = z3.Or([lv == z3.StringVal(c) for c in ("disabled", "wireserver", "wireserverandimds")])
        else:
            state_ok = z3.Bool("state_ok_free_%d" % i)
        v = ver.string()
        valid = z3.And(z3.Not(z3.And(z3.Not(en_some), z3.Not(st_some))), z3.Implies(st_some, state_ok), z3.Implies(z3.Not(st_some), v != z3.StringVal("1.0")),
                       z3.Implies(z3.Not(en_some), v != z3.StringVal("2.0")))
        dom = [z3.Or(en.discr() == 0, en.discr() == 1), z3.Or(st.discr() == 0, st.discr() == 1)]
        is_ok = r.ret.variant == "Ok"
        n_ok += is_ok
        n_err += (not is_ok)
        qn = "validate path %d: %s <=> the reference predicate" % (i, "accepts" if is_ok else "rejects")
        bad = add_query(rep, qn, r.pc + dom + [valid != z3.BoolVal(is_ok)], key="C09.valid.reference")
        if bad:
            zm = bad[2]
            def tx(e):
                try:
                    return zm.eval(e, model_completion=True).as_string()
                except Exception:
                    return "?"
            desc = {"version": tx(v), "secureChannelEnabled": "present" if z3.is_true(zm.eval(en_some, model_completion=True)) else "missing",
                    "secureChannelState": (tx(lows[0].ret.string()) if lows else "present") if z3.is_true(zm.eval(st_some, model_completion=True)) else "missing"}
            k = json.dumps(desc, sort_keys=True)
            if k in reported:
                continue
            reported.add(k)
            rep.add(Query("validate %s a document the reference %s" % ("accepts" if is_ok else "rejects", "rejects" if is_ok else "accepts"), "violated", k, bad[1], "mirsym+z3", key="C09.valid.reference", model=desc, reproduced=None))
    rep.add(Query("witness: validate has accepting and rejecting paths", "witness-hit" if n_ok and n_err else "witness-missed", "%d/%d" % (n_ok, n_err), 0, "mirsym"))


def check_actor_slots(rep, ctx, tier):
    """The shared state the poll loop writes and the proxy reads is an actor with one slot per (endpoint, kind). The obligations above name
    its wrappers; this unit decides the slots themselves: after SetX(v) a GetX is answered with v, whatever other SetY came in between;
    and each wrapper sends the variants of its own slot and returns the reply."""
    w = ctx.method("KeyKeeperSharedState", "start_new")
    body = w + "::{closure#0}"
    if body not in ctx.idx.files or "KeyKeeperAction" not in ctx.enums:
        rep.add(Query("state actor located", "inconclusive", "", 0, "mirsym", key="C09.slots"))
        return
    variants = ctx.enums["KeyKeeperAction"]
    slots = [v[3:] for v in variants if v.startswith("Set") and ("Get" + v[3:]) in variants]
    rep.functions_encoded.append(body + " [message sequences SetX,GetX and SetX,SetY,GetX for %d slots]" % len(slots))

    def run(seq_names):
        seq = [variants.index(nm) for nm in seq_names]

        def hook(engine, ev):
            if ev.kind == "await" and ev.callee.endswith("recv"):
                n = sum(1 for e in engine.events if e.kind == "await" and e.callee.endswith("recv"))
                if n <= len(seq):
                    engine.require(ev.ret.discr() == 1)
                    engine.require(ev.ret.child(("v", "Some", 0)).discr() == seq[n - 1])
                else:
                    engine.require(ev.ret.discr() == 0)
        eng = ctx.engine(loop_bound=len(seq), max_paths=4000)
        eng.auto_inline = ctx.new_function_auto()
        eng.event_hook = hook
        n = n_ok = 0
        bad = ""
        for r in eng.explore(body):
            if r.status not in ("return", "cut"):
                continue
            rc = [e for e in r.events if e.kind == "await" and e.callee.endswith("recv")]
            if len(rc) < len(seq):
                continue
            sends = [e for e in r.events if e.kind == "call" and re.search(r"oneshot::Sender.*::send$", e.callee) and r.events.index(e) > r.events.index(rc[len(seq) - 1])]
            if not sends:
                continue
            n += 1
            payload = rc[0].ret.child(("v", "Some", 0)).child(("v", seq_names[0], 0))
            if same_origin(sends[0].rargs[1], payload):
                n_ok += 1
            else:
                bad = "reply %r is not the payload of %s" % (sends[0].rargs[1], seq_names[0])
        return n, n_ok, bad
    others = slots if tier == "thorough" else None
    for x in slots:
        n, n_ok, bad = run(["Set" + x, "Get" + x])
        st = "inconclusive" if n == 0 else ("holds" if n == n_ok else "violated")
        rep.add(Query("state actor: after Set%s(v) the reply to Get%s is v" % (x, x), st, bad[:200] or "%d paths" % n, 0, "mirsym+z3", key="C09.slots:" + x, reproduced=None))
        for y in slots:
            if y == x:
                continue
            n, n_ok, bad = run(["Set" + x, "Set" + y, "Get" + x])
            st = "inconclusive" if n == 0 else ("holds" if n == n_ok else "violated")
            rep.add(Query("state actor: Set%s does not change what Get%s answers" % (y, x), st, bad[:200] or "%d paths" % n, 0, "mirsym+z3", key="C09.slots:%s/%s" % (x, y), reproduced=None))
    # wrappers: the variants a wrapper sends belong to the slot its name says, a getter returns the reply, a setter sends its argument
    def norm(t):
        return re.sub(r"[^a-z0-9]", "", t.lower()).replace("current", "")
    src = open(os.path.join(ctx.src, "proxy_agent/src/shared_state/key_keeper_wrapper.rs"), errors="replace").read()
    names = re.findall(r"pub async fn ((?:get|set|update|clear)_\w+)\s*\(", src)
    for fn in names:
        try:
            wp = ctx.method("KeyKeeperSharedState", fn) + "::{closure#0}"
        except Inconclusive:
            continue
        if wp not in ctx.idx.files:
            continue
        eng = ctx.engine(loop_bound=2, max_paths=2000)
        slot = norm(re.sub(r"^(get|set|update|clear)_", "", fn))
        sent = set()
        ok_reply = True
        n = 0
        for r in eng.explore(wp):
            for e in r.events:
                if e.kind == "await" and re.search(r"mpsc::Sender::send$", e.callee) and len(e.rargs) > 1 and isinstance(e.rargs[1], Agg) and e.rargs[1].variant:
                    sent.add(e.rargs[1].variant)
            if fn.startswith("get_") and r.status == "return" and isinstance(r.ret, Sym):
                n += 1
        direct = [v for v in sent if norm(re.sub(r"^(Get|Set)", "", v)) != slot]
        if not sent:
            continue            # a wrapper built on other wrappers (get_current_key_value -> get_key): its callees are checked
        # key accessors go through GetKey/SetKey whatever part of the key they return
        if direct and all(norm(re.sub(r"^(Get|Set)", "", v)) == "key" for v in direct) and "key" in slot:
            direct = []
        rep.add(Query("state wrapper %s talks to its own slot only (sends %s)" % (fn, sorted(sent)), "holds" if not direct else "violated", "variants of another slot: %s" % direct, 0, "mirsym",
                      key="C09.slots.wrapper:" + fn, reproduced=None))
    rep.bounds["state actor"] = "%d slots; sequences of 2 and 3 messages from an arbitrary actor state" % len(slots)


def check_interception_unit(rep, ctx):
    """'each endpoint is intercepted exactly when its mode is not disabled': the state section passes mode != disabled to
    update_<endpoint>_redirect_policy; this unit decides what those three functions and BpfObject::update_redirect_policy do with it:
    the policy entry of THAT endpoint's address is inserted (value: the proxy's listener) when the flag is set and removed when it is not."""
    def ip_u32(dotted):
        a = [int(x) for x in dotted.split(".")]
        return a[0] | (a[1] << 8) | (a[2] << 16) | (a[3] << 24)          # network byte order read as a little-endian u32
    consts = {}
    for name in ("WIRE_SERVER_IP", "WIRE_SERVER_PORT", "GA_PLUGIN_IP", "GA_PLUGIN_PORT", "IMDS_IP", "IMDS_PORT"):
        e2 = ctx.engine(); e2._reset([])
        v = e2.eval_const("common::constants::" + name)
        consts[name] = (v.e.as_string() if isinstance(v, StrV) else (z3.simplify(v.e).as_long() if isinstance(v, Scalar) else None))
    for fn, ipn, portn in (("update_wire_server_redirect_policy", "WIRE_SERVER_IP", "WIRE_SERVER_PORT"), ("update_imds_redirect_policy", "IMDS_IP", "IMDS_PORT"),
                           ("update_hostga_redirect_policy", "GA_PLUGIN_IP", "GA_PLUGIN_PORT")):
        try:
            w = ctx.one("redirector::linux::" + fn) + "::{closure#0}"
        except Inconclusive as ex:
            rep.add(Query("%s located" % fn, "inconclusive", str(ex), 0, "mirsym", key="C09.intercept:" + fn))
            continue
        eng = ctx.engine(loop_bound=1)
        eng.auto_inline = ctx.new_function_auto()
        n = 0
        for i, r in enumerate(eng.explore(w)):
            if r.status != "return":
                continue
            env = origin(r.args[0])
            up = [e for e in r.events if e.kind == "call" and e.callee.endswith("update_redirect_policy")]
            bo = [e for e in r.events if e.kind == "await" and e.callee.endswith("get_bpf_object")]
            lp = [e for e in r.events if e.kind == "await" and e.callee.endswith("get_local_port")]
            avail = bool(bo) and bool(lp) and implied(r, z3.And(bo[0].ret.discr() == 0, bo[0].ret.child(("v", "Ok", 0)).discr() == 1, lp[0].ret.discr() == 0))
            if not avail:
                if up:
                    rep.add(Query("%s path %d: no policy update without the loaded object and the listener port" % (fn, i), "violated", "", 0, "mirsym", key="C09.intercept:" + fn, reproduced=None))
                continue
            n += 1
            ok = len(up) == 1
            detail = "update_redirect_policy calls %d" % len(up)
            if ok:
                a = up[0].rargs
                ipv = z3.simplify(a[1].e).as_long() if isinstance(a[1], Scalar) and z3.is_bv_value(z3.simplify(a[1].e)) else None
                pv = z3.simplify(a[2].e).as_long() if isinstance(a[2], Scalar) and z3.is_bv_value(z3.simplify(a[2].e)) else None
                ok = ipv == ip_u32(consts[ipn]) and pv == consts[portn] and derives(a[3], lp[0].ret, r.events) and same_origin(a[4], env.child(("f", 0))) and \
                    (derives(a[0], bo[0].ret, r.events) or any(e.kind == "call" and e.callee.endswith("Mutex::lock") and derives(a[0], e.ret, r.events) and derives(e.rargs[0], bo[0].ret, r.events) for e in r.events))
                detail = "address %s:%s (expected %s:%s = %s), flag is the argument %s" % (ipv, pv, consts[ipn], consts[portn], ip_u32(consts[ipn]), same_origin(a[4], env.child(("f", 0))))
            rep.add(Query("%s path %d: one policy update for %s:%s with the listener's port and the caller's flag, on the loaded object" % (fn, i, consts[ipn], consts[portn]), "holds" if ok else "violated", detail, 0, "mirsym",
                          key="C09.intercept:" + fn, reproduced=None))
        rep.functions_encoded.append(w)
        rep.add(Query("witness: %s has an updating path" % fn, "witness-hit" if n else "witness-missed", "%d" % n, 0, "mirsym"))
    # the map operation
    try:
        w = ctx.method("BpfObject", "update_redirect_policy")
    except Inconclusive as ex:
        rep.add(Query("BpfObject::update_redirect_policy located", "inconclusive", str(ex), 0, "mirsym", key="C09.intercept.map"))
        return
    eng = ctx.engine(loop_bound=1)
    n_ins = n_rem = 0
    for i, r in enumerate(eng.explore(w)):
        if r.status != "return":
            continue
        flag = origin(r.args[4]).scalar("bool")
        ins = [e for e in r.events if e.kind == "call" and re.search(r"HashMap::insert$", e.callee)]
        rem = [e for e in r.events if e.kind == "call" and re.search(r"HashMap::remove$", e.callee)]
        fi = [e for e in r.events if e.kind == "call" and e.callee.endswith("from_ipv4")]
        ta = [e for e in r.events if e.kind == "call" and e.callee.endswith("to_array")]
        mm = [e for e in r.events if e.kind == "call" and e.callee.endswith("map_mut")]
        if not ins and not rem:
            continue               # the map is not there / cannot be opened: logged
        def key_of(arr):
            t = [e for e in ta if e.ret is origin(arr)]
            f = [e for e in fi if t and e.ret is origin(t[0].rargs[0])]
            return f[0] if f else None
        if ins:
            n_ins += 1
            k, v = key_of(ins[0].rargs[1]), key_of(ins[0].rargs[2])
            sip = [e for e in r.events if e.kind == "call" and e.callee.endswith("string_to_ip")]
            ok = len(ins) == 1 and not rem and implied(r, flag) and k is not None and v is not None and same_origin(k.rargs[0], r.args[1]) and same_origin(k.rargs[1], r.args[2]) and \
                same_origin(v.rargs[1], r.args[3]) and bool(sip) and v.rargs[0] is sip[0].ret and isinstance(origin(mm[0].rargs[1]), StrV) and origin(mm[0].rargs[1]).e.as_string() == "policy_map"
            rep.add(Query("update_redirect_policy path %d: flag set => policy_map[(dest ip, dest port)] := (proxy ip, listener port)" % i, "holds" if ok else "violated", "", 0, "mirsym+z3", key="C09.intercept.map", reproduced=None))
        else:
            n_rem += 1
            k = key_of(rem[0].rargs[1])
            ok = len(rem) == 1 and implied(r, z3.Not(flag)) and k is not None and same_origin(k.rargs[0], r.args[1]) and same_origin(k.rargs[1], r.args[2])
            rep.add(Query("update_redirect_policy path %d: flag clear => policy_map entry of (dest ip, dest port) removed" % i, "holds" if ok else "violated", "", 0, "mirsym+z3", key="C09.intercept.map", reproduced=None))
    rep.functions_encoded.append(w)
    rep.add(Query("witness: update_redirect_policy has inserting and removing paths", "witness-hit" if n_ins and n_rem else "witness-missed", "%d/%d" % (n_ins, n_rem), 0, "mirsym"))


def check(rep, tier, seed):
    ctx = Ctx("agent")
    rep.extra["mir_dump"] = {"cache_hit": ctx.dump.cache_hit, "tree_hash": ctx.dump.hash, "seconds": round(ctx.dump.seconds, 1)}
    check_rules_section(rep, ctx)
    check_key_trigger(rep, ctx)
    check_state_section(rep, ctx)
    check_wrappers(rep, ctx)
    check_getters(rep, ctx)
    check_mode_getters(rep, ctx)
    check_state_string(rep, ctx)
    check_document_validity(rep, ctx)
    check_actor_slots(rep, ctx, tier)
    check_interception_unit(rep, ctx)
    rep.assumptions += ["the host's rule id identifies the rule content (rules are re-read only when the id changes)", "actor round-trips succeed in the convergence claim (a failed internal send is logged and retried by a later change)",
                        "Future::poll returns Ready"]
    rep.outside_claim += ["timing of polls", "rule items whose mode is none of enforce/audit/disabled (the state string calls them Disabled while get_*_mode returns the raw text)", "redirector map writes (C06)"]
    rep.trusted += ["mirsym", "z3"]
    import batteries
    batteries.confirm(rep, "C09")


def replay(path):
    print(open(path).read())
    return 0
