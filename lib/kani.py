"""Engine K: run Kani harnesses injected into a scratch copy of /repo."""
import os, re, shutil
from common import *


class FixedScratch:
    """Scratch copy at a fixed path (so cargo's dependency cache stays valid), guarded by a lock,
    source copy removed on exit, target dir (dependencies only matter) kept as a cache."""

    def __init__(self, tag):
        self.tag = tag
        self.base = os.path.join(CACHE, "src-" + tag)
        self.repo = os.path.join(self.base, "repo")
        self.target = os.path.join(CACHE, "target-" + tag)
        self.lock = Lock("src-" + tag)

    def __enter__(self):
        self.lock.__enter__()
        os.makedirs(self.base, exist_ok=True)
        rc, out, err, _ = run(["rsync", "-a", "--delete", "--exclude", "/target", "--exclude", ".git", REPO + "/", self.repo + "/"])
        if rc != 0:
            self.lock.__exit__()
            raise RuntimeError("rsync failed: " + err)
        return self

    def __exit__(self, *a):
        shutil.rmtree(self.base, ignore_errors=True)
        self.lock.__exit__()


def inject(repo_dir, rel_file, harness_file, modname):
    path = os.path.join(repo_dir, rel_file)
    if not os.path.exists(path):
        return False
    with open(path, "a") as f:
        f.write('\n#[cfg(kani)]\n#[path = "%s"]\nmod %s;\n' % (harness_file, modname))
    return True


def parse_kani_output(out):
    """-> {harness: {'status': 'SUCCESSFUL'|'FAILED'|None, 'failed': [desc], 'checks': n, 'covers': (sat, total),
                      'time': s}}"""
    res = {}
    cur = None
    for line in out.splitlines():
        m = re.match(r"Checking harness (\S+?)\.\.\.", line)
        if m:
            cur = m.group(1)
            res[cur] = {"status": None, "failed": [], "checks": 0, "covers": None, "time": 0.0, "unwind_fail": False}
            continue
        if cur is None:
            continue
        r = res[cur]
        m = re.match(r"\s*- Status: (\w+)", line)
        if m:
            r["_last_status"] = m.group(1)
            r["checks"] += 1
            continue
        m = re.match(r"\s*- Description: \"(.*)\"", line)
        if m and r.get("_last_status") in ("FAILURE", "UNDETERMINED", "UNREACHABLE"):
            if r["_last_status"] == "FAILURE":
                r["failed"].append(m.group(1))
                if "unwinding assertion" in m.group(1):
                    r["unwind_fail"] = True
            continue
        m = re.match(r"\s*\*\* (\d+) of (\d+) cover properties satisfied", line)
        if m:
            r["covers"] = (int(m.group(1)), int(m.group(2)))
            continue
        m = re.match(r"VERIFICATION:- (\w+)", line)
        if m:
            r["status"] = m.group(1)
            continue
        m = re.match(r"Verification Time: ([\d.]+)s", line)
        if m:
            r["time"] = float(m.group(1))
    return res


def run_kani(rep, scratch, package, injections, expect_fail_prefixes=("twin_must_fail",), timeout=1800, extra=None, jobs=8,
             harness_filter=None, label=""):
    """injections: [(relative source file, absolute harness file, module name)].
    Adds one Query per harness to rep. Harness names containing an expect_fail marker are vacuity twins."""
    for rel, hf, mod in injections:
        if not inject(scratch.repo, rel, hf, mod):
            rep.add(Query("kani inject %s" % rel, "inconclusive", "anchored source file not found", 0, "kani"))
            return {}
    env = dict(ENV)
    env["CARGO_TARGET_DIR"] = scratch.target
    cmd = ["cargo", "kani", "-p", package, "-Z", "stubbing", "--output-format", "regular"]
    if harness_filter:
        for h in harness_filter:
            cmd += ["--harness", h]
    if extra:
        cmd += extra
    rc, out, err, secs = run(cmd, cwd=scratch.repo, env=env, timeout=timeout)
    res = parse_kani_output(out)
    if not res:
        rep.add(Query("kani %s %s" % (package, label), "inconclusive", "no harness output rc=%s: %s" % (rc, (out + err)[-1500:]), secs, "kani"))
        return res
    for h, r in sorted(res.items()):
        short = h.split("::")[-1]
        twin = any(p in short for p in expect_fail_prefixes)
        r.pop("_last_status", None)
        if r["status"] is None:
            rep.add(Query("kani %s" % short, "inconclusive", "no verdict (timeout %ss? rc=%s)" % (timeout, rc), r["time"], "kani/cbmc"))
        elif twin:
            ok = r["status"] == "FAILED" and not r["unwind_fail"]
            rep.add(Query("kani vacuity twin %s (must fail)" % short, "witness-hit" if ok else "witness-missed",
                          "; ".join(r["failed"][:3]), r["time"], "kani/cbmc"))
        elif r["status"] == "SUCCESSFUL":
            cov = r["covers"]
            if cov and cov[0] < cov[1]:
                rep.add(Query("kani %s" % short, "witness-missed", "only %d of %d cover! witnesses satisfied" % cov, r["time"], "kani/cbmc"))
            else:
                rep.add(Query("kani %s" % short, "holds", "%d checks, covers %s" % (r["checks"], cov), r["time"], "kani/cbmc", key=short))
        else:
            if r["unwind_fail"] and len([f for f in r["failed"] if "unwinding" not in f]) == 0:
                rep.add(Query("kani %s" % short, "inconclusive", "unwinding assertion failed: bound too small", r["time"], "kani/cbmc", key=short))
            else:
                rep.add(Query("kani %s" % short, "violated", "; ".join(r["failed"][:5]), r["time"], "kani/cbmc", key=short))
    return res
