"""Entry point: /verif/check <id> --tier quick|thorough"""
import argparse, importlib, os, sys, traceback
sys.path.insert(0, os.path.dirname(os.path.abspath(__file__)))
from common import *

MODULES = {"C06": "p_c06", "C20": "p_c20", "C03": "p_c03", "C01": "p_c01", "C05": "p_c05", "C11": "p_c11", "C15": "p_c15", "C07": "p_c07", "C10": "p_c10", "C04": "p_c04", "C02": "p_c02", "C08": "p_c08", "C09": "p_c09", "C16": "p_c16", "C13": "p_c13", "C18": "p_c18", "C19": "p_c19", "C12": "p_c12", "C14": "p_c14", "C17": "p_c17"}


def main():
    ap = argparse.ArgumentParser()
    ap.add_argument("pid")
    ap.add_argument("--tier", default=os.environ.get("VERIF_TIER", "quick"), choices=["quick", "thorough"])
    ap.add_argument("--replay", default=None)
    a = ap.parse_args()
    seed = int(os.environ.get("VERIF_SEED", "0") or 0)
    if a.pid not in MODULES:
        log("no check registered for %s" % a.pid)
        return 2
    mod = importlib.import_module(MODULES[a.pid])
    if a.replay:
        return mod.replay(a.replay)
    rep = Report(a.pid, a.tier, seed)
    try:
        mod.check(rep, a.tier, seed)
    except Exception as e:
        traceback.print_exc()
        rep.add(Query("check machinery", "inconclusive", "exception: %r" % (e,), 0, "python"))
    if os.environ.get("VERIF_AUDIT_UNINT"):
        try:
            import mcommon, json
            un = mcommon.audit_uninterpreted()
            enc = set(rep.functions_encoded)
            json.dump({"property": a.pid, "uninterpreted_crate_callees": un, "functions_encoded": sorted(enc)}, open(os.environ["VERIF_AUDIT_UNINT"], "w"), indent=1)
        except Exception as e:
            log("audit failed: %r" % (e,))
    return rep.finish()


if __name__ == "__main__":
    sys.exit(main())
