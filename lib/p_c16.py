"""C16 provisioning status is truthful under any arrival order (engine M + z3 schedule search). DESIGN.md 4/C16."""
from mcommon import *
import p_c11
from p_c08 import derives, implied


def const_flag(v):
    v = origin(v)
    if isinstance(v, ConstV):
        return v.text.split("::")[-1]
    nm = getattr(v, "const_name", None)
    return nm.split("::")[-1] if nm else None


def actor_semantics(rep, ctx):
    """Read the provision actor's arms from MIR: which operator updates the flags, what SetProvisionFinished stores, what is replied."""
    w = ctx.method("ProvisionSharedState", "start_new")
    cands = [p for p in ctx.idx.files if p.startswith(w + "::{closure")]
    if len(cands) != 1 or "ProvisionAction" not in ctx.enums:
        raise Inconclusive("provision actor body not found")
    body = cands[0]
    rep.functions_encoded.append(body)
    sem = {}
    OPS = {"bitor_assign": "or", "insert": "or", "bitxor_assign": "xor", "toggle": "xor", "remove": "andnot", "bitand_assign": "and"}

    def arm_op(variant):
        """(operator applied to the flags with the message's flag, reply is the post-state) read from the arm's events"""
        ps = p_c11.explore_actor_arm(ctx, body, "ProvisionAction", variant)
        for r in ps:
            rc = [e for e in r.events if e.kind == "await" and e.callee.endswith("recv")]
            msg = rc[0].ret.child(("v", "Some", 0))
            fl = [e for e in r.events if e.kind == "call" and re.search(r"(ProvisionFlags as \w+>::\w+|provision::_::\w+|ProvisionFlags::\w+)$", e.callee) and not re.search(r"(clone|fmt|bits|contains)$", e.callee)]
            sd = [e for e in r.events if e.kind == "call" and e.callee.endswith("Sender::send")]
            nots = [e for e in fl if e.callee.endswith("::not")]
            muts = [e for e in fl if not e.callee.endswith("::not")]
            if len(muts) != 1 or len(sd) != 1:
                return None, False
            m_ = muts[0]
            name = m_.callee.split("::")[-1]
            op = OPS.get(name)
            arg = m_.rargs[1]
            if op == "and":
                op = "andnot" if (len(nots) == 1 and arg is nots[0].ret and is_part_of(nots[0].rargs[0], msg)) else None
            elif op is not None:
                if not is_part_of(arg, msg):
                    op = None
            reply_post = origin(sd[0].rargs[1]) is origin(m_.rargs[0]) and r.events.index(m_) < r.events.index(sd[0])
            return op, reply_post
        return None, False
    for variant, key, label in (("UpdateState", "update", "UpdateState"), ("ResetState", "reset", "ResetState")):
        op, post = arm_op(variant)
        sem[key] = op if post else None
        rep.add(Query("actor %s: the flags are combined with the message's flag by a recognised operator (%s) and the reply is the flags AFTER the update, in one message" % (label, op),
                      "holds" if op and post else "inconclusive", "", 0, "mirsym", key="C16.actor." + key))
    ps = p_c11.explore_actor_arm(ctx, body, "ProvisionAction", "SetProvisionFinished")
    seen_true = seen_false = False
    okf = True
    for r in ps:
        rc = [e for e in r.events if e.kind == "await" and e.callee.endswith("recv")]
        msg = rc[0].ret.child(("v", "Some", 0))
        sd = [e for e in r.events if e.kind == "call" and e.callee.endswith("Sender::send")]
        now = [e for e in r.events if e.kind == "call" and e.callee.endswith("get_date_time_unix_nano")]
        if len(sd) != 1:
            okf = False
            continue
        val = sd[0].rargs[1]
        fin = None
        for c in r.pc:
            pass
        if now:
            seen_true = True
            okf = okf and same_origin(val, now[0].ret)
        else:
            seen_false = True
            okf = okf and isinstance(val, Scalar) and z3.is_bv_value(z3.simplify(val.e)) and z3.simplify(val.e).as_long() == 0
    rep.add(Query("actor SetProvisionFinished: true stores the current time tick, false stores 0", "holds" if okf and seen_true and seen_false else "violated", "", 0, "mirsym", key="C16.actor.finished", reproduced=None))
    sem["finished"] = okf and seen_true and seen_false
    return sem


def task_sequences(rep, ctx):
    """Message sequences of the tasks, read from MIR."""
    seqs = {}
    # reporter
    w = ctx.one("provision::update_provision_state")
    eng = ctx.engine()
    ok = True
    n_fin = 0
    for r in eng.explore(w + "::{closure#0}"):
        ev = r.events
        up = [e for e in ev if e.kind == "await" and e.callee.endswith("update_one_state")]
        gs = [e for e in ev if e.kind == "await" and e.callee.endswith("ProvisionSharedState::get_state")]
        ct = [e for e in ev if e.kind == "call" and re.search(r"(^|::)contains$", e.callee)]
        sf = [e for e in ev if e.kind == "await" and e.callee.endswith("set_provision_finished")]
        if len(up) != 1 or gs:
            ok = False
            continue
        if sf:
            n_fin += 1
            good = len(ct) >= 1 and derives(ct[0].rargs[0], up[0].ret.child(("v", "Ok", 0)), ev) and const_flag(ct[0].rargs[1]) == "ALL_READY" and implied(r, ct[0].ret.scalar("bool")) \
                and isinstance(sf[0].rargs[1], Scalar) and z3.is_true(z3.simplify(sf[0].rargs[1].e)) and ev.index(up[0]) < ev.index(sf[0])
            ok = ok and good
        else:
            # not finished: either the update failed or the reply lacks a flag
            if ct:
                ok = ok and implied(r, z3.Not(ct[0].ret.scalar("bool")))
    rep.add(Query("reporter task: one UpdateState message; `finished` is set iff the REPLY of that very message contains ALL_READY (no separate read)", "holds" if ok and n_fin else "violated", "", 0, "mirsym+z3",
                  key="C16.task.reporter", reproduced=None))
    seqs["reporter_uses_reply"] = ok and n_fin > 0
    rep.functions_encoded.append(w + "::{closure#0}")
    # the three public reporters are exactly one report of their own flag: nothing else is sent to the provision actor from them
    # (a shortcut that stamps `finished` without reporting the flag loses the report and re-dates the finish)
    for fn, flag in (("redirector_ready", "REDIRECTOR_READY"), ("key_latched", "KEY_LATCH_READY"), ("listener_started", "LISTENER_READY")):
        try:
            wf = ctx.one("provision::" + fn)
        except Inconclusive:
            continue
        engf = ctx.engine()
        okr, detail = True, ""
        for r in engf.explore(wf + "::{closure#0}"):
            if r.status != "return":
                continue
            ups = [e for e in r.events if e.kind == "await" and e.callee.endswith("update_provision_state")]
            others = [e.callee.split("::")[-1] for e in r.events if e.kind == "await" and re.search(r"ProvisionSharedState::\w+$", e.callee)]
            good = len(ups) == 1 and const_flag(ups[0].rargs[0]) == flag and not others
            if not good:
                okr = False
                detail = "reports %d (flag %s), other actor messages %s" % (len(ups), const_flag(ups[0].rargs[0]) if ups else None, others)
        rep.add(Query("reporter %s: every path is exactly one update_provision_state(%s) and no other message to the provision actor" % (fn, flag), "holds" if okr else "violated", detail, 0, "mirsym",
                      key="C16.task.reporter:" + fn, reproduced=None))
        rep.functions_encoded.append(wf + "::{closure#0}")
    # reset
    w = ctx.one("provision::reset_provision_state")
    eng = ctx.engine()
    ok = True
    for r in eng.explore(w + "::{closure#0}"):
        ev = r.events
        rs = [e for e in ev if e.kind == "await" and e.callee.endswith("reset_one_state")]
        ct = [e for e in ev if e.kind == "call" and re.search(r"(^|::)contains$", e.callee)]
        sf = [e for e in ev if e.kind == "await" and e.callee.endswith("set_provision_finished")]
        if len(rs) != 1:
            ok = False
        if sf:
            ok = ok and len(ct) == 1 and derives(ct[0].rargs[0], rs[0].ret.child(("v", "Ok", 0)), ev) and const_flag(ct[0].rargs[1]) == "ALL_READY" and same_origin(sf[0].rargs[1], ct[0].ret)
    rep.add(Query("reset task: one ResetState message, then finished := (reply contains ALL_READY)", "holds" if ok else "violated", "", 0, "mirsym", key="C16.task.reset", reproduced=None))
    seqs["reset_ok"] = ok
    rep.functions_encoded.append(w + "::{closure#0}")
    # deadline
    w = ctx.one("provision::provision_timeup")
    eng = ctx.engine()
    ok = True
    for r in eng.explore(w + "::{closure#0}"):
        ev = r.events
        gs = [e for e in ev if e.kind == "await" and e.callee.endswith("ProvisionSharedState::get_state")]
        ct = [e for e in ev if e.kind == "call" and re.search(r"(^|::)contains$", e.callee)]
        sf = [e for e in ev if e.kind == "await" and e.callee.endswith("set_provision_finished")]
        if sf:
            ok = ok and len(ct) == 1 and implied(r, z3.Not(ct[0].ret.scalar("bool"))) and isinstance(sf[0].rargs[1], Scalar) and z3.is_true(z3.simplify(sf[0].rargs[1].e))
        elif ct:
            ok = ok and implied(r, ct[0].ret.scalar("bool"))
    rep.add(Query("deadline task: reads the flags and sets finished(true) iff they are not ALL_READY", "holds" if ok else "violated", "", 0, "mirsym+z3", key="C16.task.deadline", reproduced=None))
    seqs["deadline_ok"] = ok
    rep.functions_encoded.append(w + "::{closure#0}")
    return seqs


def check_message(rep, ctx):
    w = ctx.one("provision::get_provision_failed_state_message")
    eng = ctx.engine()
    names = {"REDIRECTOR_READY": "ebpfProgramStatus", "KEY_LATCH_READY": "keyLatchStatus", "LISTENER_READY": "proxyListenerStatus"}
    import strterm
    n = 0
    for i, r in enumerate(eng.explore(w + "::{closure#0}")):
        ev = r.events
        gs = [e for e in ev if e.kind == "await" and e.callee.endswith("get_state")]
        ct = [e for e in ev if e.kind == "call" and re.search(r"(^|::)contains$", e.callee)]
        ps = [e for e in ev if e.kind == "call" and e.callee.endswith("push_str")]
        if len(gs) != 1:
            rep.add(Query("failed-state message path %d: the flags are read once" % i, "violated", "%d reads" % len(gs), 0, "mirsym", key="C16.message.one-read", reproduced=None))
            continue
        n += 1
        mentioned = set()
        for e in ps:
            for l in fmt_leaves(e.rargs[1]):
                pass
            txt = repr(e.rargs[1])
            for flag, word in names.items():
                if word in txt:
                    mentioned.add(flag)
        for c in ct:
            flag = const_flag(c.rargs[1])
            if flag not in names:
                continue
            src_ok = derives(c.rargs[0], gs[0].ret, ev) or isinstance(origin(c.rargs[0]), ConstV) or const_flag(c.rargs[0]) == "NONE"
            clear = z3.Not(c.ret.scalar("bool"))
            bad = add_query(rep, "failed-state message path %d: %s is named <=> its flag is clear in the flags read by this query" % (i, names[flag]),
                            r.pc + [z3.BoolVal(flag in mentioned) != clear], key="C16.message:" + flag)
            if bad or not src_ok:
                rep.add(Query("failed-state message path %d: %s naming wrong" % (i, names[flag]), "violated", "mentioned %s" % sorted(mentioned), 0, "mirsym+z3", key="C16.message:" + flag, reproduced=None))
    rep.add(Query("witness: failed-state message paths", "witness-hit" if n else "witness-missed", "%d" % n, 0, "mirsym"))
    rep.functions_encoded.append(w + "::{closure#0}")


def check_status_file(rep, ctx):
    w = ctx.one("provision::write_provision_state")
    eng = ctx.engine()
    n = 0
    for i, r in enumerate(eng.explore(w + "::{closure#0}")):
        ev = r.events
        wr = [e for e in ev if e.kind == "call" and re.search(r"(^|::)write$", e.callee)]
        rn = [e for e in ev if e.kind == "call" and re.search(r"(^|::)rename$", e.callee)]
        js = [e for e in ev if e.kind == "call" and e.callee.endswith("Path::join") or e.kind == "call" and e.callee.endswith("PathBuf::join")]

        def name_of(v):
            o = origin(v)
            for e in js:
                if e.ret is o or same_origin(e.ret, o):
                    a = origin(e.rargs[1])
                    if isinstance(a, StrV):
                        return a.e.as_string()
            return None
        direct = [e for e in wr if name_of(e.rargs[0]) == "status.tag"]
        # any other way of putting bytes under the final name (copy onto it, create / open it for writing) is a rewrite in place as well
        direct += [e for e in ev if e.kind == "call" and re.search(r"(^|::)copy$", e.callee) and len(e.rargs) > 1 and name_of(e.rargs[1]) == "status.tag"]
        direct += [e for e in ev if e.kind == "call" and re.search(r"File::create$|OpenOptions::open$", e.callee) and name_of(e.rargs[-1]) == "status.tag"]
        rep.add(Query("write_provision_state path %d: status.tag is never written in place" % i, "holds" if not direct else "violated", "", 0, "mirsym", key="C16.file.no-direct-write", reproduced=None))
        for e in rn:
            n += 1
            tmpw = [x for x in wr if name_of(x.rargs[0]) == "status.tag.tmp" and ev.index(x) < ev.index(e)]
            ok = name_of(e.rargs[0]) == "status.tag.tmp" and name_of(e.rargs[1]) == "status.tag" and len(tmpw) == 1 and implied(r, tmpw[0].ret.discr() != 1)        # the write did not fail (however the code spells the test: match Ok / if let Err)
            rep.add(Query("write_provision_state path %d: status.tag is replaced by rename(status.tag.tmp) after a successful complete write of the tmp file" % i, "holds" if ok else "violated", "", 0, "mirsym+z3",
                          key="C16.file.rename-after-write", reproduced=None))
    rep.add(Query("witness: write_provision_state renames on some path", "witness-hit" if n else "witness-missed", "%d" % n, 0, "mirsym"))
    rep.functions_encoded.append(w + "::{closure#0}")


def check_query_formula(rep, ctx):
    """handle_provision_state_check_request: finished := tick >= query tick || latched  (from MIR), and what that means when tick = 0."""
    w = ctx.method("ProxyServer", "handle_provision_state_check_request")
    eng = ctx.engine()
    found = False
    zero_cex = None
    for i, r in enumerate(eng.explore(w + "::{closure#0}")):
        ev = r.events
        ns = [e for e in ev if e.kind == "call" and e.callee.endswith("ProvisionState::new")]
        gp = [e for e in ev if e.kind == "await" and e.callee.endswith("get_provision_state_internal")]
        lat = [e for e in ev if e.kind == "call" and e.callee.endswith("is_secure_channel_latched")]
        if not ns or not gp:
            continue
        found = True
        fin = ns[0].rargs[0]
        if isinstance(fin, Sym):
            fin = Scalar(fin.scalar("bool"))
        tick = gp[0].ret.child(("f", ctx.field("ProvisionStateInternal", "finished_time_tick")), "i128").scalar("i128")
        if not isinstance(fin, Scalar):
            rep.add(Query("provision query path %d: finished flag is a boolean expression" % i, "inconclusive", repr(fin), 0, "mirsym"))
            continue
        # the query tick: whatever i128 the finished flag compares the tick with
        latched = lat[0].ret.scalar("bool") if lat else z3.BoolVal(False)
        q = z3.BitVec("query_tick_%d" % i, 128)
        # identify q by solving: exists a bit-vector term in fin; easier: check the shape by equivalence with a fresh q is impossible; use substitution through the parse result
        qs = [e for e in ev if e.kind == "call" and re.search(r"parse$", e.callee)]
        qv = None
        if qs:
            qv = qs[-1].ret.child(("v", "Ok", 0), "i128").scalar("i128")
        refs = []
        if qv is not None:
            refs.append(z3.Or(z3.And(tick != 0, tick >= qv), latched))
        refs.append(z3.Or(z3.And(tick != 0, tick >= z3.BitVecVal(0, 128)), latched))   # the default when the header is absent / unparsable
        ok = False
        for ref in refs:
            rs, _m, _dt, _zm = check_sat(r.pc + [fin.e != ref])
            if rs == "unsat":
                ok = True
        rep.add(Query("provision query path %d: finished == (finished_time_tick != 0 && finished_time_tick >= query tick) || secure channel latched" % i, "holds" if ok else "violated", str(z3.simplify(fin.e))[:200], 0, "mirsym+z3",
                      key="C16.query.formula", reproduced=None))
        # tick == 0 means "still in progress" (actor arm above): can the answer be `finished` then, without a latched channel?
        rs, m, dt, zm = check_sat(r.pc + [fin.e, tick == 0, z3.Not(latched)])
        if rs == "sat":
            zero_cex = (i, m, dt)
    if not found:
        rep.add(Query("provision query handler located", "inconclusive", "", 0, "mirsym"))
    rep.functions_encoded.append(w + "::{closure#0}")
    return zero_cex


ZERO_TEST = '''
#[cfg(test)]
mod verif_replay_c16 {
    // A query that names no instant (header absent -> 0) on a fresh agent: nothing has reported ready, the deadline has not passed,
    // the channel is not latched; the reported `finished` must be false.
    #[tokio::test(flavor = "current_thread")]
    async fn c16_unfinished_provisioning_is_not_reported_finished() {
        let provision = crate::shared_state::provision_wrapper::ProvisionSharedState::start_new();
        let agent_status = crate::shared_state::agent_status_wrapper::AgentStatusSharedState::start_new();
        let key_keeper = crate::shared_state::key_keeper_wrapper::KeyKeeperSharedState::start_new();
        let st = crate::provision::get_provision_state_internal(provision, agent_status, key_keeper).await;
        let query_time_tick: i128 = 0; // what handle_provision_state_check_request uses without the x-ms-azure-time_tick header
        let report_provision_finished = st.finished_time_tick >= query_time_tick || st.is_secure_channel_latched();
        assert!(st.finished_time_tick == 0 && !st.is_secure_channel_latched(), "precondition: fresh state");
        assert!(!report_provision_finished, "finished reported while provisioning is still in progress (finished_time_tick = 0)");
    }
}
'''


def schedule_search(rep, sem, seqs, tier):
    """All interleavings of 3 reporters, 1 key-latch reset, the deadline handler and 1 query, on the actor semantics read above."""
    if not (sem.get("update") and sem.get("reset") and sem.get("finished") and seqs.get("reset_ok") and seqs.get("deadline_ok")):
        rep.add(Query("schedule search preconditions (actor/task semantics recognised)", "inconclusive", "%s %s" % (sem, seqs), 0, "z3", key="C16.schedules"))
        return
    uses_reply = seqs.get("reporter_uses_reply")
    # messages: (task, index in task, kind, arg)
    msgs = []
    for t, flag in enumerate((1, 2, 4)):
        msgs.append(("rep%d" % t, 0, "update", flag))
        if not uses_reply:
            msgs.append(("rep%d" % t, 1, "getstate", 0))
        msgs.append(("rep%d" % t, 2, "setfin_rep", t))
    msgs += [("reset", 0, "reset", 2), ("reset", 1, "setfin_reset", 0), ("dl", 0, "getstate_dl", 0), ("dl", 1, "setfin_dl", 0), ("q", 0, "getfin", 0)]
    N = len(msgs)
    s = z3.Solver()
    s.set("timeout", 600000)
    pos = [z3.Int("pos_%s_%d" % (m[0], m[1])) for m in msgs]
    for p in pos:
        s.add(p >= 0, p < N)
    s.add(z3.Distinct(*pos))
    for i, a in enumerate(msgs):
        for j, b in enumerate(msgs):
            if a[0] == b[0] and a[1] < b[1]:
                s.add(pos[i] < pos[j])
    flags = [z3.BitVec("flags_%d" % k, 8) for k in range(N + 1)]
    tick = [z3.Int("tick_%d" % k) for k in range(N + 1)]
    s.add(flags[0] == 0, tick[0] == 0)
    reply = {}       # per message index: observed flags
    for i in range(N):
        reply[i] = z3.BitVec("reply_%d" % i, 8)
    allready = [z3.Bool("allready_at_%d" % k) for k in range(N)]
    dlfired = [z3.Bool("deadline_fired_at_%d" % k) for k in range(N)]
    for k in range(N):
        nf, nt = flags[k], tick[k]
        ar, df = z3.BoolVal(False), z3.BoolVal(False)
        for i, m in enumerate(msgs):
            here = pos[i] == k
            kind = m[2]
            if kind in ("update", "reset"):
                op = sem["update"] if kind == "update" else sem["reset"]
                f_ = z3.BitVecVal(m[3], 8)
                post = {"or": flags[k] | f_, "andnot": flags[k] & ~f_, "xor": flags[k] ^ f_}[op]
                nf = z3.If(here, post, nf)
                s.add(z3.Implies(here, reply[i] == post))
            elif kind in ("getstate", "getstate_dl"):
                s.add(z3.Implies(here, reply[i] == flags[k]))
            elif kind == "setfin_rep":
                src = [j for j, x in enumerate(msgs) if x[0] == m[0] and x[2] == ("update" if uses_reply else "getstate")][0]
                en = (reply[src] & 7) == 7
                nt = z3.If(z3.And(here, en), k + 1, nt)          # time tick = position + 1 (strictly increasing clock)
            elif kind == "setfin_reset":
                src = [j for j, x in enumerate(msgs) if x[0] == "reset" and x[2] == "reset"][0]
                nt = z3.If(here, z3.If((reply[src] & 7) == 7, k + 1, 0), nt)
            elif kind == "setfin_dl":
                src = [j for j, x in enumerate(msgs) if x[2] == "getstate_dl"][0]
                en = (reply[src] & 7) != 7
                nt = z3.If(z3.And(here, en), k + 1, nt)
                df = z3.Or(df, z3.And(here, en))
            elif kind == "getfin":
                s.add(z3.Implies(here, z3.Int("q_tick_seen") == tick[k]))
        s.add(flags[k + 1] == nf, tick[k + 1] == nt)
        s.add(allready[k] == (flags[k + 1] == 7), dlfired[k] == df)
    qi = [j for j, x in enumerate(msgs) if x[2] == "getfin"][0]
    qt = z3.Int("query_names_tick")
    s.add(qt >= 1)                                 # a query that names a real instant
    seen = z3.Int("q_tick_seen")
    finished = seen >= qt                           # not latched
    # "all three have reported ready": each reporter's UpdateState message was processed before the query's read
    upd = [j for j, x in enumerate(msgs) if x[2] == "update"]
    reported = z3.And([pos[j] < pos[qi] for j in upd])
    justified = z3.Or(reported, z3.Or([z3.And(pos[qi] > k, dlfired[k]) for k in range(N)]))
    s.add(finished, z3.Not(justified))
    t0 = time.time()
    r = s.check()
    dt = time.time() - t0
    name = "all interleavings of 3 readiness reports, 1 key-latch reset, the deadline handler and 1 query (%d messages): finished => all three subsystems had reported ready, or the deadline fired, before the query's read" % N
    if r == z3.unsat:
        rep.add(Query(name, "holds", "", dt, "z3", key="C16.schedules"))
    elif r == z3.sat:
        m = s.model()
        order = sorted([(m.eval(pos[i]).as_long(), "%s.%s" % (msgs[i][0], msgs[i][2])) for i in range(N)])
        sched = [x[1] for x in order]
        st, path = replay_schedule(sched)
        if st == "FAILED":
            rep.traces_validated += 1
        rep.add(Query(name, "violated" if st in ("FAILED", "ok") else "inconclusive", "schedule %s; replayed message by message on the real provision actor: %s" % (sched, st), dt, "z3", key="C16.schedules",
                      model={"schedule": sched}, replay=path, reproduced=True if st == "FAILED" else (False if st == "ok" else None)))
    else:
        rep.add(Query(name, "inconclusive", "z3: %s" % r, dt, "z3", key="C16.schedules"))
    rep.bounds["schedules"] = "%d actor messages: 3 reporters, 1 reset, 1 deadline, 1 query; every total order respecting each task's program order" % N


def replay_schedule(sched):
    """Execute the solver's schedule message by message on the real actor (each step is one actor round-trip of the real wrapper)."""
    import replay as rp
    lines = []
    flag = {"rep0": "REDIRECTOR_READY", "rep1": "KEY_LATCH_READY", "rep2": "LISTENER_READY"}
    for m in sched:
        t, k = m.split(".")
        if k == "update":
            lines.append("let r_%s = st.update_one_state(ProvisionFlags::%s).await.unwrap(); reported += 1;" % (t, flag[t]))
        elif k == "getstate":
            lines.append("let r_%s = st.get_state().await.unwrap();" % t)
        elif k == "setfin_rep":
            lines.append("if r_%s.contains(ProvisionFlags::ALL_READY) { st.set_provision_finished(true).await.unwrap(); }" % t)
        elif k == "reset":
            lines.append("let r_reset = st.reset_one_state(ProvisionFlags::KEY_LATCH_READY).await.unwrap();")
        elif k == "setfin_reset":
            lines.append("st.set_provision_finished(r_reset.contains(ProvisionFlags::ALL_READY)).await.unwrap();")
        elif k == "getstate_dl":
            lines.append("let r_dl = st.get_state().await.unwrap();")
        elif k == "setfin_dl":
            lines.append("if !r_dl.contains(ProvisionFlags::ALL_READY) { st.set_provision_finished(true).await.unwrap(); deadline = true; }")
        elif k == "getfin":
            lines.append("let tick = st.get_provision_finished().await.unwrap(); let finished = tick != 0 && tick >= 1; "
                         "assert!(!finished || reported == 3 || deadline, \"finished reported with only {} of 3 subsystems having reported ready and no deadline\", reported);")
    code = """
#[cfg(test)]
mod verif_replay_c16_schedule {
    use crate::provision::ProvisionFlags;
    use crate::shared_state::provision_wrapper::ProvisionSharedState;
    #[tokio::test(flavor = "current_thread")]
    async fn c16_schedule() {
        let st = ProvisionSharedState::start_new();
        let mut reported = 0; let mut deadline = false;
        let _ = (&mut reported, &mut deadline);
        %s
    }
}
""" % "\n        ".join(lines)
    res, out = rp.run_rust_tests("azure-proxy-agent", [("proxy_agent/src/provision.rs", code)], "verif_replay_c16_schedule")
    path = save_replay("C16", "schedule_replay.rs", "// append to proxy_agent/src/provision.rs; cargo test -p azure-proxy-agent verif_replay_c16_schedule\n" + code)
    return (res or {}).get("c16_schedule"), path


def check_state_internal_unit(rep, ctx):
    """what a query reads (get_provision_state_internal, named by the handler formula): on EVERY path the tick is the reply to
    get_provision_finished of this query, the error text is the failed-state message computed by this query (never skipped or cached) and
    the channel state is the key keeper's current one"""
    try:
        w = ctx.one("provision::get_provision_state_internal") + "::{closure#0}"
    except Inconclusive as ex:
        rep.add(Query("get_provision_state_internal located", "inconclusive", str(ex), 0, "mirsym", key="C16.state-internal"))
        return
    f = {n: ctx.field("ProvisionStateInternal", n) for n in ("finished_time_tick", "error_message", "key_keeper_secure_channel_state")}
    eng = ctx.engine(loop_bound=1)
    n = 0
    for i, r in enumerate(eng.explore(w)):
        if r.status != "return":
            continue
        n += 1
        ev = r.events
        st = r.ret
        gf = [e for e in ev if e.kind == "await" and e.callee.endswith("get_provision_finished")]
        fm = [e for e in ev if e.kind == "await" and e.callee.endswith("get_provision_failed_state_message")]
        cs = [e for e in ev if e.kind == "await" and e.callee.endswith("get_current_secure_channel_state")]
        ok = isinstance(st, Agg) and len(st.fields) >= 3 and len(fm) == 1 and same_origin(st.fields[f["error_message"]], fm[0].ret) and len(gf) == 1 and derives(st.fields[f["finished_time_tick"]], gf[0].ret, ev) and \
            len(cs) == 1 and derives(st.fields[f["key_keeper_secure_channel_state"]], cs[0].ret, ev)
        detail = "failed-state message computed %d time(s); error text field %r" % (len(fm), st.fields[f["error_message"]] if isinstance(st, Agg) and len(st.fields) > f["error_message"] else None)
        rep.add(Query("get_provision_state_internal path %d: tick, error text and channel state are this query's own readings (the error text is computed on every path)" % i, "holds" if ok else "violated", detail[:200], 0, "mirsym",
                      key="C16.state-internal", reproduced=None))
    rep.functions_encoded.append(w)
    rep.add(Query("witness: get_provision_state_internal explored", "witness-hit" if n else "witness-missed", "%d" % n, 0, "mirsym"))


def check_query_client(rep, ctx):
    """'at or after the instant the query names': the query side names its instant on EVERY poll it sends (a poll without the tick
    header is answered for instant 0, i.e. "finished" as soon as any finish tick exists, whenever that finish happened)"""
    try:
        w = ctx.method("ProvisionQuery", "get_current_provision_status") + "::{closure#0}"
    except Inconclusive as ex:
        rep.add(Query("ProvisionQuery::get_current_provision_status located", "inconclusive", str(ex), 0, "mirsym", key="C16.query-client"))
        return
    TICK = None
    e2 = ctx.engine(); e2._reset([])
    try:
        v = e2.eval_const("common::constants::TIME_TICK_HEADER")
        TICK = v.e.as_string() if isinstance(v, StrV) else None
    except Exception:
        TICK = None
    fidx = ctx.field("ProvisionQuery", "query_time_tick")
    eng = ctx.engine(loop_bound=1)
    n = 0
    for i, r in enumerate(eng.explore(w)):
        sends = [e for e in r.events if e.kind == "call" and re.search(r"hyper_client::get$|(^|::)get$|send_request$", e.callee) and len(e.rargs) >= 2]
        if not sends:
            continue
        n += 1
        env = origin(r.args[0])
        hdrs = origin(sends[0].rargs[1])
        ins = [e for e in r.events if e.kind == "call" and e.callee.endswith("HashMap::insert") and same_origin(e.rargs[0], hdrs) and isinstance(origin(e.rargs[1]), StrV)
               and origin(e.rargs[1]).e.as_string().lower() == (TICK or "x-ms-azure-time_tick").lower() and r.events.index(e) < r.events.index(sends[0])]
        ok = len(ins) == 1 and derives(ins[0].rargs[2], env, r.events) and ("f.%d" % fidx) in repr(ins[0].rargs[2])
        rep.add(Query("provision query client path %d: the poll carries the time-tick header with the instant of this query" % i, "holds" if ok else "violated",
                      "tick header inserts before the request: %d" % len(ins), 0, "mirsym", key="C16.query-client", reproduced=None))
    rep.functions_encoded.append(w)
    rep.add(Query("witness: the provision query client sends a poll", "witness-hit" if n else "witness-missed", "%d" % n, 0, "mirsym"))


def check(rep, tier, seed):
    ctx = Ctx("agent")
    rep.extra["mir_dump"] = {"cache_hit": ctx.dump.cache_hit, "tree_hash": ctx.dump.hash, "seconds": round(ctx.dump.seconds, 1)}
    sem = actor_semantics(rep, ctx)
    seqs = task_sequences(rep, ctx)
    check_message(rep, ctx)
    check_state_internal_unit(rep, ctx)
    check_query_client(rep, ctx)
    check_status_file(rep, ctx)
    zero = check_query_formula(rep, ctx)
    schedule_search(rep, sem, seqs, tier)
    qn = "a query that names no instant (tick 0) is not answered `finished` while finished_time_tick is 0 (= provisioning still in progress) and the channel is not latched"
    if zero is None:
        rep.add(Query(qn, "holds", "", 0, "mirsym+z3", key="C16.query.zero-tick"))
    else:
        rep.add(Query(qn, "violated", "z3 model on handler path %d: %s" % (zero[0], zero[1]), zero[2], "mirsym+z3", key="C16.query.zero-tick", model=zero[1], reproduced=None))
    # the wrappers the task sequences are written in terms of
    for fn, variant, arg in (("update_one_state", "UpdateState", 1), ("reset_one_state", "ResetState", 1), ("get_state", "GetState", None),
                             ("set_provision_finished", "SetProvisionFinished", 1), ("get_provision_finished", "GetProvisionFinished", None)):
        wrapper_variant_unit(rep, ctx, "ProvisionSharedState", fn, variant, "C16.wrapper:" + fn, payload_arg=arg)
    rep.assumptions += ["the provision actor processes one message at a time", "the clock is strictly increasing between actor messages", "Future::poll returns Ready"]
    rep.outside_claim += ["two concurrent writers of status.tag.tmp", "more than one reset / query in flight"]
    rep.trusted += ["mirsym", "z3"]

    import e2e
    e2e.confirm(rep, "C16")


def replay(path):
    print(open(path).read())
    return 0
