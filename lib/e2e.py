"""Native end-to-end replay of handler-level counterexamples.

A generated `#[cfg(test)]` module is appended to the scratch copy of proxy_server.rs (child module: sees the private
handler) and a `#[cfg(test)]` constructor to proxy_connection.rs (stands in for the kernel attribution record; the
connection context is otherwise the real one, with a live hyper sender to a mock host on 127.0.0.1). Nothing is added to
/repo. Each scenario asserts the PROPERTY on the concrete counterexample: FAILED = reproduced."""
import json
from common import *
import replay

CTX_HOOK = '''
#[cfg(test)]
impl TcpConnectionContext {
    /// verification replay only: a connection context built from a hand-made attribution record
    pub(crate) async fn verif_new(id: u128, client_addr: SocketAddr, claims: Option<Claims>, dest: Option<(Ipv4Addr, u16)>, mock_host_port: Option<u16>) -> Self {
        let sender = match mock_host_port {
            Some(p) => match hyper_client::build_http_sender("127.0.0.1", p, |_| {}).await {
                Ok(sender) => Ok(Arc::new(Mutex::new(Client { sender }))),
                Err(e) => Err(e.to_string()),
            },
            None => Err("no host".to_string()),
        };
        Self { id, client_addr, claims, destination_ip: dest.map(|d| d.0), destination_port: dest.map(|d| d.1).unwrap_or(0), sender, logger: ConnectionLogger::new(id, 0) }
    }
}
'''

HARNESS = '''
#[cfg(test)]
mod verif_e2e {
    use super::*;
    use hyper_util::rt::TokioIo;
    use std::io::{Read, Write};
    use tower::Service;

    pub struct Outcome { pub status: u16, pub body: String, pub host_requests: Vec<String>, pub failed_summaries: usize, pub raw_response: String, pub raw: Vec<u8> }

    pub struct Scenario {
        pub attributed: bool, pub elevated: bool, pub dest: (std::net::Ipv4Addr, u16), pub rules: Option<(&'static str, &'static str)>, // (mode, defaultAccess) for the destination's endpoint
        pub key: bool, pub raw_request: String, pub host_response: Option<Vec<u8>>,
        /// rules published for the endpoints that are NOT the destination (mode, default access)
        pub other_rules: Option<(&'static str, &'static str)>,
    }

    const KEY_JSON: &str = r#"{"authorizationScheme":"Azure-HMAC-SHA256","guid":"9cf81e97-0316-4ad3-94a7-8ccbdee8ddbf","issued":"2021-05-05T12:00:00Z","key":"4A404E635266556A586E3272357538782F413F4428472B4B6250645367566B59"}"#;

    pub async fn run(sc: Scenario) -> Outcome {
        let shared_state = crate::shared_state::SharedState::start_all();
        let kk = shared_state.get_key_keeper_shared_state();
        if sc.key {
            let key: crate::key_keeper::key::Key = serde_json::from_str(KEY_JSON).unwrap();
            kk.update_key(key).await.unwrap();
        }
        if let Some((mode, default)) = sc.rules {
            let item = crate::key_keeper::key::AuthorizationItem { defaultAccess: default.to_string(), mode: mode.to_string(), id: "verif".to_string(), rules: None };
            if sc.dest == ("168.63.129.16".parse().unwrap(), 80) { kk.set_wireserver_rules(Some(item)).await.unwrap(); }
            else if sc.dest == ("168.63.129.16".parse().unwrap(), 32526) { kk.set_hostga_rules(Some(item)).await.unwrap(); }
            else if sc.dest == ("169.254.169.254".parse().unwrap(), 80) { kk.set_imds_rules(Some(item)).await.unwrap(); }
        }
        if let Some((mode, default)) = sc.other_rules {
            let item = || crate::key_keeper::key::AuthorizationItem { defaultAccess: default.to_string(), mode: mode.to_string(), id: "verif-other".to_string(), rules: None };
            if sc.dest != ("168.63.129.16".parse().unwrap(), 80) { kk.set_wireserver_rules(Some(item())).await.unwrap(); }
            if sc.dest != ("168.63.129.16".parse().unwrap(), 32526) { kk.set_hostga_rules(Some(item())).await.unwrap(); }
            if sc.dest != ("169.254.169.254".parse().unwrap(), 80) { kk.set_imds_rules(Some(item())).await.unwrap(); }
        }
        let proxy_server = ProxyServer::new(0, &shared_state);
        // mock host: records every request head + body it receives, answers 200
        let host_listener = std::net::TcpListener::bind("127.0.0.1:0").unwrap();
        host_listener.set_nonblocking(false).unwrap();
        let host_port = host_listener.local_addr().unwrap().port();
        let seen = std::sync::Arc::new(std::sync::Mutex::new(Vec::<String>::new()));
        let seen2 = seen.clone();
        let host_response: Vec<u8> = sc.host_response.clone().unwrap_or_else(|| b"HTTP/1.1 200 OK\\r\\ncontent-length: 0\\r\\n\\r\\n".to_vec());
        std::thread::spawn(move || {
            if let Ok((mut s, _)) = host_listener.accept() {
                let _ = s.set_read_timeout(Some(std::time::Duration::from_millis(1500)));
                let mut buf = Vec::new();
                let mut tmp = [0u8; 65536];
                loop {
                    match s.read(&mut tmp) { Ok(0) => break, Ok(n) => { buf.extend_from_slice(&tmp[..n]);
                        // one request = head + content-length bytes of body
                        while let Some(i) = buf.windows(4).position(|w| w == b"\\r\\n\\r\\n") {
                            let head = String::from_utf8_lossy(&buf[..i]).to_lowercase();
                            let cl = head.lines().find_map(|l| l.strip_prefix("content-length:").map(|v| v.trim().parse::<usize>().unwrap_or(0))).unwrap_or(0);
                            if buf.len() < i + 4 + cl { break; }
                            seen2.lock().unwrap().push(String::from_utf8_lossy(&buf[..i + 4 + cl]).to_string());
                            let _ = s.write_all(&host_response);
                            buf.drain(..i + 4 + cl);
                        } }
                        Err(_) => break }
                }
            }
        });
        let front = tokio::net::TcpListener::bind("127.0.0.1:0").await.unwrap();
        let front_port = front.local_addr().unwrap().port();
        let agent_status = shared_state.get_agent_status_shared_state();
        let (attributed, elevated, dest) = (sc.attributed, sc.elevated, sc.dest);
        tokio::spawn(async move {
            let (stream, client_addr) = front.accept().await.unwrap();
            let claims = crate::proxy::Claims { userId: if elevated { 0 } else { 1000 }, userName: "verif".to_string(), userGroups: vec!["verif".to_string()], processId: 4242,
                processName: std::ffi::OsString::from("verif"), processFullPath: std::path::PathBuf::from("/usr/bin/verif"), processCmdLine: "verif".to_string(), runAsElevated: elevated,
                clientIp: client_addr.ip().to_string(), clientPort: client_addr.port() };
            let ctx = if attributed { TcpConnectionContext::verif_new(1, client_addr, Some(claims), Some(dest), Some(host_port)).await }
                      else { TcpConnectionContext::verif_new(1, client_addr, None, None, None).await };
            let service = hyper::service::service_fn(move |req| {
                let proxy_server = proxy_server.clone();
                let ctx = ctx.clone();
                let limit = if crate::common::hyper_client::should_skip_sig(req.method(), req.uri()) { REQUEST_BODY_LARGE_LIMIT_SIZE } else { REQUEST_BODY_LOW_LIMIT_SIZE };
                let mut svc = tower::ServiceBuilder::new().layer(RequestBodyLimitLayer::new(limit))
                    .service_fn(move |req: Request<_>| proxy_server.clone().handle_new_http_request(req, ctx.clone()));
                svc.call(req)
            });
            let _ = hyper::server::conn::http1::Builder::new().serve_connection(TokioIo::new(stream), service).await;
        });
        let raw = sc.raw_request.clone();
        let resp = tokio::task::spawn_blocking(move || {
            let mut c = std::net::TcpStream::connect(("127.0.0.1", front_port)).unwrap();
            c.set_read_timeout(Some(std::time::Duration::from_secs(5))).unwrap();
            c.write_all(raw.as_bytes()).unwrap();
            let mut out = Vec::new();
            let mut tmp = [0u8; 65536];
            loop { match c.read(&mut tmp) { Ok(0) => break, Ok(n) => { out.extend_from_slice(&tmp[..n]);
                    if let Some(i) = out.windows(4).position(|w| w == b"\\r\\n\\r\\n") { let head = &String::from_utf8_lossy(&out[..i]).to_lowercase();
                        let cl = head.lines().find_map(|l| l.strip_prefix("content-length:").map(|v| v.trim().parse::<usize>().unwrap_or(0))).unwrap_or(0);
                        let chunked = head.lines().any(|l| l.starts_with("transfer-encoding:") && l.contains("chunked"));
                        if chunked { if out.ends_with(b"0\\r\\n\\r\\n") { break; } } else if out.len() >= i + 4 + cl { break; } } }
                Err(_) => break } }
            out
        }).await.unwrap();
        let raw = resp;
        let resp = String::from_utf8_lossy(&raw).to_string();
        tokio::time::sleep(std::time::Duration::from_millis(100)).await;
        let status = resp.split_whitespace().nth(1).and_then(|s| s.parse::<u16>().ok()).unwrap_or(0);
        let body = resp.split("\\r\\n\\r\\n").nth(1).unwrap_or("").to_string();
        let failed = agent_status.get_all_failed_connection_summary().await.map(|v| v.iter().map(|s| s.count as usize).sum()).unwrap_or(0);
        let host_requests = seen.lock().unwrap().clone();
        shared_state.get_cancellation_token().cancel();
        Outcome { status, body, host_requests, failed_summaries: failed, raw_response: resp, raw }
    }
    pub fn find(h: &[u8], n: &[u8]) -> Option<usize> { h.windows(n.len()).position(|w| w == n) }
    /// body bytes of a raw HTTP/1.1 response (de-chunked if chunked)
    pub fn body_bytes(raw: &[u8]) -> Vec<u8> {
        let i = match find(raw, b"\\r\\n\\r\\n") { Some(i) => i + 4, None => return Vec::new() };
        let head = String::from_utf8_lossy(&raw[..i]).to_lowercase();
        let mut rest = &raw[i..];
        if !head.contains("transfer-encoding: chunked") { return rest.to_vec(); }
        let mut out = Vec::new();
        loop {
            let j = match find(rest, b"\\r\\n") { Some(j) => j, None => break };
            let n = usize::from_str_radix(String::from_utf8_lossy(&rest[..j]).trim(), 16).unwrap_or(0);
            if n == 0 { break; }
            let start = j + 2;
            if rest.len() < start + n { out.extend_from_slice(&rest[start.min(rest.len())..]); break; }
            out.extend_from_slice(&rest[start..start + n]);
            rest = &rest[(start + n + 2).min(rest.len())..];
        }
        out
    }
    pub fn dechunk(raw: &str) -> String { String::from_utf8_lossy(&body_bytes(raw.as_bytes())).to_string() }
%(tests)s
}
'''


def scenario_rs(attributed=True, elevated=True, dest=("168.63.129.16", 80), rules=None, key=False, raw_request="GET /machine?comp=goalstate HTTP/1.1\r\nhost: 127.0.0.1\r\n\r\n", host_response=None, other_rules=None):
    return 'Scenario { attributed: %s, elevated: %s, dest: ("%s".parse().unwrap(), %d), rules: %s, key: %s, raw_request: %s.to_string(), host_response: %s, other_rules: %s }' % (
        "true" if attributed else "false", "true" if elevated else "false", dest[0], dest[1],
        "None" if rules is None else 'Some(("%s", "%s"))' % rules, "true" if key else "false", json.dumps(raw_request, ensure_ascii=False),
        "None" if host_response is None else "Some(%s.to_vec())" % bytes_lit(host_response),
        "None" if other_rules is None else 'Some(("%s", "%s"))' % other_rules)


def bytes_lit(b):
    """Rust byte-string literal of python bytes / str"""
    if isinstance(b, str):
        b = b.encode("utf-8")
    return 'b"' + "".join(chr(c) if (32 <= c < 127 and c not in (34, 92)) else "\\x%02x" % c for c in b) + '"'


def test_rs(name, scenario, assertion, message):
    return '''
    #[tokio::test(flavor = "multi_thread", worker_threads = 2)]
    async fn %s() {
        let o = run(%s).await;
        assert!(%s, "%s: status {} body {:?} host saw {:?} failed-summaries {}", o.status, o.body, o.host_requests, o.failed_summaries);
    }
''' % (name, scenario, assertion, message)


def run_e2e(tests_code, names):
    code = HARNESS % {"tests": tests_code}
    res, out = replay.run_rust_tests("azure-proxy-agent", [("proxy_agent/src/proxy/proxy_connection.rs", CTX_HOOK), ("proxy_agent/src/proxy/proxy_server.rs", code)], "verif_e2e", timeout=2400, no_args=True)
    return {n: (res or {}).get(n) for n in names}, out, code


# ---------------------------------------------------------------------------------------------------------------
# Batteries: concrete end-to-end scenarios per property, each asserting the property. They are only run when a check
# has solver/trace violations that are not yet replayed; a FAILED scenario confirms the violation natively.
BIG = "x" * 102401


def battery(pid):
    T = []
    if pid in ("C01", "C03"):
        T += [("e2e_unattributed_is_421_and_not_relayed", scenario_rs(attributed=False), "o.status == 421 && o.host_requests.is_empty()", "a direct (unattributed) connection must get 421 and reach no host"),
              ("e2e_traversal_is_404_and_not_relayed", scenario_rs(raw_request="GET /machine/../secret HTTP/1.1\r\nhost: x\r\n\r\n"), "o.status == 404 && o.host_requests.is_empty()", "a path with .. must get 404"),
              ("e2e_dotdot_inside_a_segment_is_404_and_not_relayed", scenario_rs(raw_request="GET /metadata/instance/..;/identity HTTP/1.1\r\nhost: x\r\n\r\n"), "o.status == 404 && o.host_requests.is_empty()", "a path containing .. (not as a whole segment) must get 404"),
              ("e2e_dotdot_in_a_name_is_404_and_not_relayed", scenario_rs(raw_request="GET /x..y HTTP/1.1\r\nhost: x\r\n\r\n"), "o.status == 404 && o.host_requests.is_empty()", "a path containing .. must get 404"),
              ("e2e_three_dots_is_404_and_not_relayed", scenario_rs(raw_request="GET /.../z HTTP/1.1\r\nhost: x\r\n\r\n"), "o.status == 404 && o.host_requests.is_empty()", "a path containing .. must get 404"),
              ("e2e_non_elevated_wireserver_no_rules_is_403", scenario_rs(elevated=False, rules=None), "o.status == 403 && o.host_requests.is_empty()", "non-elevated caller to WireServer with no rules published must get 403"),
              ("e2e_non_elevated_wireserver_is_403", scenario_rs(elevated=False), "o.status == 403 && o.host_requests.is_empty()", "non-elevated caller to WireServer must get 403"),
              ("e2e_non_elevated_hostga_audit_is_403", scenario_rs(elevated=False, dest=("168.63.129.16", 32526), rules=("audit", "allow")), "o.status == 403 && o.host_requests.is_empty()", "non-elevated caller to HostGAPlugin must get 403 in audit mode too"),
              ("e2e_self_destination_is_403", scenario_rs(dest=("127.0.0.1", 3080)), "o.status == 403 && o.host_requests.is_empty()", "a request whose destination is the proxy listener must get 403"),
              ("e2e_enforced_denial_imds_is_403", scenario_rs(dest=("169.254.169.254", 80), rules=("enforce", "deny")), "o.status == 403 && o.host_requests.is_empty()", "enforced denial must get 403 and reach no host"),
              ("e2e_enforced_denial_hostga_is_403", scenario_rs(dest=("168.63.129.16", 32526), rules=("enforce", "deny")), "o.status == 403 && o.host_requests.is_empty()", "enforced hostga denial must get 403"),
              ("e2e_enforced_denial_wireserver_is_403", scenario_rs(rules=("enforce", "deny")), "o.status == 403 && o.host_requests.is_empty()", "enforced wireserver denial must get 403"),
              # the two signature-exempt upload requests are authorized like every other request
              ("e2e_non_elevated_agent_log_upload_is_403", scenario_rs(elevated=False, dest=("168.63.129.16", 32526), raw_request="PUT /vmAgentLog HTTP/1.1\r\nhost: x\r\ncontent-length: 3\r\n\r\nabc"),
               "o.status == 403 && o.host_requests.is_empty()", "non-elevated PUT /vmAgentLog to HostGAPlugin must get 403"),
              ("e2e_non_elevated_telemetry_upload_is_403", scenario_rs(elevated=False, raw_request="POST /machine/?comp=telemetrydata HTTP/1.1\r\nhost: x\r\ncontent-length: 3\r\n\r\nabc"),
               "o.status == 403 && o.host_requests.is_empty()", "non-elevated POST telemetry to WireServer must get 403"),
              ("e2e_self_destination_agent_log_upload_is_403", scenario_rs(dest=("127.0.0.1", 3080), raw_request="PUT /vmAgentLog HTTP/1.1\r\nhost: x\r\ncontent-length: 3\r\n\r\nabc"),
               "o.status == 403 && o.host_requests.is_empty()", "PUT /vmAgentLog with the proxy listener as destination must get 403"),
              ("e2e_non_elevated_second_request_of_a_connection_is_403", scenario_rs(elevated=False, raw_request="GET /a HTTP/1.1\r\nhost: x\r\n\r\nGET /a HTTP/1.1\r\nhost: x\r\n\r\n"),
               "o.status == 403 && o.host_requests.is_empty()", "every request of a non-elevated caller to WireServer is refused, not only the first"),
              # each endpoint is governed by its own rule slot: the destination's rules deny in enforce mode, the other endpoints' rules are disabled / allow
              ("e2e_hostga_enforced_denial_with_other_endpoints_disabled_is_403", scenario_rs(dest=("168.63.129.16", 32526), rules=("enforce", "deny"), other_rules=("disabled", "allow")),
               "o.status == 403 && o.host_requests.is_empty()", "HostGAPlugin denial must be enforced whatever the WireServer / IMDS rules say"),
              ("e2e_imds_enforced_denial_with_other_endpoints_disabled_is_403", scenario_rs(dest=("169.254.169.254", 80), rules=("enforce", "deny"), other_rules=("disabled", "allow")),
               "o.status == 403 && o.host_requests.is_empty()", "IMDS denial must be enforced whatever the other endpoints' rules say"),
              ("e2e_wireserver_allowed_with_other_endpoints_denying_is_relayed", scenario_rs(rules=("enforce", "allow"), other_rules=("enforce", "deny")),
               "o.status == 200 && o.host_requests.len() == 1", "a WireServer request allowed by the WireServer rules is relayed whatever the other endpoints' rules say"),
              ("e2e_authorized_is_relayed_once", scenario_rs(), "o.status == 200 && o.host_requests.len() == 1", "an attributed, authorized request is relayed exactly once")]
    if pid == "C05":
        hdrs = "x-ms-azure-host-claims: { \\\"isRoot\\\": \\\"true\\\"}\r\nX-MS-AZURE-HOST-CLAIMS: spoof2\r\nx-ms-azure-host-date: Thu, 01 Jan 1970 00:00:00 GMT\r\nX-Ms-Azure-Host-Date: Fri, 02 Jan 1970 00:00:00 GMT\r\nx-ms-azure-host-authorization: Azure-HMAC-SHA256 0 deadbeef\r\n"
        req = "GET /metadata/instance HTTP/1.1\r\nhost: x\r\n" + hdrs.replace('\\"', '"') + "\r\n"
        count = lambda h: 'o.host_requests.len() == 1 && o.host_requests[0].to_lowercase().matches("\\r\\n%s:").count() == 1' % h
        T += [("e2e_one_claims_header_from_the_proxy", scenario_rs(elevated=False, dest=("169.254.169.254", 80), key=True, raw_request=req),
               count("x-ms-azure-host-claims") + ' && o.host_requests[0].contains("\\"isRoot\\": \\"false\\"") && !o.host_requests[0].contains("spoof2")', "exactly one claims header, stating the kernel-attested elevation"),
              ("e2e_one_date_header_from_the_proxy", scenario_rs(elevated=False, dest=("169.254.169.254", 80), key=True, raw_request=req), count("x-ms-azure-host-date") + ' && !o.host_requests[0].contains("1970")', "exactly one date header, not the client's"),
              ("e2e_one_date_header_from_the_proxy_on_the_exempt_upload_path", scenario_rs(dest=("168.63.129.16", 32526), key=True, raw_request="PUT /vmAgentLog HTTP/1.1\r\nhost: x\r\n" + hdrs.replace('\\"', '"') + "content-length: 3\r\n\r\nabc"),
               count("x-ms-azure-host-date") + ' && !o.host_requests[0].contains("1970") && ' + count("x-ms-azure-host-claims").split(" && ", 1)[1] + ' && !o.host_requests[0].contains("spoof2")', "the signature-exempt upload path carries exactly one proxy-made date and claims header too"),
              ("e2e_client_authorization_naming_the_current_key_never_reaches_host", scenario_rs(elevated=False, dest=("169.254.169.254", 80), key=True,
                                                                                                  raw_request="GET /metadata/instance HTTP/1.1\r\nhost: x\r\nx-ms-azure-host-authorization: Azure-HMAC-SHA256 9cf81e97-0316-4ad3-94a7-8ccbdee8ddbf deadbeef\r\n\r\n"),
               count("x-ms-azure-host-authorization") + ' && !o.host_requests[0].contains("deadbeef")', "a client authorization value that names the scheme and the current key id is replaced like any other"),
              ("e2e_client_authorization_never_reaches_host_when_signed", scenario_rs(elevated=False, dest=("169.254.169.254", 80), key=True, raw_request=req), count("x-ms-azure-host-authorization") + ' && !o.host_requests[0].contains("deadbeef")', "the client's authorization header is replaced by the proxy's")]
    if pid == "C11":
        T += [("e2e_hostga_enforced_denial_with_other_endpoints_disabled_is_403_and_recorded", scenario_rs(dest=("168.63.129.16", 32526), rules=("enforce", "deny"), other_rules=("disabled", "allow")),
               "o.status == 403 && o.host_requests.is_empty() && o.failed_summaries == 1", "the mode that decides for HostGAPlugin is HostGAPlugin's own"),
              ("e2e_hostga_audit_denial_with_other_endpoints_enforcing_is_relayed_and_recorded", scenario_rs(dest=("168.63.129.16", 32526), rules=("audit", "deny"), other_rules=("enforce", "deny")),
               "o.status == 200 && o.host_requests.len() == 1 && o.failed_summaries == 1", "audit on HostGAPlugin relays although the other endpoints enforce"),
              ("e2e_enforce_deny_403_recorded_once", scenario_rs(dest=("169.254.169.254", 80), elevated=False, rules=("enforce", "deny")), "o.status == 403 && o.host_requests.is_empty() && o.failed_summaries == 1", "enforce: 403, nothing relayed, one record"),
              ("e2e_audit_deny_relayed_recorded_once", scenario_rs(dest=("169.254.169.254", 80), elevated=False, rules=("audit", "deny")), "o.status == 200 && o.host_requests.len() == 1 && o.failed_summaries == 1", "audit: relayed like an allowed request, one record"),
              ("e2e_allowed_not_recorded", scenario_rs(dest=("169.254.169.254", 80), elevated=False, rules=("enforce", "allow")), "o.status == 200 && o.host_requests.len() == 1 && o.failed_summaries == 0", "allowed: relayed, no record"),
              ("e2e_disabled_not_consulted", scenario_rs(dest=("169.254.169.254", 80), elevated=False, rules=("disabled", "deny")), "o.status == 200 && o.host_requests.len() == 1 && o.failed_summaries == 0", "disabled: relayed, no record"),
              ("e2e_audit_deny_wireserver_recorded_once", scenario_rs(rules=("audit", "deny")), "o.status == 200 && o.host_requests.len() == 1 && o.failed_summaries == 1", "audit on WireServer"),
              ("e2e_repeated_denials_are_counted", scenario_rs(dest=("169.254.169.254", 80), elevated=False, rules=("enforce", "deny"),
                                                                 raw_request="GET /a HTTP/1.1\r\nhost: x\r\n\r\nGET /a HTTP/1.1\r\nhost: x\r\n\r\n"), "o.failed_summaries == 2", "two identical denials give a count of two")]
    if pid == "C15":
        T += [("e2e_exempt_url_with_other_method_keeps_100k_limit", scenario_rs(raw_request="POST /vmAgentLog HTTP/1.1\r\nhost: x\r\ncontent-length: 102401\r\n\r\n" + BIG), "o.status >= 400 && o.status < 500 && o.host_requests.is_empty()", "POST /vmAgentLog over 100 KiB must be refused"),
              ("e2e_over_limit_content_length_refused", scenario_rs(raw_request="POST /machine?comp=x HTTP/1.1\r\nhost: x\r\ncontent-length: 102401\r\n\r\n" + BIG), "o.status >= 400 && o.status < 500 && o.host_requests.is_empty()", "a declared body over 100 KiB must be refused"),
              ("e2e_over_limit_chunked_not_relayed", scenario_rs(raw_request="POST /machine?comp=x HTTP/1.1\r\nhost: x\r\ntransfer-encoding: chunked\r\n\r\n19001\r\n" + BIG + "\r\n0\r\n\r\n"), "o.status >= 400 && o.status < 500 && o.host_requests.is_empty()", "an undeclared (chunked) body over 100 KiB must be refused and not relayed"),
              ("e2e_exact_limit_is_relayed", scenario_rs(raw_request="POST /machine?comp=x HTTP/1.1\r\nhost: x\r\ncontent-length: 102400\r\n\r\n" + BIG[:102400]), "o.status == 200 && o.host_requests.len() == 1", "a body of exactly 100 KiB is relayed")]
    if pid == "C14":
        # bodies with every kind of byte a text harness can carry: ASCII, 2-, 3- and 4-byte UTF-8 sequences (bytes >= 0x80)
        body = "".join(chr(33 + (i * 7) % 90) for i in range(300)) + "\u00e9\u20ac\U0001f600 end"
        req = "POST /machine?comp=x&B=2&a=1 HTTP/1.1\r\nhost: x\r\nX-Custom-One: Value One\r\nx-custom-two: two\r\naccept: text/plain\r\nAccept: application/json\r\ncontent-type: application/octet-stream\r\ncontent-length: %d\r\n\r\n%s" % (len(body.encode()), body)
        chunks = ["h\u00e9llo", ", w\u00f6rld \u20ac", "\U0001f600!!\n"]
        hresp = "HTTP/1.1 207 Multi-Status\r\nx-host-header: Host Value\r\netag: \"abc\"\r\ntransfer-encoding: chunked\r\n\r\n" + "".join("%x\r\n%s\r\n" % (len(c.encode()), c) for c in chunks) + "0\r\n\r\n"
        sc = scenario_rs(key=True, raw_request=req, host_response=hresp)
        # an error response whose frames are not valid UTF-8 on their own (a 2-byte character split across two chunks, plus raw binary) and are longer than 1 KiB
        bchunks = [b"caf\xc3", b"\xa9! \xff\xfe\x00\x80 " + bytes((i * 37) % 256 for i in range(1500)), b"tail"]
        bbody = b"".join(bchunks)
        bresp = b"HTTP/1.1 503 Service Unavailable\r\nx-host-header: Host Value\r\ntransfer-encoding: chunked\r\n\r\n" + b"".join(b"%x\r\n%s\r\n" % (len(c), c) for c in bchunks) + b"0\r\n\r\n"
        sc5 = scenario_rs(key=True, host_response=bresp)
        cresp = b"HTTP/1.1 500 Internal Server Error\r\ncontent-length: %d\r\n\r\n%s" % (len(bbody), bbody)
        sc5c = scenario_rs(key=True, host_response=cresp)
        bighead = b"HTTP/1.1 200 OK\r\nx-big: " + b"a" * 30000 + b"\r\nx-big-2: " + b"b" * 30000 + b"\r\ncontent-length: 2\r\n\r\nok"
        T += [("e2e_large_response_head_reaches_client", scenario_rs(key=True, host_response=bighead),
               'o.status == 200 && o.raw_response.contains(&"a".repeat(30000)) && o.raw_response.contains(&"b".repeat(30000)) && o.raw_response.ends_with("ok")', "a response with 60 KB of headers must reach the client as sent")]
        T += [("e2e_request_reaches_host_unchanged", sc, 'o.host_requests.len() == 1 && o.host_requests[0].starts_with("POST /machine?comp=x&B=2&a=1 HTTP/1.1\\r\\n") && o.host_requests[0].ends_with(%s) && '
               'o.host_requests[0].to_lowercase().contains("x-custom-one: value one") && o.host_requests[0].contains("Value One") && o.host_requests[0].to_lowercase().contains("x-custom-two: two") && '
               'o.host_requests[0].to_lowercase().contains("accept: text/plain") && o.host_requests[0].to_lowercase().contains("accept: application/json") && '
               'o.host_requests[0].to_lowercase().contains("content-type: application/octet-stream")' % json.dumps("\r\n\r\n" + body, ensure_ascii=False), "method, path+query, client headers (also repeated names) and body bytes must reach the host unchanged"),
              ("e2e_response_reaches_client_unchanged", sc, 'o.status == 207 && o.raw_response.to_lowercase().contains("x-host-header: host value") && o.raw_response.contains("Host Value") && '
               'o.raw_response.contains("etag: \\"abc\\"") && dechunk(&o.raw_response) == %s' % json.dumps("".join(chunks), ensure_ascii=False), "status, headers and body bytes must reach the client unchanged"),
              ("e2e_binary_error_response_reaches_client_unchanged", sc5, 'o.status == 503 && body_bytes(&o.raw) == %s.to_vec()' % bytes_lit(bbody), "a 5xx response with binary, multi-frame, >1 KiB body must reach the client byte for byte"),
              ("e2e_binary_error_response_with_length_reaches_client_unchanged", sc5c, 'o.status == 500 && body_bytes(&o.raw) == %s.to_vec()' % bytes_lit(bbody), "a 500 response with a content-length binary body must reach the client byte for byte")]
    if pid == "C16":
        T += [("e2e_fresh_agent_not_finished_without_tick", scenario_rs(attributed=False, raw_request="GET /provision HTTP/1.1\r\nhost: x\r\nMetadata: true\r\n\r\n"), 'o.status == 200 && o.body.contains("\\"finished\\":false")', "a fresh agent must not report finished to a query naming no instant"),
              ("e2e_fresh_agent_not_finished_with_garbage_tick", scenario_rs(attributed=False, raw_request="GET /provision HTTP/1.1\r\nhost: x\r\nMetadata: true\r\nx-ms-azure-time_tick: abc\r\n\r\n"), 'o.status == 200 && o.body.contains("\\"finished\\":false")', "unparsable tick")]
    return T


def confirm(rep, pid):
    """If the report has violations that were not replayed, run the property's e2e battery. A failing scenario confirms them."""
    pending = [q for q in rep.queries if q.status == "violated" and q.reproduced is None]
    if not pending:
        return
    T = battery(pid)
    if not T:
        return
    code = "".join(test_rs(n, sc, a, m) for (n, sc, a, m) in T)
    res, out, full = run_e2e(code, [t[0] for t in T])
    failed = [n for n, st in res.items() if st == "FAILED"]
    ran = [n for n, st in res.items() if st in ("ok", "FAILED")]
    path = save_replay(pid, "e2e_battery.rs", "// appended to proxy_agent/src/proxy/proxy_server.rs (plus the verif_new constructor in proxy_connection.rs); run `cargo test -p azure-proxy-agent` and look for verif_e2e\n" + full)
    for q in pending:
        if failed:
            q.reproduced = True
            q.replay = path
            q.detail += " || end-to-end replay on the real handler: FAILED %s" % failed
            rep.traces_validated += 1
        elif ran:
            q.detail += " || end-to-end battery (%d scenarios) passed: the violation is reported from the symbolic trace only" % len(ran)
        else:
            q.detail += " || end-to-end battery did not run: %s" % (out or "")[-200:]
    rep.extra["e2e_battery"] = {"scenarios": len(T), "ran": len(ran), "failed": failed}
