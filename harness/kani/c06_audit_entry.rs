// C06 (engine K): AuditEntry accessors in proxy_agent/src/redirector.rs, for all field values.
use super::*;

#[kani::proof]
#[kani::unwind(8)]
fn c06_audit_entry_port_and_ip_byte_order() {
    let mut e = AuditEntry::empty();
    let port: u16 = kani::any(); // the port the caller connected to, host order
    let o: [u8; 4] = kani::any(); // the four octets of the destination as they travel on the wire
    // kernel side: destination_port = ctx->user_port = htons(port); destination_ipv4 = ctx->user_ip4 (wire order in memory)
    e.destination_port = (((port & 0xff) << 8) | (port >> 8)) as u16;
    e.destination_ipv4 = (o[0] as u32) | ((o[1] as u32) << 8) | ((o[2] as u32) << 16) | ((o[3] as u32) << 24);
    assert!(e.destination_port_in_host_byte_order() == port);
    let ip = e.destination_ipv4_addr().octets();
    assert!(ip[0] == o[0] && ip[1] == o[1] && ip[2] == o[2] && ip[3] == o[3]);
    kani::cover!(port == 80 && o[0] == 168 && o[1] == 63 && o[2] == 129 && o[3] == 16);
}

// vacuity twin: must come back FAILED
#[kani::proof]
#[kani::unwind(8)]
fn c06_twin_must_fail_audit_entry() {
    let mut e = AuditEntry::empty();
    let port: u16 = kani::any();
    e.destination_port = port;
    assert!(e.destination_port_in_host_byte_order() == port);
}
