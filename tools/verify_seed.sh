#!/bin/bash
# verify_seed.sh <patch.diff> <demo.diff|-> <demo test filter|-> <outdir>
# Confirms, in a scratch worktree of /repo's HEAD (outside /repo and /verif): the patch compiles, the baseline tests that
# pass without it still pass with it, and (if given) the demonstration fails with the patch and passes without it.
set -u
PATCH=$1; DEMO=$2; FILTER=$3; OUT=$4
export CARGO_NET_OFFLINE=true
WT=$(mktemp -d /tmp/seedwt-XXXXXX)
mkdir -p "$OUT"
git -C /repo worktree add -q --detach "$WT" HEAD || exit 3
cleanup() { git -C /repo worktree remove --force "$WT" 2>/dev/null; rm -rf "$WT"; }
trap cleanup EXIT
cd "$WT"
export CARGO_TARGET_DIR=/var/tmp/gpa-verif-cache/target-seedcheck
run_tests() { cargo test --workspace --no-fail-fast --offline 2>&1 | grep -E "^test .* \.\.\. (ok|FAILED)" | sed -E 's/^test (.*) \.\.\. ok.*/PASS \1/; s/^test (.*) \.\.\. FAILED.*/FAIL \1/' | sort -u; }
run_tests > "$OUT/tests_before.txt"
if ! git apply "$PATCH" 2>"$OUT/apply.err" && ! { git apply --3way "$PATCH" 2>>"$OUT/apply.err" && git reset -q; }; then echo "PATCH-DOES-NOT-APPLY"; cat "$OUT/apply.err"; exit 4; fi
git diff > "$OUT/applied.diff"
if ! cargo build --workspace --offline 2>"$OUT/build.err" >/dev/null; then echo "DOES-NOT-COMPILE"; tail -20 "$OUT/build.err"; exit 5; fi
run_tests > "$OUT/tests_after.txt"
LOST=$(comm -23 <(grep '^PASS' "$OUT/tests_before.txt") <(grep '^PASS' "$OUT/tests_after.txt") | wc -l)
echo "tests: before $(grep -c '^PASS' $OUT/tests_before.txt) pass, after $(grep -c '^PASS' $OUT/tests_after.txt) pass, newly failing: $LOST"
comm -23 <(grep '^PASS' "$OUT/tests_before.txt") <(grep '^PASS' "$OUT/tests_after.txt")
if [ "$DEMO" != "-" ]; then
  git apply "$DEMO" 2>"$OUT/demo_apply.err" || { echo "DEMO-DOES-NOT-APPLY"; cat "$OUT/demo_apply.err"; }
  cargo test --offline --workspace "$FILTER" 2>&1 | grep -E "^test .* \.\.\. |test result" > "$OUT/demo_with_patch.txt"
  echo "demo WITH patch:"; grep -E "FAILED|ok$" "$OUT/demo_with_patch.txt" | head -5
  git reset -q --hard HEAD; git clean -fdq; git apply "$DEMO" 2>/dev/null
  cargo test --offline --workspace "$FILTER" 2>&1 | grep -E "^test .* \.\.\. |test result" > "$OUT/demo_without_patch.txt"
  echo "demo WITHOUT patch:"; grep -E "FAILED|ok$" "$OUT/demo_without_patch.txt" | head -5
fi
