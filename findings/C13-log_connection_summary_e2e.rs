// e2e: caller command line = VERIF_CMDLINE_PREFIX + 4000 x U+00E9; run with prefix "" and "a" (one of them puts byte 4096 inside a character)

#[cfg(test)]
mod verif_e2e {
    use super::*;
    use hyper_util::rt::TokioIo;
    use std::io::{Read, Write};
    use tower::Service;

    pub struct Outcome { pub status: u16, pub body: String, pub host_requests: Vec<String>, pub failed_summaries: usize }

    pub struct Scenario {
        pub attributed: bool, pub elevated: bool, pub dest: (std::net::Ipv4Addr, u16), pub rules: Option<(&'static str, &'static str)>, // (mode, defaultAccess) for the destination's endpoint
        pub key: bool, pub raw_request: String,
    }

    const KEY_JSON: &str = r#"{"authorizationScheme":"Azure-HMAC-SHA256","guid":"9cf81e97-0316-4ad3-94a7-8ccbdee8ddbf","issued":"2021-05-05T12:00:00Z","key":"4A404E635266556A586E3272357538782F413F4428472B4B6250645367566B59"}"#;

    pub async fn run(sc: Scenario) -> Outcome {
        let shared_state = crate::shared_state::SharedState::start_all();
        let kk = shared_state.get_key_keeper_shared_state();
        if sc.key {
            let key: crate::key_keeper::key::Key = serde_json::from_str(KEY_JSON).unwrap();
            kk.update_key(key).await.unwrap();
        }
        if let Some((mode, default)) = sc.rules {
            let item = crate::key_keeper::key::AuthorizationItem { defaultAccess: default.to_string(), mode: mode.to_string(), id: "verif".to_string(), rules: None };
            if sc.dest == ("168.63.129.16".parse().unwrap(), 80) { kk.set_wireserver_rules(Some(item)).await.unwrap(); }
            else if sc.dest == ("168.63.129.16".parse().unwrap(), 32526) { kk.set_hostga_rules(Some(item)).await.unwrap(); }
            else if sc.dest == ("169.254.169.254".parse().unwrap(), 80) { kk.set_imds_rules(Some(item)).await.unwrap(); }
        }
        let proxy_server = ProxyServer::new(0, &shared_state);
        // mock host: records every request head + body it receives, answers 200
        let host_listener = std::net::TcpListener::bind("127.0.0.1:0").unwrap();
        host_listener.set_nonblocking(false).unwrap();
        let host_port = host_listener.local_addr().unwrap().port();
        let seen = std::sync::Arc::new(std::sync::Mutex::new(Vec::<String>::new()));
        let seen2 = seen.clone();
        std::thread::spawn(move || {
            if let Ok((mut s, _)) = host_listener.accept() {
                let _ = s.set_read_timeout(Some(std::time::Duration::from_millis(1500)));
                let mut buf = Vec::new();
                let mut tmp = [0u8; 65536];
                loop {
                    match s.read(&mut tmp) { Ok(0) => break, Ok(n) => { buf.extend_from_slice(&tmp[..n]);
                        if buf.windows(4).any(|w| w == b"\r\n\r\n") { seen2.lock().unwrap().push(String::from_utf8_lossy(&buf).to_string()); let _ = s.write_all(b"HTTP/1.1 200 OK\r\ncontent-length: 0\r\n\r\n"); buf.clear(); } }
                        Err(_) => break }
                }
            }
        });
        let front = tokio::net::TcpListener::bind("127.0.0.1:0").await.unwrap();
        let front_port = front.local_addr().unwrap().port();
        let agent_status = shared_state.get_agent_status_shared_state();
        let (attributed, elevated, dest) = (sc.attributed, sc.elevated, sc.dest);
        tokio::spawn(async move {
            let (stream, client_addr) = front.accept().await.unwrap();
            let claims = crate::proxy::Claims { userId: if elevated { 0 } else { 1000 }, userName: "verif".to_string(), userGroups: vec!["verif".to_string()], processId: 4242,
                processName: std::ffi::OsString::from("verif"), processFullPath: std::path::PathBuf::from("/usr/bin/verif"), processCmdLine: std::env::var("VERIF_CMDLINE_PREFIX").unwrap_or_default() + &"\u{e9}".repeat(4000), runAsElevated: elevated,
                clientIp: client_addr.ip().to_string(), clientPort: client_addr.port() };
            let ctx = if attributed { TcpConnectionContext::verif_new(1, client_addr, Some(claims), Some(dest), Some(host_port)).await }
                      else { TcpConnectionContext::verif_new(1, client_addr, None, None, None).await };
            let service = hyper::service::service_fn(move |req| {
                let proxy_server = proxy_server.clone();
                let ctx = ctx.clone();
                let limit = if crate::common::hyper_client::should_skip_sig(req.method(), req.uri()) { REQUEST_BODY_LARGE_LIMIT_SIZE } else { REQUEST_BODY_LOW_LIMIT_SIZE };
                let mut svc = tower::ServiceBuilder::new().layer(RequestBodyLimitLayer::new(limit))
                    .service_fn(move |req: Request<_>| proxy_server.clone().handle_new_http_request(req, ctx.clone()));
                svc.call(req)
            });
            let _ = hyper::server::conn::http1::Builder::new().serve_connection(TokioIo::new(stream), service).await;
        });
        let raw = sc.raw_request.clone();
        let resp = tokio::task::spawn_blocking(move || {
            let mut c = std::net::TcpStream::connect(("127.0.0.1", front_port)).unwrap();
            c.set_read_timeout(Some(std::time::Duration::from_secs(5))).unwrap();
            c.write_all(raw.as_bytes()).unwrap();
            let mut out = Vec::new();
            let mut tmp = [0u8; 65536];
            loop { match c.read(&mut tmp) { Ok(0) => break, Ok(n) => { out.extend_from_slice(&tmp[..n]);
                    let txt = String::from_utf8_lossy(&out).to_string();
                    if let Some(i) = txt.find("\r\n\r\n") { let head = &txt[..i].to_lowercase();
                        let cl = head.lines().find_map(|l| l.strip_prefix("content-length:").map(|v| v.trim().parse::<usize>().unwrap_or(0))).unwrap_or(0);
                        if txt.len() >= i + 4 + cl { break; } } }
                Err(_) => break } }
            String::from_utf8_lossy(&out).to_string()
        }).await.unwrap();
        tokio::time::sleep(std::time::Duration::from_millis(100)).await;
        let status = resp.split_whitespace().nth(1).and_then(|s| s.parse::<u16>().ok()).unwrap_or(0);
        let body = resp.split("\r\n\r\n").nth(1).unwrap_or("").to_string();
        let failed = agent_status.get_all_failed_connection_summary().await.map(|v| v.iter().map(|s| s.count as usize).sum()).unwrap_or(0);
        let host_requests = seen.lock().unwrap().clone();
        shared_state.get_cancellation_token().cancel();
        Outcome { status, body, host_requests, failed_summaries: failed }
    }

    #[tokio::test(flavor = "multi_thread", worker_threads = 2)]
    async fn c13_denial_with_long_multibyte_cmdline_0() {
        let o = run(Scenario { attributed: true, elevated: false, dest: ("169.254.169.254".parse().unwrap(), 80), rules: Some(("enforce", "deny")), key: false, raw_request: "GET /machine?comp=goalstate HTTP/1.1\r\nhost: 127.0.0.1\r\n\r\n".to_string() }).await;
        assert!(o.status == 403, "the handler must answer 403 (it panicked / dropped the connection if status is 0): status {} body {:?} host saw {:?} failed-summaries {}", o.status, o.body, o.host_requests, o.failed_summaries);
    }

    #[tokio::test(flavor = "multi_thread", worker_threads = 2)]
    async fn c13_denial_with_long_multibyte_cmdline_1() {
        let o = run(Scenario { attributed: true, elevated: false, dest: ("169.254.169.254".parse().unwrap(), 80), rules: Some(("enforce", "deny")), key: false, raw_request: "GET /machine?comp=goalstate HTTP/1.1\r\nhost: 127.0.0.1\r\n\r\n".to_string() }).await;
        assert!(o.status == 403, "the handler must answer 403 (it panicked / dropped the connection if status is 0): status {} body {:?} host saw {:?} failed-summaries {}", o.status, o.body, o.host_requests, o.failed_summaries);
    }

}
