"""Explicit-flow tracking of secret values over the symbolic paths produced by mirsym (used by C12).

A path is a trace of events (calls, awaits, comparisons) over symbolic values. A value is SECRET when it is
  * the `key` field of an object whose MIR type is `Key` (type-directed: wherever such an object comes from),
  * a value explicitly marked by the caller (function parameters, returns of named source functions, a raw key document),
  * the result of an uninterpreted call one of whose arguments mentions a secret (conservative propagation), unless the
    call is a declassifier (an HMAC / comparison / length).
`mentions(v)` decides whether a value contains secret material; parts that sit under an enum variant are guarded: the
solver is asked whether the path condition allows that variant (so `Err(e)` re-built without the secret is clean)."""
import re
import z3
from mirsym import *
from mcommon import check_sat

KEY_TYPE = re.compile(r"(^|::|&|\s)Key$")


def is_key_type(ty):
    if not ty:
        return False
    t = ty.strip()
    while t.startswith("&"):
        t = t[1:].strip()
        if t.startswith("mut "):
            t = t[4:].strip()
        t = re.sub(r"^'\w+\s+", "", t)
    return bool(re.search(r"(^|::)Key$", t))


_ENUMS = {}


def source_enums(src_root):
    """{enum name: [variants of the Linux build in declaration order]} read line-wise from rustfmt-formatted sources
    (attribute lines with quotes/braces confuse a brace matcher; variants under #[cfg(windows)] are not in this build)."""
    import os
    if src_root in _ENUMS:
        return _ENUMS[src_root]
    out = {}
    for root, _d, files in os.walk(src_root):
        for f in files:
            if not f.endswith(".rs"):
                continue
            try:
                lines = open(os.path.join(root, f), errors="replace").read().split("\n")
            except OSError:
                continue
            i = 0
            while i < len(lines):
                m = re.match(r"(\s*)(?:pub(?:\([^)]*\))?\s+)?enum\s+(\w+)[^{;]*\{\s*$", lines[i])
                if not m:
                    i += 1
                    continue
                ind, name = m.group(1), m.group(2)
                vs, skip, depth = [], False, 0
                i += 1
                while i < len(lines) and not re.match(r"%s\}\s*$" % re.escape(ind), lines[i]):
                    ln = lines[i]
                    if depth == 0:
                        if re.match(r"\s*#\[cfg\((windows|target_os\s*=\s*\"windows\")\)\]", ln):
                            skip = True
                        elif re.match(r"\s*#\[", ln) or re.match(r"\s*//", ln):
                            pass
                        else:
                            mv = re.match(r"\s*([A-Z]\w*)\s*(\(|\{|,|=|$)", ln)
                            if mv:
                                if not skip:
                                    vs.append(mv.group(1))
                                skip = False
                    if not re.match(r"\s*(#\[|//)", ln):
                        depth += ln.count("{") + ln.count("(") - ln.count("}") - ln.count(")")
                        depth = max(depth, 0)
                    i += 1
                if vs:
                    out["%s@%s:%d" % (name, os.path.relpath(os.path.join(root, f), src_root), i)] = vs
                i += 1
    _ENUMS[src_root] = out
    return out


def contains_key_type(ty):
    """a type with Key among its generic arguments / tuple members: Option<Key>, Result<Option<Key>, Error>, (String, Key) ..."""
    return bool(ty) and re.search(r"(^|[<(,\s&])(?:\w+::)*Key(?=[>),\s]|$)", ty) is not None


class Flow:
    def __init__(self, label, sink, site, unit, path_index, detail=""):
        self.label, self.sink, self.site, self.unit, self.path_index, self.detail = label, sink, site, unit, path_index, detail


# calls through which secret material does not travel
DECLASSIFY = re.compile(r"(HMAC::finalize$|::len$|::is_empty$|::is_some$|::is_none$|::is_ok$|::is_err$|as PartialEq.*>::(eq|ne)$|::cmp$|"
                        r"Path::exists$|Instant::|::elapsed$|as Drop>::drop$|drop_in_place|mem::drop$)")
# the places the key may legitimately go: the key file (through the store functions), the in-memory actor, the MAC
ALLOWED_SINK = re.compile(r"(update_key$|store_local_key$|store_key$|store_key_data$)")
# everything that makes data observable outside the key store
SINK = re.compile(r"(logger::\w+$|Logger::\w+$|logger_manager::\w+$|(^|::)write_(information|warning|error|info|warn|serial_console_log|console_log|log)\w*$|"
                  r"ConnectionLogger::\w+$|(Http|Tcp)ConnectionContext::log$|::log$|log_connection_summary$|"
                  r"event_logger::\w+$|write_event\w*$|write_startup_event$|update_status_message$|set_\w*message\w*$|"
                  r"_print$|_eprint$|io::Write.*::write\w*$|File::(create|write\w*)$|fs::write$|OpenOptions::open$|json_write_to_file$|"
                  r"provision::\w+$|Response<.*>::new$|Response::new$|Full<.*>::new$|Full::new$|empty_response$|"
                  r"HeaderValue::from_str$|HeaderValue::from_bytes$|append_pair$|set_query$|TcpStream::write\w*$)")


class PathTaint:
    def __init__(self, ctx, r, unit, index, marks=None, ret_rules=None, engine=None):
        """marks: [(value, label)] secret from the start. ret_rules: [(callee regex, fn(event) -> [(value, label, guard)] )]
        applied when an event of that callee is met (models of callees analysed on their own bodies)."""
        self.ctx, self.r, self.unit, self.index = ctx, r, unit, index
        self.marked = []          # (Sym origin, label, guard or None)
        self.whole = []           # (Sym, label)
        self.ret_rules = ret_rules or []
        self.flows = []
        self.alias = {}           # id(Sym) -> (prefix chain, target value): Sym.child(prefix...) is the target (unwrap_or, ok, ...)
        self.solver_queries = 0
        self.stack = []
        self.ki = ctx.field("Key", "key")
        for v, lab in (marks or []):
            self.mark(v, lab)

    # ---------------------------------------------------------------- marking
    def mark(self, v, label, guard=None):
        o = origin(v)
        if isinstance(o, Sym):
            self.marked.append((o, label, guard))
        elif isinstance(o, Agg):
            for f in o.fields:
                self.mark(f, label, guard)

    def taint_whole(self, v, label):
        o = origin(v)
        if isinstance(o, Sym):
            self.whole.append((o, label))

    # ---------------------------------------------------------------- queries
    def _guard_ok(self, guard):
        if guard is None:
            return True
        self.solver_queries += 1
        rs, _m, _dt, _zm = check_sat(self.r.pc + [guard], 20000)
        return rs != "unsat"

    def _chain_guard(self, part, stop):
        """conjunction of the variant conditions between `part` and its ancestor `stop` (exclusive)"""
        conds = []
        cur = part
        n = 0
        while isinstance(cur, Sym) and isinstance(cur.tag, tuple) and cur.tag[0] == "part" and n < 40:
            n += 1
            parent, key = origin(cur.tag[1]), cur.tag[2]
            if isinstance(key, tuple) and key[0] == "v" and isinstance(parent, Sym):
                vi = self._variant_index(key[1])
                if vi is not None:
                    conds.append(parent.discr() == vi)
            if parent is stop:
                break
            cur = parent
        return z3.And(conds) if conds else None

    def _variant_index(self, name):
        std = {"Ok": 0, "Err": 1, "None": 0, "Some": 1, "Continue": 0, "Break": 1, "Ready": 0, "Pending": 1}
        if name in std:
            return std[name]
        hits = {lst.index(name) for lst in source_enums(self.ctx.src).values() if name in lst}
        return next(iter(hits)) if len(hits) == 1 else None

    def mentions(self, v, depth=0):
        """label of the secret material contained in v, or None"""
        if depth > 12 or v is None:
            return None
        if isinstance(v, Ref):
            if v.frame is None:
                return self.mentions(v.val.v if isinstance(v.val, Cell) else v.val, depth + 1)
            return None
        if isinstance(v, Agg):
            if v.name and re.search(r"(^|::)Key$", v.name) and v.kind == "struct" and len(v.fields) > self.ki:
                return self.mentions(v.fields[self.ki], depth + 1) or "the key value"
            for f in v.fields:
                lab = self.mentions(f, depth + 1)
                if lab:
                    return lab
            return None
        if isinstance(v, StrV):
            return self._expr_mentions(v.e, depth)
        if isinstance(v, Scalar) or isinstance(v, ConstV):
            return None
        if isinstance(v, Sym):
            return self._sym_mentions(v, depth)
        if hasattr(v, "v"):       # _Down
            return self.mentions(v.v, depth + 1)
        return None

    def _expr_mentions(self, e, depth):
        names = set()

        def walk(x, n=0):
            if n > 200:
                return
            if z3.is_const(x) and x.decl().kind() == z3.Z3_OP_UNINTERPRETED:
                names.add(str(x))
            for k in range(x.num_args()):
                walk(x.arg(k), n + 1)
        try:
            walk(e)
        except Exception:
            return None
        for n in names:
            s = Z3_OWNER.get(n)
            if s is not None:
                lab = self._sym_mentions(s, depth + 1)
                if lab:
                    return lab
        return None

    def _sym_mentions(self, v, depth):
        # 0. results of payload-extracting combinators stand for the payload (keeps the distinction between the parts)
        cur, chain = v, []
        for _ in range(40):
            if not isinstance(cur, Sym):
                break
            al = self.alias.get(id(cur.root()) if not cur.over else id(cur))
            if al is not None:
                prefix, target = al
                ch = list(reversed(chain))
                if list(ch[:len(prefix)]) == list(prefix):
                    tv = target
                    for k in ch[len(prefix):]:
                        if isinstance(tv, Sym):
                            tv = tv.child(k)
                        elif isinstance(tv, Agg) and isinstance(k, tuple) and k[0] in ("f", "v") and isinstance(k[-1], int) and k[-1] < len(tv.fields) \
                                and (k[0] == "f" or tv.variant == k[1]):
                            tv = tv.fields[k[-1]]
                        else:
                            tv = None
                            break
                    return self.mentions(tv, depth + 1) if tv is not None else None
                if len(ch) < len(prefix):
                    return self.mentions(target, depth + 1)       # an ancestor of the aliased part: contains the target
                return None
            t = cur.tag if isinstance(cur.tag, tuple) else ()
            if t and t[0] == "part" and not cur.over:
                chain.append(t[2])
                cur = origin(t[1])
                continue
            break
        # 1. v is (inside) a wholly tainted object, or is a marked secret, or is the key field of a Key-typed object
        cur = v
        n = 0
        while isinstance(cur, Sym) and n < 60:
            n += 1
            for (w, lab) in self.whole:
                if cur is w or (cur.root() is w.root() and not cur.over and not w.over):
                    return lab
            for (m, lab, guard) in self.marked:
                if cur is m or (cur.root() is m.root() and not cur.over and not m.over):
                    if self._guard_ok(guard):
                        return lab
            t = cur.tag if isinstance(cur.tag, tuple) else ()
            if cur.over:
                for k, ov in cur.over.items():
                    if k == "discr":
                        continue
                    lab = self.mentions(ov, depth + 1)
                    if lab:
                        return lab
            if t and t[0] == "part":
                parent = origin(t[1])
                if t[2] == ("f", self.ki) and isinstance(parent, Sym) and is_key_type(parent.ty):
                    return "the key value"
                if t[2] == ("f", self.ki) and isinstance(parent, Sym) and isinstance(parent.tag, tuple) and parent.tag and parent.tag[0] == "part" \
                        and parent.tag[2] == "*" and is_key_type(getattr(origin(parent.tag[1]), "ty", None)):
                    return "the key value"
                cur = parent
                continue
            if t and t[0] == "conv":
                lab = self.mentions(t[2], depth + 1)
                if lab:
                    return lab
                for extra in t[3:]:
                    lab = self.mentions(extra, depth + 1)
                    if lab:
                        return lab
                return None
            break
        # 2. v contains a secret part: a Key-typed object (also wrapped: Option<Key>, Result<.. Key ..>), or an ancestor of a marked secret
        if is_key_type(v.ty) or (contains_key_type(v.ty) and not v._kids):
            return "the key value"
        for (m, lab, guard) in self.marked:
            if is_part_of(m, v):
                g = self._chain_guard(m, origin(v))
                both = z3.And(g, guard) if (g is not None and guard is not None) else (g if g is not None else guard)
                if self._guard_ok(both):
                    return lab
        for (w, lab) in self.whole:
            if is_part_of(w, v):
                if self._guard_ok(self._chain_guard(w, origin(v))):
                    return lab
        # 3. typed children that were materialised and are Key objects (Result<Key,_>, Option<Key>, ...)
        for k, ch in list(v._kids.items()):
            if isinstance(ch, Sym) and (is_key_type(ch.ty) or ch._kids):
                g = self._chain_guard(ch, v)
                if is_key_type(ch.ty):
                    if self._guard_ok(g):
                        return "the key value"
                else:
                    lab = self._sym_mentions_down(ch, depth + 1)
                    if lab:
                        return lab
        return None

    def _sym_mentions_down(self, v, depth):
        if depth > 8:
            return None
        if is_key_type(v.ty):
            return "the key value"
        for k, ch in list(v._kids.items()):
            if isinstance(ch, Sym):
                lab = self._sym_mentions_down(ch, depth + 1)
                if lab:
                    return lab
        return None

    # ---------------------------------------------------------------- the pass over a path
    def run(self, sink_rx=SINK, allowed_rx=ALLOWED_SINK, extra_declass=None):
        evs = self.r.events
        for e in evs:
            if e.kind == "enter":
                self.stack.append(e.callee)
                continue
            if e.kind == "leave":
                if self.stack:
                    self.stack.pop()
                continue
            if e.kind not in ("call", "await"):
                continue
            for rx, fn in self.ret_rules:
                if re.search(rx, e.callee):
                    for (val, lab, guard) in fn(self, e):
                        if val is None:
                            self.taint_whole(e.ret, lab)
                        else:
                            self.mark(val, lab, guard)
            m = re.search(r"(Result|Option)::(unwrap_or|unwrap_or_default|unwrap_or_else|unwrap|expect|ok|as_ref|as_deref|as_mut|cloned|copied)$", e.callee)
            if m and e.rargs and isinstance(origin(e.rargs[0]), Sym) and isinstance(e.ret, Sym):
                src = origin(e.rargs[0])
                pay = ("v", "Ok" if m.group(1) == "Result" else "Some", 0)
                op = m.group(2)
                if op == "ok":
                    self.alias[id(e.ret)] = ((("v", "Some", 0),), src.child(pay))
                elif op in ("as_ref", "as_deref", "as_mut", "cloned", "copied"):
                    self.alias[id(e.ret)] = ((), src)
                else:
                    self.alias[id(e.ret)] = ((), src.child(pay))
                continue
            if re.search(r"oneshot::Sender<.*>::send$|oneshot::Sender::send$", e.callee) and len(e.rargs or []) == 2 and isinstance(e.ret, Sym):
                # tokio oneshot: send(v) gives the value back unchanged in Err when the receiver is gone
                self.alias[id(e.ret)] = ((("v", "Err", 0),), e.rargs[1])
                continue
            args = list(e.rargs or []) + [a for a in (e.args or []) if a not in (e.rargs or [])]
            lab = None
            for a in args:
                lab = self.mentions(a)
                if lab:
                    break
            if not lab:
                continue
            c = e.callee
            if DECLASSIFY.search(c) or (extra_declass is not None and extra_declass.search(c)):
                continue
            if any(re.search(rx, c) for rx, _fn in self.ret_rules):
                continue          # a callee modelled by its own analysis: its result carries exactly what its rule marked
            if allowed_rx.search(c) or any(allowed_rx.search(s) for s in self.stack if s):
                # inside the key store functions the key may be written: to the key file only (C08 checks which file)
                if sink_rx.search(c) and not re.search(r"json_write_to_file$|store_key_data$", c):
                    self.flows.append(Flow(lab, c, e.site, self.unit, self.index, "inside the key store code: " + "/".join(s.split("::")[-1] for s in self.stack)))
                elif not sink_rx.search(c):
                    self._propagate(e, lab)
                continue
            if sink_rx.search(c):
                self.flows.append(Flow(lab, c, e.site, self.unit, self.index))
                continue
            self._propagate(e, lab)
        return self.flows

    def _propagate(self, e, lab):
        if e.ret is not None:
            self.taint_whole(e.ret, lab)
        # a mutable receiver absorbs what is pushed into it (String::push_str, HMAC::update, Vec::push, HashMap::insert ...)
        if re.search(r"(push_str|push|insert|extend\w*|update|append|write_str|write_fmt|set_\w+)$", e.callee) and e.rargs:
            o = origin(e.rargs[0])
            if isinstance(o, Sym):
                self.taint_whole(o, lab)

    def directly_tainted(self, o):
        """o itself (not merely a part of it) is secret: wholly tainted, marked, or inside such an object"""
        cur = o
        for _ in range(60):
            if not isinstance(cur, Sym):
                return False
            for (w, _lab) in self.whole:
                if cur is w or (cur.root() is w.root() and not cur.over and not w.over):
                    return True
            for (m, _lab, guard) in self.marked:
                if (cur is m or (cur.root() is m.root() and not cur.over and not m.over)) and self._guard_ok(guard):
                    return True
            t = cur.tag if isinstance(cur.tag, tuple) else ()
            if t and t[0] == "part":
                cur = origin(t[1])
                continue
            if t and t[0] == "conv":
                return bool(self.mentions(cur))
            return False
        return False

    def ret_label(self, v=None):
        return self.mentions(self.r.ret if v is None else v)
