/* Model of the BPF helpers and maps used by linux-ebpf/ebpf_cgroup.c, following bpf-helpers(7):
 *   bpf_map_lookup_elem  : pointer to the value stored for key, or NULL
 *   bpf_map_update_elem  : flags BPF_ANY/BPF_NOEXIST/BPF_EXIST as in the kernel (0: create or overwrite); a full HASH map returns -E2BIG,
 *                          a full LRU_HASH map evicts one entry (victim chosen by the solver)
 *   bpf_map_delete_elem  : 0, or -ENOENT
 *   bpf_get_current_pid_tgid : current_task->tgid << 32 | current_task->pid
 *   bpf_get_current_uid_gid  : current_gid << 32 | current_uid
 *   bpf_probe_read       : copy, 0 on success
 * The program under test is #included unmodified by driver.c *before* this file, so the map objects
 * skip_process_map / policy_map / audit_map / local_map are visible here by address, and the maps
 * are modelled with the program's own key/value struct types (keys compare field by field, which is
 * what the kernel's memcmp over the padding-free structs does).
 */
#ifndef VERIF_K
#define VERIF_K 3            /* slots per map in the model (production: 10 / 10 / 200 / 200) */
#endif
#define K VERIF_K

extern unsigned verif_next_victim(void);

static int skip_used[K];   static sock_addr_skip_process_entry skip_k[K], skip_v[K];
static int pol_used[K];    static destination_entry pol_k[K], pol_v[K];
static int audit_used[K];  static sock_addr_audit_key audit_k[K]; static sock_addr_audit_entry audit_v[K];
static int local_used[K];  static __u64 local_k[K]; static sock_addr_local_entry local_v[K];
int verif_evictions;          /* ghost: number of LRU evictions performed by the model */

static void verif_init_maps(void)
{
    for (int i = 0; i < K; i++) skip_used[i] = pol_used[i] = audit_used[i] = local_used[i] = 0;
    verif_evictions = 0;
}

/* Key comparison for policy_map.  The kernel compares all 24 key bytes.  Words 1..3 of the ip union are
 * zero on both sides in the real system: user space writes [ipv4, 0, 0, 0] (checked on the Rust side of
 * C06) and the program's `destination_entry entry = {0}` is zero-filled by clang (the BPF verifier rejects
 * a key with uninitialised stack bytes).  C leaves the bytes of a union beyond its first member
 * unspecified after `= {0}` and CBMC models them as nondeterministic, so the model compares the IPv4 word. */
static int eq_dest(const destination_entry *a, const destination_entry *b)
{
    return a->destination_ip.ipv4 == b->destination_ip.ipv4 &&
           a->destination_port == b->destination_port && a->protocol == b->protocol;
}

static int find_skip(const sock_addr_skip_process_entry *k) { for (int i = 0; i < K; i++) if (skip_used[i] && skip_k[i].pid == k->pid) return i; return -1; }
static int find_pol(const destination_entry *k) { for (int i = 0; i < K; i++) if (pol_used[i] && eq_dest(&pol_k[i], k)) return i; return -1; }
static int find_audit(const sock_addr_audit_key *k) { for (int i = 0; i < K; i++) if (audit_used[i] && audit_k[i].protocol == k->protocol && audit_k[i].source_port == k->source_port) return i; return -1; }
static int find_local(const __u64 *k) { for (int i = 0; i < K; i++) if (local_used[i] && local_k[i] == *k) return i; return -1; }
static int free_slot(const int *used) { for (int i = 0; i < K; i++) if (!used[i]) return i; return -1; }

void *bpf_map_lookup_elem(void *map, const void *key)
{
    int i;
    if (map == (void *)&skip_process_map) { i = find_skip(key); return i < 0 ? (void *)0 : (void *)&skip_v[i]; }
    if (map == (void *)&policy_map) { i = find_pol(key); return i < 0 ? (void *)0 : (void *)&pol_v[i]; }
    if (map == (void *)&audit_map) { i = find_audit(key); return i < 0 ? (void *)0 : (void *)&audit_v[i]; }
    i = find_local(key); return i < 0 ? (void *)0 : (void *)&local_v[i];
}

/* update flags (include/uapi/linux/bpf.h): BPF_ANY 0 create or update, BPF_NOEXIST 1 create only (-EEXIST if present),
 * BPF_EXIST 2 update only (-ENOENT if absent); anything else -EINVAL */
static long verif_flag_check(int found, __u64 flags)
{
    if (flags > 2) return -22;
    if (flags == 1 && found >= 0) return -17;
    if (flags == 2 && found < 0) return -2;
    return 0;
}

long bpf_map_update_elem(void *map, const void *key, const void *value, __u64 flags)
{
    int i;
    long fr;
    if (map == (void *)&skip_process_map) fr = verif_flag_check(find_skip(key), flags);
    else if (map == (void *)&policy_map) fr = verif_flag_check(find_pol(key), flags);
    else if (map == (void *)&audit_map) fr = verif_flag_check(find_audit(key), flags);
    else fr = verif_flag_check(find_local(key), flags);
    if (fr != 0) return fr;
    if (map == (void *)&skip_process_map) {
        i = find_skip(key); if (i < 0) i = free_slot(skip_used); if (i < 0) return -7; /* -E2BIG */
        skip_used[i] = 1; skip_k[i] = *(const sock_addr_skip_process_entry *)key; skip_v[i] = *(const sock_addr_skip_process_entry *)value; return 0;
    }
    if (map == (void *)&policy_map) {
        i = find_pol(key); if (i < 0) i = free_slot(pol_used); if (i < 0) return -7;
        pol_used[i] = 1; pol_k[i] = *(const destination_entry *)key; pol_v[i] = *(const destination_entry *)value; return 0;
    }
    if (map == (void *)&audit_map) {
        i = find_audit(key); if (i < 0) i = free_slot(audit_used);
        if (i < 0) { i = (int)(verif_next_victim() % K); verif_evictions++; }
        audit_used[i] = 1; audit_k[i] = *(const sock_addr_audit_key *)key; audit_v[i] = *(const sock_addr_audit_entry *)value; return 0;
    }
    i = find_local(key); if (i < 0) i = free_slot(local_used);
    if (i < 0) { i = (int)(verif_next_victim() % K); verif_evictions++; }
    local_used[i] = 1; local_k[i] = *(const __u64 *)key; local_v[i] = *(const sock_addr_local_entry *)value; return 0;
}

long bpf_map_delete_elem(void *map, const void *key)
{
    int i;
    if (map == (void *)&skip_process_map) { i = find_skip(key); if (i < 0) return -2; skip_used[i] = 0; return 0; }
    if (map == (void *)&policy_map) { i = find_pol(key); if (i < 0) return -2; pol_used[i] = 0; return 0; }
    if (map == (void *)&audit_map) { i = find_audit(key); if (i < 0) return -2; audit_used[i] = 0; return 0; }
    i = find_local(key); if (i < 0) return -2; /* -ENOENT */
    local_used[i] = 0; return 0;
}

/* identity of the task the hook currently runs in */
__u32 verif_cur_tgid, verif_cur_tid, verif_cur_uid, verif_cur_gid;

__u64 bpf_get_current_pid_tgid(void) { return ((__u64)verif_cur_tgid << 32) | verif_cur_tid; }
__u64 bpf_get_current_uid_gid(void) { return ((__u64)verif_cur_gid << 32) | verif_cur_uid; }
__u64 bpf_get_socket_cookie(void *ctx) { (void)ctx; return 0; /* result unused by the program */ }

/* the program reads exactly one struct sock_common from the socket */
long bpf_probe_read(void *dst, __u32 size, const void *unsafe_ptr)
{
    if (size == sizeof(struct sock_common)) { *(struct sock_common *)dst = *(const struct sock_common *)unsafe_ptr; return 0; }
    return -14; /* -EFAULT: any other read is outside the model */
}
