"""C04 relayed requests carry a valid HMAC over what the host receives -- narrowed claim (DESIGN.md 4/C04):
data-flow of both signing routes, structural identity of the two canonical-string builders, exemption list.
Canonicaliser injectivity and HMAC-SHA256 itself are outside reach and stated as such."""
from mcommon import *
from handler_model import *
from p_c01 import violated
from p_c05 import header_name_of, value_source, map_owner, relayed_request_chain, const_str
import p_c15


def canonical_trace(r):
    """Sequence of (callee tail, role of data) that builds the sign input, for structural comparison."""
    out = []
    for e in r.events:
        if e.kind != "call":
            continue
        t = e.callee.split("::")[-1]
        if t in ("headers_to_canonicalized_string", "get_path_and_canonicalized_parameters"):
            out.append(t)
        elif t == "extend" or t == "to_vec" or t == "extend_from_slice":
            a = e.rargs[-1]
            o = origin(a)
            if isinstance(o, Sym) and o.tag[0] == "ret" and o.tag[1].endswith("as_bytes"):
                for e2 in r.events:
                    if e2.ret is o:
                        src = origin(e2.rargs[0])
                        if isinstance(src, StrV):
                            out.append("lit:" + src.e.as_string())
                        elif isinstance(src, Sym) and src.tag[0] == "ret":
                            out.append("bytes-of:" + src.tag[1].split("::")[-1])
                        elif isinstance(src, Sym) and src.tag[0] == "part":
                            out.append("bytes-of-part")
                        else:
                            out.append("bytes-of:?")
            elif isinstance(o, StrV):
                out.append("lit:" + o.e.as_string())
            else:
                out.append("data")
    return out


def check_mac_unit(rep, ctx):
    """'MAC over that canonical string': what compute_signature (named by the route obligations) feeds the MAC - the key is the hex
    decoding of its first argument, the data is its second argument itself (not a converted copy), the result is the hex of finalize()"""
    from p_c08 import derives
    try:
        w = ctx.one("helpers::compute_signature")
    except Inconclusive as ex:
        rep.add(Query("compute_signature located", "inconclusive", str(ex), 0, "mirsym", key="C04.mac-unit"))
        return
    eng = ctx.engine(loop_bound=1)
    eng.auto_inline = ctx.new_function_auto()
    n = 0
    for i, r in enumerate(eng.explore(w)):
        if not (r.status == "return" and isinstance(r.ret, Agg) and r.ret.variant == "Ok"):
            continue
        n += 1
        ev = r.events
        dec = [e for e in ev if e.kind == "call" and re.search(r"(^|::)decode$", e.callee)]
        new = [e for e in ev if e.kind == "call" and e.callee.endswith("HMAC::new")]
        upd = [e for e in ev if e.kind == "call" and e.callee.endswith("HMAC::update")]
        fin = [e for e in ev if e.kind == "call" and re.search(r"HMAC::finalize$", e.callee)]
        enc = [e for e in ev if e.kind == "call" and re.search(r"(^|::)encode$", e.callee)]
        ok = len(dec) == 1 and same_origin(dec[0].rargs[0], r.args[0]) and len(new) == 1 and derives(new[0].rargs[0], dec[0].ret, ev) and \
            len(upd) == 1 and same_origin(upd[0].rargs[0], new[0].ret) and same_origin(upd[0].rargs[1], r.args[1]) and \
            len(fin) == 1 and same_origin(fin[0].rargs[0], new[0].ret) and ev.index(upd[0]) < ev.index(fin[0]) and \
            len(enc) == 1 and same_origin(enc[0].rargs[0], fin[0].ret) and same_origin(r.ret.fields[0], enc[0].ret)
        detail = "update argument %r" % (upd[0].rargs[1] if upd else None,)
        rep.add(Query("compute_signature path %d: hex(HMAC(hex-decoded key).update(the given bytes, unchanged).finalize())" % i, "holds" if ok else "violated", detail[:160], 0, "mirsym", key="C04.mac-unit", reproduced=None))
    rep.functions_encoded.append(w)
    rep.add(Query("witness: compute_signature has a signing path", "witness-hit" if n else "witness-missed", "%d" % n, 0, "mirsym"))


MAC_TEST = '''
#[cfg(test)]
mod verif_battery_c04_mac {
    #[test]
    fn c04_mac_is_computed_over_the_bytes_given() {
        // RFC 4231 test case 2 (text) and a binary input: two inputs that differ only in bytes that are not valid UTF-8 sign differently
        assert_eq!(super::compute_signature("4a656665", b"what do ya want for nothing?").unwrap(), "5bdcc146bf60754e6a042426089575c75a003f089d2739839dec58b964ec3843");
        let a = super::compute_signature("4a656665", &[0x1f, 0x8b, 0x08, 0xff, 0xfe, 0x00]).unwrap();
        let b = super::compute_signature("4a656665", &[0x1f, 0x8b, 0x08, 0xfd, 0xfc, 0x00]).unwrap();
        assert_ne!(a, b, "two binary bodies that differ in non-UTF-8 bytes got the same MAC");
        // RFC 4231 test case 3: 20 x 0xaa key, 50 x 0xdd data
        assert_eq!(super::compute_signature(&"aa".repeat(20), &[0xddu8; 50]).unwrap(), "773ea91e36800e46854db8ebd09181a72959098b3ef8c122d9635514ced565fe");
    }

}
'''


def check_skip_sig_wrapper(rep, ctx):
    """the exemption the handler asks for (HttpConnectionContext::should_skip_sig) is hyper_client::should_skip_sig of the context's own
    method and url, and the handler builds that context from THIS request's method and uri"""
    from p_c08 import derives
    try:
        w = ctx.method("HttpConnectionContext", "should_skip_sig")
    except Inconclusive as ex:
        rep.add(Query("HttpConnectionContext::should_skip_sig located", "inconclusive", str(ex), 0, "mirsym", key="C04.skip-wrapper"))
        return
    fm, fu = ctx.field("HttpConnectionContext", "method"), ctx.field("HttpConnectionContext", "url")
    eng = ctx.engine()
    ok, n = True, 0
    for r in eng.explore(w):
        n += 1
        me = origin(r.args[0]).child("*")
        c = [e for e in r.events if e.kind == "call" and e.callee.endswith("should_skip_sig")]
        good = r.status == "return" and len(c) == 1 and derives(c[0].rargs[0], me.child(("f", fm)), r.events) and derives(c[0].rargs[1], me.child(("f", fu)), r.events) and (r.ret is c[0].ret or same_origin(r.ret, c[0].ret))
        ok = ok and good
    rep.functions_encoded.append(w)
    rep.add(Query("HttpConnectionContext::should_skip_sig = hyper_client::should_skip_sig(own method, own url)", "holds" if ok and n else "violated", "%d paths" % n, 0, "mirsym", key="C04.skip-wrapper", reproduced=None))


def check_canonical_order(rep, ctx):
    """the order of the canonical string is the order of the KEYS (lower-cased header names; lower-cased parameter name + value): what is
    sorted is the key set of the de-duplication map, and the lines are emitted by walking that sorted sequence. Sorting the finished
    lines instead gives another order whenever one key is a prefix of another and the next character sorts below ':' / '='"""
    from p_c08 import derives
    for fn in ("headers_to_canonicalized_string", "get_path_and_canonicalized_parameters"):
        try:
            w = ctx.one("hyper_client::" + fn)
        except Inconclusive as ex:
            rep.add(Query("%s located" % fn, "inconclusive", str(ex), 0, "mirsym", key="C04.canonical-order:" + fn))
            continue
        eng = ctx.engine(loop_bound=1)
        eng.auto_inline = ctx.new_function_auto()
        n_sorted, bad = 0, []
        for r in eng.explore(w):
            ev = r.events
            sorts = [e for e in ev if e.kind == "call" and re.search(r"Itertools>::sorted(_unstable)?$|::sort(_unstable)?$|::sorted_by(_key)?$|::sort_by(_key)?$|::sort_unstable_by(_key)?$", e.callee)]
            pushes = [e for e in ev if e.kind == "call" and e.callee.endswith("push_str")]
            if not sorts:
                if pushes and any(not isinstance(origin(p_.rargs[1]), (StrV, ConstV)) for p_ in pushes):
                    bad.append("a path emits lines without any sort")
                continue
            n_sorted += 1
            for so in sorts:
                src = so.rargs[0]
                keys = [e for e in ev if e.kind == "call" and re.search(r"HashMap::(keys|into_keys)$|BTreeMap::(keys|into_keys)$", e.callee) and (e.ret is origin(src) or derives(src, e.ret, ev))]
                if not keys:
                    bad.append("what is sorted is not the key set of the map: %r" % (src,))
        rep.functions_encoded.append(w)
        rep.add(Query("%s: the canonical order is the sorted order of the map's keys (names), not of finished lines" % fn, "holds" if n_sorted and not bad else "violated", "; ".join(sorted(set(bad)))[:300], 0, "mirsym",
                      key="C04.canonical-order:" + fn, reproduced=None))


def check(rep, tier, seed):
    ctx = Ctx("agent")
    rep.extra["mir_dump"] = {"cache_hit": ctx.dump.cache_hit, "tree_hash": ctx.dump.hash, "seconds": round(ctx.dump.seconds, 1)}
    hm = HandlerModel(ctx, rep)
    AU = const_str(ctx, "AUTHORIZATION_HEADER")
    SCHEME = const_str(ctx, "AUTHORIZATION_SCHEME")
    rep.add(Query("constant AUTHORIZATION_SCHEME = Azure-HMAC-SHA256", "holds" if SCHEME == "Azure-HMAC-SHA256" else "violated", SCHEME, 0, "mirsym", key="C04.const-scheme", nontrivial=False, reproduced=None))
    n_signed = n_unsigned = 0
    for p in hm.paths:
        if not p.relays:
            continue
        relay = p.relays[0]
        pre = p.events[:p.index(relay)]
        skip = p.first(r"HttpConnectionContext::should_skip_sig$", ("call",))
        cs = [e for e in pre if e.kind == "call" and e.callee.endswith("compute_signature")]
        asi = [e for e in pre if e.kind == "call" and e.callee.endswith("as_sig_input")]
        inserts = [e for e in pre if e.kind == "call" and e.callee.endswith("HeaderMap::insert")]
        auth_ins = [e for e in inserts if header_name_of(p, e) == AU]
        sent, fp, ip = relayed_request_chain(p, relay)

        def ob(name, ok, key, detail=""):
            qn = "path %d: %s" % (p.i, name)
            if ok:
                rep.add(Query(qn, "holds", detail, 0, "mirsym", key=key))
            else:
                violated(rep, qn, key, detail, p)
        kv = p.first(r"get_current_key", ("await",))
        if skip is not None and p.implied(skip.ret.scalar("bool")):
            ob("exempt upload is relayed without a proxy signature", not auth_ins and not cs, "C04.exempt-unsigned")
            continue
        if not cs:
            # no key latched (or key read failed): nothing to sign with
            n_unsigned += 1
            ob("no key => no authorization header is fabricated", not auth_ins, "C04.nokey-noheader")
            continue
        sig = cs[0]
        if p.implied(sig.ret.discr() == 1):
            ob("signature computation failed => no authorization header", not auth_ins, "C04.sigerr-noheader")
            continue
        n_signed += 1
        ob("exactly one authorization header insert on a signed relay", len(auth_ins) == 1, "C04.one-insert", "%d" % len(auth_ins))
        ob("exactly one canonical string / one MAC per request", len(asi) == 1 and len(cs) == 1, "C04.one-mac")
        if asi and fp is not None:
            a = asi[0]
            ob("the head that is signed and the head that is forwarded are the same head (clone of into_parts(request).0 after all proxy headers)",
               same_origin(a.rargs[0], fp.rargs[0]) and ip is not None and is_part_of(a.rargs[0], ip.ret, [("f", 0)]), "C04.same-head")
            # body signed == body forwarded
            body_fwd = None
            for e in pre:
                if e.ret is origin(fp.rargs[1]) and e.callee.endswith("Full::new"):
                    body_fwd = e.rargs[0]
            ob("the body that is signed and the body that is forwarded are clones of the one collected body", body_fwd is not None and same_origin(a.rargs[1], body_fwd), "C04.same-body")
            # MAC computed over that canonical string under the key read for this request
            so = origin(sig.rargs[1])
            over = False
            if isinstance(so, Sym) and so.tag[0] == "ret" and so.tag[1].endswith("as_slice"):
                for e in pre:
                    if e.ret is so:
                        over = same_origin(e.rargs[0], a.ret)
            ob("compute_signature is applied to that canonical string", over, "C04.mac-over-canonical")
        if len(auth_ins) == 1:
            ai = auth_ins[0]
            leaves = fmt_leaves(value_source(p, ai)) if value_source(p, ai) is not None else []
            has_scheme = any(isinstance(origin(l), StrV) and origin(l).e.as_string() == SCHEME for l in leaves)
            has_sig = any(is_part_of(l, sig.ret, [("v", "Ok", 0)]) for l in leaves)
            others = [l for l in leaves if not isinstance(origin(l), (StrV, ConstV)) and not is_part_of(l, sig.ret, [("v", "Ok", 0)])]
            import p_c10
            guid_ok = len(others) == 1 and p_c10.await_source(p.events, others[0]) is not None and \
                p_c10.await_source(p.events, others[0]) is p_c10.await_source(p.events, sig.rargs[0])
            ob("authorization value = '<scheme> <key id> <MAC>' from the scheme constant, the key id and this request's MAC, key id and secret from one key read",
               has_scheme and has_sig and guid_ok, "C04.header-value", "leaves %r" % (leaves,))
            fpi = p.index(fp) if fp is not None else 0
            touch = [e for e in p.events[fpi + 1:p.index(relay)] if e.kind == "call" and re.search(r"(HeaderMap::|Request::(headers_mut|uri_mut|method_mut|version_mut|body_mut|extensions_mut))", e.callee)
                     and not e.callee.endswith("Request::headers_mut") and e is not ai]
            hm_calls = [e for e in p.events[fpi + 1:p.index(relay)] if e.kind == "call" and e.callee.endswith("Request::headers_mut")]
            ob("between building the forwarded request and relaying it the only change is the one authorization insert (what is signed is what is sent)",
               not touch and len(hm_calls) == 1, "C04.signed-equals-sent", "other mutations: %s; headers_mut calls: %d" % ([e.callee.split("::")[-1] for e in touch], len(hm_calls)))
            ob("the header is inserted into the request that is relayed, after signing, and nothing else touches it afterwards",
               same_origin(map_owner(p, ai), sent) and p.index(ai) > p.index(sig) and
               not [e for e in p.events[p.index(ai) + 1:p.index(relay)] if e.kind == "call" and re.search(r"(headers_mut|HeaderMap::|uri_mut|method_mut|body_mut)", e.callee)],
               "C04.insert-last")
    rep.add(Query("witness: signed and unsigned relay paths exist", "witness-hit" if n_signed and n_unsigned else "witness-missed", "%d/%d" % (n_signed, n_unsigned), 0, "mirsym"))

    # the two canonical-string builders are structurally the same function of (method, body, headers, uri)
    e1 = ctx.engine(); r1 = e1.explore(ctx.one("hyper_client::as_sig_input"))
    e2 = ctx.engine(); r2 = [r for r in e2.explore(ctx.one("hyper_client::request_to_sign_input")) if isinstance(r.ret, Agg) and r.ret.variant == "Ok"]
    rep.functions_encoded += [ctx.one("hyper_client::as_sig_input"), ctx.one("hyper_client::request_to_sign_input")]
    t1 = [canonical_trace(r) for r in r1]
    full2 = [canonical_trace(r) for r in r2]
    full2 = [t for t in full2 if "headers_to_canonicalized_string" in t and "get_path_and_canonicalized_parameters" in t]

    def norm(t):
        return [x if not x.startswith("bytes-of") else "bytes" for x in t]
    same = len(t1) == 1 and full2 and all(norm(t1[0]) == norm(t) for t in full2 if any(x == "data" or x.startswith("bytes") for x in t))
    detail = "proxied route: %s | agent route: %s" % (t1[:1], full2[:2])
    both_some = [norm(t) for t in full2 if norm(t) == norm(t1[0])] if t1 else []
    rep.add(Query("as_sig_input and request_to_sign_input emit the same sequence: method LF body LF canonical-headers LF path LF canonical-params (same canonicalisers, same order, same separators)",
                  "holds" if both_some else "violated", detail[:600], 0, "mirsym", key="C04.same-canonical-structure", reproduced=None))
    # build_request signs what it sends
    eb = ctx.engine(loop_bound=2)
    rb = eb.explore(ctx.one("hyper_client::build_request"))
    rep.functions_encoded.append(ctx.one("hyper_client::build_request"))
    n = 0
    for i, r in enumerate(rb):
        if not (isinstance(r.ret, Agg) and r.ret.variant == "Ok") or r.status != "return":
            continue
        rs = [e for e in r.events if e.kind == "call" and e.callee.endswith("request_to_sign_input")]
        cs = [e for e in r.events if e.kind == "call" and e.callee.endswith("compute_signature")]
        hdrs = [e for e in r.events if e.kind == "call" and e.callee.endswith("Builder::header")]
        body = [e for e in r.events if e.kind == "call" and e.callee.endswith("Builder::body")]
        if not cs:
            continue
        n += 1
        after = [e for e in r.events[r.events.index(cs[0]):] if e.kind == "call" and re.search(r"Builder::(header|uri|method|version|extension)$", e.callee)]
        ok = len(rs) == 1 and len(after) == 1 and len(body) == 1
        # the builder that is signed is the one completed afterwards
        chain_ok = ok and same_origin(after[0].rargs[0], rs[0].rargs[0]) or ok and _builder_chain(r, rs[0].rargs[0], after[0].rargs[0])
        rep.add(Query("build_request path %d: the builder read by request_to_sign_input is completed with exactly one more header (the authorization) and the body" % i,
                      "holds" if ok and chain_ok else "violated", "headers after signing: %d" % len(after), 0, "mirsym", key="C04.build_request", reproduced=None))
    rep.add(Query("witness: build_request has signed paths", "witness-hit" if n else "witness-missed", "%d" % n, 0, "mirsym"))
    rep.bounds["build_request"] = "header loop bound 2 (<=2 caller headers); %d paths" % len(rb)
    check_canonicalisers(rep, ctx, tier)
    check_mac_unit(rep, ctx)
    check_canonical_order(rep, ctx)
    check_skip_sig_wrapper(rep, ctx)
    import p_c02
    p_c02.check_query_pairs(rep, ctx, "C04")          # both canonicalisers see the query through it
    import batteries
    batteries.confirm(rep, "C04")
    # exemption list semantics (shared with C15)
    p_c15.skip_sig_semantics(rep, ctx, "C04")
    rep.assumptions += ["a latched key is valid hex, so compute_signature succeeds (the failure branch relays unsigned and is reported by the host as an authentication error)",
                        "Future::poll returns Ready"]
    rep.outside_claim += ["collision-freedom of get_path_and_canonicalized_parameters / headers_to_canonicalized_string (format!, HashMap, HeaderMap, sorting over symbolic strings: "
                          "no installed engine finishes 4-byte instances, DESIGN.md section 2)", "HMAC-SHA256 itself (hmac-sha256 crate)", "bytes on the wire (hyper)"]
    rep.trusted += ["mirsym", "z3", "http crate"]


PARAM_TEST = '''
#[cfg(test)]
mod verif_replay_c04_params {
    #[test]
    fn c04_every_query_parameter_is_in_the_canonical_string() {
        let url: hyper::Uri = %(url)s.parse().unwrap();
        let pairs = super::query_pairs(&url);
        let canon = super::get_path_and_canonicalized_parameters(&url).1;
        let items: Vec<&str> = canon.split('&').collect();
        for (k, v) in pairs {
            let want = if v.is_empty() { k.to_lowercase() } else { format!("{}={}", k.to_lowercase(), v) };
            assert!(items.contains(&want.as_str()), "parameter {:?}={:?} of {:?} is missing from the canonical parameters {:?}", k, v, %(url)s, canon);
        }
    }
}
'''

ORDER_TEST = '''
#[cfg(test)]
mod verif_replay_c04_param_order {
    #[test]
    fn c04_canonical_parameters_are_ordered_by_folded_name_then_value() {
        let url: hyper::Uri = %(url)s.parse().unwrap();
        let mut want: Vec<(String, String)> = super::query_pairs(&url).into_iter().map(|(k, v)| (k.to_lowercase(), v)).collect();
        want.sort_by(|a, b| format!("{}{}", a.0, a.1).cmp(&format!("{}{}", b.0, b.1)));
        want.dedup_by(|a, b| format!("{}{}", a.0, a.1) == format!("{}{}", b.0, b.1));
        let want: Vec<String> = want.into_iter().map(|(k, v)| if v.is_empty() { k } else { format!("{}={}", k, v) }).collect();
        let canon = super::get_path_and_canonicalized_parameters(&url).1;
        assert_eq!(canon, want.join("&"), "canonical parameters of {:?}", %(url)s);
    }
}
'''

HEADER_TEST = '''
#[cfg(test)]
mod verif_replay_c04_headers {
    #[test]
    fn c04_every_header_value_is_in_the_canonical_string() {
        let mut headers = hyper::HeaderMap::new();
        headers.append("x-verif", hyper::header::HeaderValue::from_static(%(v1)s));
        headers.append("x-verif", hyper::header::HeaderValue::from_static(%(v2)s));
        let canon = super::headers_to_canonicalized_string(&headers);
        for v in [%(v1)s, %(v2)s] {
            assert!(canon.contains(&format!("x-verif:{}", v.trim())), "header value {:?} is missing from the canonical headers {:?}", v, canon);
        }
    }
}
'''


def check_canonicalisers(rep, ctx, tier):
    """Which (name, value) pairs collapse into one canonical entry? Decided with cvc5 over the key expression read from the MIR."""
    import strterm, smtstr, replay
    N = 3 if tier == "quick" else 6
    # ---- query parameters ----
    path = ctx.one("hyper_client::get_path_and_canonicalized_parameters")
    eng = ctx.engine(loop_bound=2, max_paths=5000)
    paths = eng.explore(path)
    rep.functions_encoded.append(path)
    key_terms = set()
    for r in paths:
        for e in r.events:
            if e.kind == "call" and e.callee.endswith("HashMap::insert") and len(e.rargs) == 3:
                nxt = [x for x in r.events[:r.events.index(e)] if x.kind == "call" and x.callee.endswith("::next")]
                if not nxt:
                    continue
                elem = nxt[-1].ret

                def leaf(v, elem=elem):
                    o = origin(v)
                    if isinstance(o, Sym) and is_part_of(o, elem):
                        chain = []
                        cur = o
                        while isinstance(cur, Sym) and cur.tag[0] == "part":
                            chain.append(cur.tag[2]); cur = origin(cur.tag[1])
                        ks = [c for c in chain if isinstance(c, tuple) and c[0] == "f"]
                        if ks:
                            return "K" if ks[0][1] == 0 else "V"
                    return None
                try:
                    tb = strterm.TermBuilder(r.events, leaf)
                    key_terms.add(tb.term(e.rargs[1]))
                except Inconclusive as ex:
                    key_terms.add("?" + str(ex))
    if len(key_terms) != 1 or next(iter(key_terms)).startswith("?"):
        rep.add(Query("canonical parameters: the de-duplication key is expressible over (name, value)", "inconclusive", str(sorted(key_terms))[:300], 0, "mirsym", key="C04.canonical-params:key"))
    else:
        kt = next(iter(key_terms))

        def inst(t, k, v):
            return re.sub(r"\bK\b", k, re.sub(r"\bV\b", v, t))
        decl = "(set-logic ALL)\n" + "".join("(declare-const %s String)\n" % x + smtstr.ascii_bounded(x, N, 0x30, 0x7a) for x in ("k1", "v1", "k2", "v2")) + \
            "".join("(assert (not (str.contains %s \"=\")))\n(assert (not (str.contains %s \"&\")))\n" % (x, x) for x in ("k1", "k2", "v1", "v2")) + \
            "(assert (>= (str.len k1) 1))\n(assert (>= (str.len k2) 1))\n"
        same = "(assert (= %s %s))\n" % (inst(kt, "k1", "v1"), inst(kt, "k2", "v2"))
        qa = decl + "(assert (= (str.to_lower k1) (str.to_lower k2)))\n(assert (not (= v1 v2)))\n" + same + "(check-sat)\n(get-model)\n"
        qb = decl + "(assert (not (= (str.to_lower k1) (str.to_lower k2))))\n" + same + "(check-sat)\n(get-model)\n"
        # the sort key is lower(name) ++ value: parameters are ordered by their FOLDED names (what is emitted), as the host orders them
        qo = "(set-logic ALL)\n(declare-const k1 String)\n(declare-const v1 String)\n" + smtstr.ascii_bounded("k1", N, 0x30, 0x7a) + smtstr.ascii_bounded("v1", N, 0x30, 0x7a) + \
            "(assert (>= (str.len k1) 1))\n(assert (not (= %s (str.++ (str.to_lower k1) v1))))\n(check-sat)\n(get-model)\n" % inst(kt, "k1", "v1")
        qn = "canonical parameters (key = %s): the sort key of a parameter is its lower-cased name followed by its value" % kt
        res, model, dt, raw = smtstr.run_cvc5(qo)
        if res == "unsat":
            rep.add(Query(qn + " (names/values <= %d chars)" % N, "holds", "", dt, "mirsym+cvc5", key="C04.canonical-params:sort-key"))
        elif res == "sat":
            k1 = model.get("k1", "A")
            url = "http://localhost/p?%s=%s&0=1&A=1&Z=1&_=1&a=1&m=1&z=1&%s=0&KeyOnly" % (k1, model.get("v1", "") or "1", k1.lower() + "0")
            code = ORDER_TEST % {"url": json.dumps(url)}
            tres, out = replay.run_rust_tests("azure-proxy-agent", [("proxy_agent/src/common/hyper_client.rs", code)], "verif_replay_c04_param_order")
            rp = save_replay("C04", "sort-key.rs", "// append to proxy_agent/src/common/hyper_client.rs; cargo test -p azure-proxy-agent verif_replay_c04_param_order\n" + code)
            st = (tres or {}).get("c04_canonical_parameters_are_ordered_by_folded_name_then_value")
            if st == "FAILED":
                rep.traces_validated += 1
            rep.add(Query(qn, "violated" if st == "FAILED" else "inconclusive", "cvc5 model %s -> url %s; native replay against the reference order: %s" % (model, url, st), dt, "mirsym+cvc5",
                          key="C04.canonical-params:sort-key", model=model, replay=rp, reproduced=True if st == "FAILED" else (False if st == "ok" else None)))
        else:
            rep.add(Query(qn, "inconclusive", raw, dt, "mirsym+cvc5", key="C04.canonical-params:sort-key"))
        for (qn, q, key) in (("canonical parameters (key = %s): two values of the SAME name never collapse into one entry" % kt, qa, "C04.canonical-params:same-name-values-collapse"),
                             ("canonical parameters (key = %s): parameters with DIFFERENT names never collapse into one entry" % kt, qb, "C04.canonical-params:different-names-collapse")):
            res, model, dt, raw = smtstr.run_cvc5(q)
            if res == "unsat":
                rep.add(Query(qn + " (names/values <= %d chars)" % N, "holds", "", dt, "mirsym+cvc5", key=key))
            elif res == "sat":
                url = "http://localhost/p?%s=%s&%s=%s" % (model.get("k1", ""), model.get("v1", ""), model.get("k2", ""), model.get("v2", ""))
                code = PARAM_TEST % {"url": json.dumps(url)}
                tres, out = replay.run_rust_tests("azure-proxy-agent", [("proxy_agent/src/common/hyper_client.rs", code)], "verif_replay_c04_params")
                rp = save_replay("C04", key.split(":")[1] + ".rs", "// append to proxy_agent/src/common/hyper_client.rs; cargo test -p azure-proxy-agent verif_replay_c04_params\n" + code)
                st = (tres or {}).get("c04_every_query_parameter_is_in_the_canonical_string")
                if st == "FAILED":
                    rep.traces_validated += 1
                rep.add(Query(qn, "violated" if st in ("FAILED", "ok") else "inconclusive", "cvc5 model %s -> url %s; native replay: %s" % (model, url, st), dt, "mirsym+cvc5", key=key, model=model, replay=rp,
                              reproduced=True if st == "FAILED" else (False if st == "ok" else None)))
            else:
                rep.add(Query(qn, "inconclusive", raw, dt, "mirsym+cvc5", key=key))
    # ---- headers ----
    path = ctx.one("hyper_client::headers_to_canonicalized_string")
    eng = ctx.engine(loop_bound=2, max_paths=5000)
    paths = eng.explore(path)
    rep.functions_encoded.append(path)
    hk = set()
    for r in paths:
        for e in r.events:
            if e.kind == "call" and e.callee.endswith("HashMap::insert") and len(e.rargs) == 3:
                nxt = [x for x in r.events[:r.events.index(e)] if x.kind == "call" and x.callee.endswith("::next")]
                if not nxt:
                    continue
                elem = nxt[-1].ret

                def leaf(v, elem=elem):
                    o = origin(v)
                    if isinstance(o, Sym) and is_part_of(o, elem):
                        cur, chain = o, []
                        while isinstance(cur, Sym) and cur.tag[0] == "part":
                            chain.append(cur.tag[2]); cur = origin(cur.tag[1])
                        ks = [c for c in chain if isinstance(c, tuple) and c[0] == "f"]
                        if ks:
                            return "K" if ks[0][1] == 0 else "V"
                    return None
                try:
                    hk.add(strterm.TermBuilder(r.events, leaf).term(e.rargs[1]))
                except Inconclusive as ex:
                    hk.add("?" + str(ex))
    if len(hk) != 1 or next(iter(hk)).startswith("?"):
        rep.add(Query("canonical headers: the de-duplication key is expressible over (name, value)", "inconclusive", str(sorted(hk))[:300], 0, "mirsym", key="C04.canonical-headers:key"))
    else:
        kt = next(iter(hk))
        qn = "canonical headers (key = %s): two values sent under one header name never collapse into one entry" % kt
        key = "C04.canonical-headers:repeated-name-values-collapse"
        q = "(set-logic ALL)\n" + "".join("(declare-const %s String)\n" % x + smtstr.ascii_bounded(x, N, 0x61, 0x7a) for x in ("k1", "v1", "v2")) + \
            "(assert (>= (str.len k1) 1))\n(assert (>= (str.len v1) 1))\n(assert (>= (str.len v2) 1))\n(assert (not (= v1 v2)))\n" + \
            "(assert (= %s %s))\n(check-sat)\n(get-model)\n" % (re.sub(r"\bV\b", "v1", re.sub(r"\bK\b", "k1", kt)), re.sub(r"\bV\b", "v2", re.sub(r"\bK\b", "k1", kt)))
        res, model, dt, raw = smtstr.run_cvc5(q)
        if res == "unsat":
            rep.add(Query(qn, "holds", "", dt, "mirsym+cvc5", key=key))
        elif res == "sat":
            code = HEADER_TEST % {"v1": json.dumps(model.get("v1", "a")), "v2": json.dumps(model.get("v2", "b"))}
            tres, out = replay.run_rust_tests("azure-proxy-agent", [("proxy_agent/src/common/hyper_client.rs", code)], "verif_replay_c04_headers")
            rp = save_replay("C04", "repeated_header_values.rs", "// append to proxy_agent/src/common/hyper_client.rs; cargo test -p azure-proxy-agent verif_replay_c04_headers\n" + code)
            st = (tres or {}).get("c04_every_header_value_is_in_the_canonical_string")
            if st == "FAILED":
                rep.traces_validated += 1
            rep.add(Query(qn, "violated" if st in ("FAILED", "ok") else "inconclusive", "cvc5 model %s; native replay: %s" % (model, st), dt, "mirsym+cvc5", key=key, model=model, replay=rp,
                          reproduced=True if st == "FAILED" else (False if st == "ok" else None)))
        else:
            rep.add(Query(qn, "inconclusive", raw, dt, "mirsym+cvc5", key=key))
    rep.bounds["canonicalisers"] = "names/values <= %d ASCII characters; <= 2 parameters / headers iterated" % N


def _builder_chain(r, signed_builder, completed_builder):
    """completed_builder is the value whose reference was passed to request_to_sign_input (moves preserve identity)"""
    a, b = origin(signed_builder), origin(completed_builder)
    return a is b


def replay(path):
    print(open(path).read())
    return 0
