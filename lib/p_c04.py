"""C04 relayed requests carry a valid HMAC over what the host receives -- narrowed claim (DESIGN.md 4/C04):
data-flow of both signing routes, structural identity of the two canonical-string builders, exemption list.
Canonicaliser injectivity and HMAC-SHA256 itself are outside reach and stated as such."""
from mcommon import *
from handler_model import *
from p_c01 import violated
from p_c05 import header_name_of, value_source, map_owner, relayed_request_chain, const_str
import p_c15


def canonical_trace(r):
    """Sequence of (callee tail, role of data) that builds the sign input, for structural comparison."""
    out = []
    for e in r.events:
        if e.kind != "call":
            continue
        t = e.callee.split("::")[-1]
        if t in ("headers_to_canonicalized_string", "get_path_and_canonicalized_parameters"):
            out.append(t)
        elif t == "extend" or t == "to_vec" or t == "extend_from_slice":
            a = e.rargs[-1]
            o = origin(a)
            if isinstance(o, Sym) and o.tag[0] == "ret" and o.tag[1].endswith("as_bytes"):
                for e2 in r.events:
                    if e2.ret is o:
                        src = origin(e2.rargs[0])
                        if isinstance(src, StrV):
                            out.append("lit:" + src.e.as_string())
                        elif isinstance(src, Sym) and src.tag[0] == "ret":
                            out.append("bytes-of:" + src.tag[1].split("::")[-1])
                        elif isinstance(src, Sym) and src.tag[0] == "part":
                            out.append("bytes-of-part")
                        else:
                            out.append("bytes-of:?")
            elif isinstance(o, StrV):
                out.append("lit:" + o.e.as_string())
            else:
                out.append("data")
    return out


def check(rep, tier, seed):
    ctx = Ctx("agent")
    rep.extra["mir_dump"] = {"cache_hit": ctx.dump.cache_hit, "tree_hash": ctx.dump.hash, "seconds": round(ctx.dump.seconds, 1)}
    hm = HandlerModel(ctx, rep)
    AU = const_str(ctx, "AUTHORIZATION_HEADER")
    SCHEME = const_str(ctx, "AUTHORIZATION_SCHEME")
    rep.add(Query("constant AUTHORIZATION_SCHEME = Azure-HMAC-SHA256", "holds" if SCHEME == "Azure-HMAC-SHA256" else "violated", SCHEME, 0, "mirsym", key="C04.const-scheme", nontrivial=False, reproduced=None))
    n_signed = n_unsigned = 0
    for p in hm.paths:
        if not p.relays:
            continue
        relay = p.relays[0]
        pre = p.events[:p.index(relay)]
        skip = p.first(r"HttpConnectionContext::should_skip_sig$", ("call",))
        cs = [e for e in pre if e.kind == "call" and e.callee.endswith("compute_signature")]
        asi = [e for e in pre if e.kind == "call" and e.callee.endswith("as_sig_input")]
        inserts = [e for e in pre if e.kind == "call" and e.callee.endswith("HeaderMap::insert")]
        auth_ins = [e for e in inserts if header_name_of(p, e) == AU]
        sent, fp, ip = relayed_request_chain(p, relay)

        def ob(name, ok, key, detail=""):
            qn = "path %d: %s" % (p.i, name)
            if ok:
                rep.add(Query(qn, "holds", detail, 0, "mirsym", key=key))
            else:
                violated(rep, qn, key, detail, p)
        kv = p.first(r"get_current_key", ("await",))
        if skip is not None and p.implied(skip.ret.scalar("bool")):
            ob("exempt upload is relayed without a proxy signature", not auth_ins and not cs, "C04.exempt-unsigned")
            continue
        if not cs:
            # no key latched (or key read failed): nothing to sign with
            n_unsigned += 1
            ob("no key => no authorization header is fabricated", not auth_ins, "C04.nokey-noheader")
            continue
        sig = cs[0]
        if p.implied(sig.ret.discr() == 1):
            ob("signature computation failed => no authorization header", not auth_ins, "C04.sigerr-noheader")
            continue
        n_signed += 1
        ob("exactly one authorization header insert on a signed relay", len(auth_ins) == 1, "C04.one-insert", "%d" % len(auth_ins))
        ob("exactly one canonical string / one MAC per request", len(asi) == 1 and len(cs) == 1, "C04.one-mac")
        if asi and fp is not None:
            a = asi[0]
            ob("the head that is signed and the head that is forwarded are the same head (clone of into_parts(request).0 after all proxy headers)",
               same_origin(a.rargs[0], fp.rargs[0]) and ip is not None and is_part_of(a.rargs[0], ip.ret, [("f", 0)]), "C04.same-head")
            # body signed == body forwarded
            body_fwd = None
            for e in pre:
                if e.ret is origin(fp.rargs[1]) and e.callee.endswith("Full::new"):
                    body_fwd = e.rargs[0]
            ob("the body that is signed and the body that is forwarded are clones of the one collected body", body_fwd is not None and same_origin(a.rargs[1], body_fwd), "C04.same-body")
            # MAC computed over that canonical string under the key read for this request
            so = origin(sig.rargs[1])
            over = False
            if isinstance(so, Sym) and so.tag[0] == "ret" and so.tag[1].endswith("as_slice"):
                for e in pre:
                    if e.ret is so:
                        over = same_origin(e.rargs[0], a.ret)
            ob("compute_signature is applied to that canonical string", over, "C04.mac-over-canonical")
        if len(auth_ins) == 1:
            ai = auth_ins[0]
            leaves = fmt_leaves(value_source(p, ai)) if value_source(p, ai) is not None else []
            has_scheme = any(isinstance(origin(l), StrV) and origin(l).e.as_string() == SCHEME for l in leaves)
            has_sig = any(is_part_of(l, sig.ret, [("v", "Ok", 0)]) for l in leaves)
            others = [l for l in leaves if not isinstance(origin(l), (StrV, ConstV)) and not is_part_of(l, sig.ret, [("v", "Ok", 0)])]
            import p_c10
            guid_ok = len(others) == 1 and p_c10.await_source(p.events, others[0]) is not None and \
                p_c10.await_source(p.events, others[0]) is p_c10.await_source(p.events, sig.rargs[0])
            ob("authorization value = '<scheme> <key id> <MAC>' from the scheme constant, the key id and this request's MAC, key id and secret from one key read",
               has_scheme and has_sig and guid_ok, "C04.header-value", "leaves %r" % (leaves,))
            fpi = p.index(fp) if fp is not None else 0
            touch = [e for e in p.events[fpi + 1:p.index(relay)] if e.kind == "call" and re.search(r"(HeaderMap::|Request::(headers_mut|uri_mut|method_mut|version_mut|body_mut|extensions_mut))", e.callee)
                     and not e.callee.endswith("Request::headers_mut") and e is not ai]
            hm_calls = [e for e in p.events[fpi + 1:p.index(relay)] if e.kind == "call" and e.callee.endswith("Request::headers_mut")]
            ob("between building the forwarded request and relaying it the only change is the one authorization insert (what is signed is what is sent)",
               not touch and len(hm_calls) == 1, "C04.signed-equals-sent", "other mutations: %s; headers_mut calls: %d" % ([e.callee.split("::")[-1] for e in touch], len(hm_calls)))
            ob("the header is inserted into the request that is relayed, after signing, and nothing else touches it afterwards",
               same_origin(map_owner(p, ai), sent) and p.index(ai) > p.index(sig) and
               not [e for e in p.events[p.index(ai) + 1:p.index(relay)] if e.kind == "call" and re.search(r"(headers_mut|HeaderMap::|uri_mut|method_mut|body_mut)", e.callee)],
               "C04.insert-last")
    rep.add(Query("witness: signed and unsigned relay paths exist", "witness-hit" if n_signed and n_unsigned else "witness-missed", "%d/%d" % (n_signed, n_unsigned), 0, "mirsym"))

    # the two canonical-string builders are structurally the same function of (method, body, headers, uri)
    e1 = ctx.engine(); r1 = e1.explore(ctx.one("hyper_client::as_sig_input"))
    e2 = ctx.engine(); r2 = [r for r in e2.explore(ctx.one("hyper_client::request_to_sign_input")) if isinstance(r.ret, Agg) and r.ret.variant == "Ok"]
    rep.functions_encoded += [ctx.one("hyper_client::as_sig_input"), ctx.one("hyper_client::request_to_sign_input")]
    t1 = [canonical_trace(r) for r in r1]
    full2 = [canonical_trace(r) for r in r2]
    full2 = [t for t in full2 if "headers_to_canonicalized_string" in t and "get_path_and_canonicalized_parameters" in t]

    def norm(t):
        return [x if not x.startswith("bytes-of") else "bytes" for x in t]
    same = len(t1) == 1 and full2 and all(norm(t1[0]) == norm(t) for t in full2 if any(x == "data" or x.startswith("bytes") for x in t))
    detail = "proxied route: %s | agent route: %s" % (t1[:1], full2[:2])
    both_some = [norm(t) for t in full2 if norm(t) == norm(t1[0])] if t1 else []
    rep.add(Query("as_sig_input and request_to_sign_input emit the same sequence: method LF body LF canonical-headers LF path LF canonical-params (same canonicalisers, same order, same separators)",
                  "holds" if both_some else "violated", detail[:600], 0, "mirsym", key="C04.same-canonical-structure", reproduced=None))
    # build_request signs what it sends
    eb = ctx.engine(loop_bound=2)
    rb = eb.explore(ctx.one("hyper_client::build_request"))
    rep.functions_encoded.append(ctx.one("hyper_client::build_request"))
    n = 0
    for i, r in enumerate(rb):
        if not (isinstance(r.ret, Agg) and r.ret.variant == "Ok") or r.status != "return":
            continue
        rs = [e for e in r.events if e.kind == "call" and e.callee.endswith("request_to_sign_input")]
        cs = [e for e in r.events if e.kind == "call" and e.callee.endswith("compute_signature")]
        hdrs = [e for e in r.events if e.kind == "call" and e.callee.endswith("Builder::header")]
        body = [e for e in r.events if e.kind == "call" and e.callee.endswith("Builder::body")]
        if not cs:
            continue
        n += 1
        after = [e for e in r.events[r.events.index(cs[0]):] if e.kind == "call" and re.search(r"Builder::(header|uri|method|version|extension)$", e.callee)]
        ok = len(rs) == 1 and len(after) == 1 and len(body) == 1
        # the builder that is signed is the one completed afterwards
        chain_ok = ok and same_origin(after[0].rargs[0], rs[0].rargs[0]) or ok and _builder_chain(r, rs[0].rargs[0], after[0].rargs[0])
        rep.add(Query("build_request path %d: the builder read by request_to_sign_input is completed with exactly one more header (the authorization) and the body" % i,
                      "holds" if ok and chain_ok else "violated", "headers after signing: %d" % len(after), 0, "mirsym", key="C04.build_request", reproduced=None))
    rep.add(Query("witness: build_request has signed paths", "witness-hit" if n else "witness-missed", "%d" % n, 0, "mirsym"))
    rep.bounds["build_request"] = "header loop bound 2 (<=2 caller headers); %d paths" % len(rb)
    # exemption list semantics (shared with C15)
    p_c15.skip_sig_semantics(rep, ctx, "C04")
    rep.assumptions += ["a latched key is valid hex, so compute_signature succeeds (the failure branch relays unsigned and is reported by the host as an authentication error)",
                        "Future::poll returns Ready"]
    rep.outside_claim += ["collision-freedom of get_path_and_canonicalized_parameters / headers_to_canonicalized_string (format!, HashMap, HeaderMap, sorting over symbolic strings: "
                          "no installed engine finishes 4-byte instances, DESIGN.md section 2)", "HMAC-SHA256 itself (hmac-sha256 crate)", "bytes on the wire (hyper)"]
    rep.trusted += ["mirsym", "z3", "http crate"]


def _builder_chain(r, signed_builder, completed_builder):
    """completed_builder is the value whose reference was passed to request_to_sign_input (moves preserve identity)"""
    a, b = origin(signed_builder), origin(completed_builder)
    return a is b


def replay(path):
    print(open(path).read())
    return 0
