"""String queries that need str.to_lower: SMT-LIB2 text for cvc5 (--strings-exp), z3 as a cross-check where it can parse."""
import re, subprocess, time


def run_cvc5(smt, timeout=120):
    t0 = time.time()
    import os
    if os.environ.get("VERIF_DUMP_SMT"):
        with open(os.environ["VERIF_DUMP_SMT"], "a") as f:
            f.write(";; ---- query\n" + smt + "\n")
    try:
        p = subprocess.run(["cvc5", "--lang", "smt2", "--strings-exp", "--produce-models", "--tlimit=%d" % (timeout * 1000)],
                           input=smt, capture_output=True, text=True, timeout=timeout + 10)
    except subprocess.TimeoutExpired:
        return "unknown", {}, time.time() - t0, "timeout"
    out = p.stdout.strip()
    dt = time.time() - t0
    first = out.split("\n", 1)[0].strip()
    errs = [l for l in (out + "\n" + p.stderr).split("\n") if "(error" in l]
    if first == "unsat":
        errs = [l for l in errs if "Cannot get model" not in l]     # (get-model) after unsat is expected to be refused
    if errs:
        return "unknown", {}, dt, "; ".join(errs)[-300:]
    model = {}
    if first == "sat":
        for m in re.finditer(r"\(define-fun (\S+) \(\) String \"((?:[^\"]|\"\")*)\"\)", out):
            model[m.group(1)] = m.group(2).replace('""', '"')
        for m in re.finditer(r"\(define-fun (\S+) \(\) Bool (true|false)\)", out):
            model[m.group(1)] = m.group(2) == "true"
    return first if first in ("sat", "unsat") else "unknown", model, dt, out[-300:]


def ascii_bounded(var, maxlen, lo=0x21, hi=0x7e):
    """Constrain a String variable to <= maxlen printable ASCII characters (replayable in a URL / JSON rule)."""
    return "(assert (<= (str.len %s) %d))\n(assert (str.in_re %s (re.* (re.range \"\\u{%x}\" \"\\u{%x}\"))))\n" % (var, maxlen, var, lo, hi)


def lit(s):
    return '"' + s.replace('"', '""') + '"'
