// append to proxy_agent/src/provision.rs; cargo test -p azure-proxy-agent verif_replay_c16

#[cfg(test)]
mod verif_replay_c16 {
    // A query that names no instant (header absent -> 0) on a fresh agent: nothing has reported ready, the deadline has not passed,
    // the channel is not latched; the reported `finished` must be false.
    #[tokio::test(flavor = "current_thread")]
    async fn c16_unfinished_provisioning_is_not_reported_finished() {
        let provision = crate::shared_state::provision_wrapper::ProvisionSharedState::start_new();
        let agent_status = crate::shared_state::agent_status_wrapper::AgentStatusSharedState::start_new();
        let key_keeper = crate::shared_state::key_keeper_wrapper::KeyKeeperSharedState::start_new();
        let st = crate::provision::get_provision_state_internal(provision, agent_status, key_keeper).await;
        let query_time_tick: i128 = 0; // what handle_provision_state_check_request uses without the x-ms-azure-time_tick header
        let report_provision_finished = st.finished_time_tick >= query_time_tick || st.is_secure_channel_latched();
        assert!(st.finished_time_tick == 0 && !st.is_secure_channel_latched(), "precondition: fresh state");
        assert!(!report_provision_finished, "finished reported while provisioning is still in progress (finished_time_tick = 0)");
    }
}
