"""C19 disk usage stays within configured bounds (engine M). DESIGN.md 4/C19.
The three retention mechanisms are executed symbolically with the file COUNT and the LIMIT as free 64-bit values; the list
iterator yields exactly `count` elements (Vec contract). For every explored path z3 decides the number of removals."""
from mcommon import *
from p_c08 import derives, implied


def explore_retention(ctx, path, len_rx, bound, inline=None):
    """Explore `path`; the vector whose `len()` is taken (callee matching len_rx) is iterated: its i-th next() is Some iff i < len."""
    eng = ctx.engine(loop_bound=bound, max_paths=20000, inline=inline or [])
    eng.auto_inline = ctx.new_function_auto()        # helpers extracted from these small units are looked into, whatever module they live in
    state = {}

    def hook(engine, ev):
        if ev.kind == "len" and re.search(len_rx, ev.callee) and "n" not in engine.__dict__.get("_c19", {}):
            engine._c19 = {"n": ev.ret.e, "i": 0}
        if ev.kind == "call" and re.search(r"IntoIter<.*PathBuf.*> as Iterator>::next$|Iter<.*PathBuf.*> as Iterator>::next$", ev.callee) and getattr(engine, "_c19", None):
            st = engine._c19
            i = st["i"]
            engine.require((ev.ret.discr() == 1) == z3.UGT(st["n"], z3.BitVecVal(i, 64)))
            st["i"] = i + 1
    eng.event_hook = hook
    orig_reset = eng._reset

    def reset(prefix):
        orig_reset(prefix)
        eng._c19 = {}
    eng._reset = reset
    return eng, eng.explore(path)


def removal_obligations(rep, name, key, paths, eng_getn, limit_of, bound):
    n_checked = 0
    for i, r in enumerate(paths):
        if r.status != "return" or (isinstance(r.ret, Agg) and r.ret.variant == "Err"):
            continue          # an I/O error aborts the clean-up; the claim is about error-free runs
        rm = [e for e in r.events if e.kind == "call" and e.callee.endswith("remove_file")]
        ln = [e for e in r.events if e.kind == "len" and re.search(eng_getn, e.callee)]
        if not ln:
            if rm:
                rep.add(Query("%s path %d: files are removed without counting them" % (name, i), "violated", "", 0, "mirsym", key=key, reproduced=None))
            elif any(e.kind == "call" and re.search(r"(^|::)rename|json_write_to_file|File::create|OpenOptions::open|fs::write|fs::copy", e.callee) for e in r.events):
                # (a path that adds nothing to the folder - the listing itself failed - cannot grow it and is not asked)
                # the bound is over every history, including a restart that finds the folder already full: an error-free run of the
                # clean-up that never counts what is on disk (e.g. one that trusts a counter kept in memory) leaves n files in place
                rep.add(Query("%s path %d: every error-free run that adds a file to the folder counts the files on disk first (no such path returns without listing them)" % (name, i),
                              "violated", "the path returns Ok with no length taken of the listing; pc %s" % [str(c)[:80] for c in r.pc[-3:]], 0, "mirsym", key=key + ".counted", reproduced=None))
            continue
        rep.add(Query("%s path %d: every error-free run that adds a file to the folder counts the files on disk first (no such path returns without listing them)" % (name, i), "holds", "", 0, "mirsym", key=key + ".counted", reproduced=None))
        n = ln[0].ret.e
        m = limit_of(r)
        if m is None:
            rep.add(Query("%s path %d: the limit is identified" % (name, i), "inconclusive", "", 0, "mirsym", key=key))
            continue
        n_checked += 1
        k = z3.BitVecVal(len(rm), 64)
        sane = z3.And(z3.UGE(m, 1), z3.ULT(n, z3.BitVecVal(1 << 40, 64)), z3.ULT(m, z3.BitVecVal(1 << 40, 64)))
        want = z3.If(z3.UGE(n, m), n - m + 1, z3.BitVecVal(0, 64))
        bad = add_query(rep, "%s path %d: with n files found and limit m the number removed is n-m+1 if n >= m, else 0 (so at most m-1 remain before the new file is written)" % (name, i),
                        r.pc + [sane, k != want], key=key)
        if bad:
            rep.add(Query("%s path %d: wrong number of removals" % (name, i), "violated", "removed %d; model %s" % (len(rm), bad[0]), bad[1], "mirsym+z3", key=key, model=bad[0], reproduced=None,
                          replay=save_replay("C19", "%s_path%d.json" % (re.sub(r"\W+", "_", name), i), json.dumps({"removed": len(rm), "model": bad[0]}, indent=1))))
        # oldest first: the j-th removal is the j-th element of the (sorted) list
        nx = [e for e in r.events if e.kind == "call" and e.callee.endswith("::next")]
        ok_order = all(j < len(nx) and derives(rm[j].rargs[0], nx[j].ret, r.events) for j in range(len(rm)))
        rep.add(Query("%s path %d: removals take the list in order from its head (oldest names first)" % (name, i), "holds" if ok_order else "violated", "", 0, "mirsym", key=key + ".order", reproduced=None))
    rep.add(Query("witness: %s paths with counted removals" % name, "witness-hit" if n_checked else "witness-missed", "%d" % n_checked, 0, "mirsym"))


def check(rep, tier, seed):
    ctx = Ctx("agent")
    sctx = Ctx("shared")
    rep.extra["mir_dump"] = {"cache_hit": ctx.dump.cache_hit, "tree_hash": ctx.dump.hash, "seconds": round(ctx.dump.seconds, 1)}
    bound = 3 if tier == "quick" else 5
    # 1. rule dumps: AuthorizationRulesForLogging::write_all(path_dir, max_file_count)
    w = ctx.method("AuthorizationRulesForLogging", "write_all")
    eng, paths = explore_retention(ctx, w, r"Vec::len$", bound)
    rep.functions_encoded.append(w)
    removal_obligations(rep, "rule dumps (write_all)", "C19.rule-dumps", paths, r"Vec::len$", lambda r: r.args[2].scalar("usize"), bound)
    for i, r in enumerate(paths):
        if r.status != "return":
            continue
        jw = [e for e in r.events if e.kind == "call" and e.callee.endswith("json_write_to_file")]
        rm = [e for e in r.events if e.kind == "call" and e.callee.endswith("remove_file")]
        sf = [e for e in r.events if e.kind == "call" and e.callee.endswith("search_files")]
        if jw:
            ok = all(r.events.index(x) < r.events.index(jw[0]) for x in rm) and len(jw) == 1 and bool(sf)
            rep.add(Query("rule dumps path %d: old dumps are removed before the one new dump is written" % i, "holds" if ok else "violated", "", 0, "mirsym", key="C19.rule-dumps.order2", reproduced=None))
    # 2. rolling logger: archive_file (shared crate)
    cands = [p for p in sctx.idx.files if p.endswith("::archive_file")]
    if len(cands) == 1:
        fidx = sctx.field("RollingLogger", "max_log_file_count")
        eng2, paths2 = explore_retention(sctx, cands[0], r"Vec::len$", bound)
        rep.functions_encoded.append("proxy_agent_shared::" + cands[0])

        def lim(r):
            me = origin(r.args[0]).child("*").child(("f", fidx))
            # usize::from(u16): the limit as read by the code
            cv = [e for e in r.events if e.kind == "call" and re.search(r"(Into<usize>>::into|From<u16>>::from)$", e.callee)]
            if cv:
                return cv[0].ret.scalar("usize")
            return None
        # the `into()` conversion is origin-preserving in the engine: take the compared value from the path instead
        def lim2(r):
            me = origin(r.args[0]).child("*").child(("f", fidx))
            names = [x for x in (me,)]
            return z3.ZeroExt(48, me.scalar("u16")) if True else None
        removal_obligations(rep, "rolling log (archive_file)", "C19.rolling-log", paths2, r"Vec::len$", lambda r: _limit_from_pc(r), bound)
    else:
        rep.add(Query("RollingLogger::archive_file located", "inconclusive", "%d candidates" % len(cands), 0, "mirsym"))
    c2 = [p for p in sctx.idx.files if p.endswith("::roll_if_needed")]
    if len(c2) == 1:
        e3 = sctx.engine()
        e3.auto_inline = sctx.new_function_auto()
        for i, r in enumerate(e3.explore(c2[0])):
            ar = [e for e in r.events if e.kind == "call" and e.callee.endswith("archive_file")]
            md = [e for e in r.events if e.kind == "call" and re.search(r"Metadata::len$", e.callee)]
            if r.status == "return" and isinstance(r.ret, Agg) and r.ret.variant == "Ok":
                # the size that decides is the size of the current log file ON DISK (a restart finds the file left by the earlier run)
                mt = [e for e in r.events if e.kind == "call" and re.search(r"(Path|PathBuf|File)::metadata$|fs::metadata$", e.callee)]
                cf = [e for e in r.events if e.kind == "call" and e.callee.endswith("get_current_file_full_path")]
                src_ok = bool(md) and bool(mt) and is_part_of(origin(md[0].rargs[0]), mt[0].ret) and \
                    (any(derives(mt[0].rargs[0], c.ret, r.events) for c in cf) or any(e.kind == "call" and e.callee.endswith("File::metadata") for e in mt))
                rep.add(Query("roll_if_needed path %d: the size compared with the limit is the metadata length of the current log file" % i, "holds" if src_ok else "violated",
                              "Metadata::len events %d, metadata() events %d" % (len(md), len(mt)), 0, "mirsym", key="C19.rolling-log.size-source", reproduced=None))
                if not md:
                    continue
                size = md[0].ret.scalar("u64")
                mx = origin(r.args[0]).child("*").child(("f", sctx.field("RollingLogger", "max_log_file_size")), "u64").scalar("u64")
                bad = add_query(rep, "roll_if_needed path %d: the file is archived exactly when its size has reached the limit (so it exceeds the limit by at most one write)" % i,
                                r.pc + [z3.UGE(size, mx) != z3.BoolVal(bool(ar))], key="C19.rolling-log.size")
                if bad:
                    rep.add(Query("roll_if_needed path %d: size test wrong" % i, "violated", str(bad[0]), bad[1], "mirsym+z3", key="C19.rolling-log.size", model=bad[0], reproduced=None))
        rep.functions_encoded.append("proxy_agent_shared::" + c2[0])
    # 2b. the writers: the roll decision is taken BEFORE the file is opened for this write (a handle opened first still points at the file the
    #     roll has just archived: the write lands in the archive, which then exceeds its limit by more than one write)
    for fn in ("write_line", "write_many"):
        cw = [p for p in sctx.idx.files if re.search(r"rolling_logger.*::%s$" % fn, p)]
        if len(cw) != 1:
            rep.add(Query("RollingLogger::%s located" % fn, "inconclusive", "%d candidates" % len(cw), 0, "mirsym", key="C19.rolling-log.write-order"))
            continue
        ew = sctx.engine(loop_bound=1, max_paths=4000)
        ew.auto_inline = sctx.new_function_auto()
        nw = 0
        for i, r in enumerate(ew.explore(cw[0])):
            wr = [e for e in r.events if e.kind == "call" and re.search(r"Write>::write_all$|Write>::write$|(^|::)write_all$", e.callee)]
            if not wr:
                continue
            nw += 1
            ro = [e for e in r.events if e.kind == "call" and e.callee.endswith("roll_if_needed")]
            op = [e for e in r.events if e.kind == "call" and (e.callee.endswith("open_file") or re.search(r"OpenOptions::open$|File::create$", e.callee))]
            ok = len(ro) == 1 and len(op) == 1 and r.events.index(ro[0]) < r.events.index(op[0]) < r.events.index(wr[0]) and implied(r, ro[0].ret.discr() != 1)
            rep.add(Query("%s path %d: roll_if_needed (once, successful) precedes the one open of the file that is written" % (fn, i), "holds" if ok else "violated",
                          "order: %s" % [e.callee.split("::")[-1] for e in r.events if e in ro + op + wr[:1]], 0, "mirsym+z3", key="C19.rolling-log.write-order", reproduced=None))
        rep.functions_encoded.append("proxy_agent_shared::" + cw[0])
        rep.add(Query("witness: %s has a writing path" % fn, "witness-hit" if nw else "witness-missed", "%d" % nw, 0, "mirsym"))
    # 3. event directory cap: event_logger::start
    c3 = [p for p in sctx.idx.files if re.search(r"event_logger::start::\{closure#0\}$", p)]
    if len(c3) == 1:
        # one flush of the loop from an arbitrary state: from the directory listing to the next sleep; inner loops twice
        # (a second file written after the same listing must be counted against the cap as well)
        e4 = sctx.engine(loop_bound=2, max_paths=40000)
        e4.auto_inline = sctx.new_function_auto()
        gfb = e4.find_blocks(c3[0], r"get_files$")
        n = 0
        for i, r in enumerate(e4.explore(c3[0], start_bb=gfb[0], stop_calls=r"tokio::time::sleep$|(^|::)sleep$|is_closed$") if len(gfb) == 1 else e4.explore(c3[0])):
            gf = [e for e in r.events if e.kind == "call" and e.callee.endswith("get_files")]
            ln = [e for e in r.events if e.kind == "len" and e.callee.endswith("Vec::len")]
            wr = [e for e in r.events if e.kind == "call" and re.search(r"(json_write_to_file|File::create|fs::write)$", e.callee)]
            if not gf:
                continue
            for wv in wr:
                wi = r.events.index(wv)
                g = [e for e in gf if r.events.index(e) < wi]
                if not g:
                    continue
                g = g[-1]
                if implied(r, g.ret.discr() == 1):
                    continue          # the directory could not be listed: nothing to compare with
                l2 = [e for e in ln if r.events.index(g) < r.events.index(e) < wi and derives(e.rargs[0], g.ret, r.events)]
                n += 1
                ok = False
                if l2:
                    capv = _cap_from_pc(r, l2[-1].ret.e)
                    # files written since that listing count too: listing + earlier writes < cap
                    k = len([x for x in wr if r.events.index(g) < r.events.index(x) < wi])
                    ok = capv is not None and implied(r, z3.And(z3.ULT(l2[-1].ret.e, capv), z3.ULT(l2[-1].ret.e + z3.BitVecVal(k, l2[-1].ret.e.size()), capv)))
                rep.add(Query("event logger path %d: an event file is written only when the directory listing just taken holds fewer files than the cap" % i, "holds" if ok else "violated", "", 0, "mirsym+z3",
                              key="C19.event-cap", reproduced=None))
        rep.add(Query("witness: event logger writing paths", "witness-hit" if n else "witness-missed", "%d" % n, 0, "mirsym"))
        rep.functions_encoded.append("proxy_agent_shared::" + c3[0])
    else:
        rep.add(Query("event_logger::start body located", "inconclusive", "%d candidates" % len(c3), 0, "mirsym"))
    rep.bounds["retention"] = "removal loops unrolled %d times (n - m + 1 <= %d); counts and limits free 64-bit values below 2^40" % (bound, bound)
    rep.assumptions += ["a Vec iterator yields exactly len() elements", "limits are >= 1", "the file lists are sorted by name = by age (timestamps in the names)"]
    rep.outside_claim += ["the file system itself, concurrent writers, files created by other programs in the same directories"]
    rep.trusted += ["mirsym", "z3"]
    import p_c19_names
    p_c19_names.check_names(rep, ctx, sctx)
    import batteries
    batteries.confirm(rep, "C19")
    ub = rep.extra.get("unit_battery") or {}
    if ub.get("ran") and not ub.get("failed"):
        # a name component the analysis could not read (free in the query) may well be constant in fact: when the native histories
        # (mixed-case names, rule sets of every mode in both directions) all pass, such a model is inconclusive, not an alarm
        for q in rep.queries:
            if q.status == "violated" and q.reproduced is None and (q.key or "").startswith("C19.names.") and any(k.startswith("unk") for k in (q.model or {})):
                q.reproduced = False
                q.detail += " || the model uses a component the analysis could not read and the native histories pass: inconclusive"


def _limit_from_pc(r):
    """the 64-bit value the file count is compared with (`file_count >= max_count`) on this path"""
    ln = [e for e in r.events if e.kind == "len" and e.callee.endswith("Vec::len")]
    if not ln:
        return None
    return _cap_from_pc(r, ln[0].ret.e)


def _cap_from_pc(r, nvar):
    target = str(nvar)

    def walk(e):
        if z3.is_app(e):
            if e.decl().kind() in (z3.Z3_OP_UGEQ, z3.Z3_OP_ULEQ, z3.Z3_OP_UGT, z3.Z3_OP_ULT) and e.num_args() == 2:
                a, b = e.arg(0), e.arg(1)
                if str(a) == target and str(b) != target:
                    return b
                if str(b) == target and str(a) != target and not z3.is_bv_value(a):
                    return a
            for k in range(e.num_args()):
                x = walk(e.arg(k))
                if x is not None:
                    return x
        return None
    for c in r.pc:
        x = walk(c)
        if x is not None:
            return x
    return None


def replay(path):
    print(open(path).read())
    return 0
