"""C11 enforce / audit / disabled and record-once (engine M). See DESIGN.md 4/C11."""
from mcommon import *
from handler_model import *
from p_c01 import violated
import p_c03


def check_authorizer_modes(rep, ctx):
    eng, paths = p_c03.authorize_paths(ctx, rep)
    AR = ctx.enums["AuthorizeResult"]
    AM = ctx.enums["AuthorizationMode"]
    mode_idx = ctx.field("ComputedAuthorizationItem", "mode")
    endpoints = {"WireServer": ("168.63.129.16", 80), "HostGAPlugin": ("168.63.129.16", 32526), "IMDS": ("169.254.169.254", 80)}
    for i, r in enumerate(paths):
        ipz, portz, elev = p_c03.path_inputs(ctx, r)
        d = p_c03.ret_discr(ctx, r)
        ent = [e for e in r.events if e.kind == "enter" and e.callee.endswith("::authorize") and len(e.args) == 4]
        if not ent:
            continue
        rules = origin(ent[0].args[3])
        if not isinstance(rules, Sym):
            continue
        present = rules.discr() == 1
        mode = rules.child(("v", "Some", 0)).child(("f", mode_idx)).discr()
        ia = [e for e in r.events if e.kind == "call" and e.callee.endswith("is_allowed")]
        allowed = ia[0].ret.scalar("bool") if ia else None
        for ep, (ip, port) in endpoints.items():
            here = [ipz == z3.StringVal(ip), portz == port, elev]
            cases = [
                ("rules deny, mode Enforce => Forbidden", [present, mode == AM.index("Enforce")] + ([z3.Not(allowed)] if allowed is not None else [z3.BoolVal(False)]), AR.index("Forbidden")),
                ("rules deny, mode Audit => OkWithAudit", [present, mode == AM.index("Audit")] + ([z3.Not(allowed)] if allowed is not None else [z3.BoolVal(False)]), AR.index("OkWithAudit")),
                ("rules allow => Ok", [present] + ([allowed] if allowed is not None else [z3.BoolVal(False)]), AR.index("Ok")),
                ("no rules => Ok", [z3.Not(present)], AR.index("Ok")),
            ]
            for cname, prem, want in cases:
                qn = "authorize path %d, %s (elevated caller): %s" % (i, ep, cname)
                bad = add_query(rep, qn, r.pc + here + prem + [z3.BoolVal(d != want)], key="C11.mode:%s:%s" % (ep, cname))
                if bad:
                    rep.add(Query(qn, "violated", "returns %s; model %s" % (AR[d], bad[0]), bad[1], "mirsym+z3", key="C11.mode:%s:%s" % (ep, cname), model=bad[0], reproduced=None,
                                  replay=save_replay("C11", "authorize_path%d_%s.json" % (i, ep), json.dumps({"model": bad[0], "returns": AR[d], "case": cname}, indent=1))))
            # a present rule set must be consulted (is_allowed called) before the decision
            qn = "authorize path %d, %s: present rules are consulted" % (i, ep)
            bad = add_query(rep, qn, r.pc + here + [present, z3.BoolVal(allowed is None)], key="C11.consulted:" + ep)
            if bad:
                rep.add(Query(qn, "violated", "a path decides without calling is_allowed", bad[1], "mirsym+z3", key="C11.consulted:" + ep, model=bad[0], reproduced=None))
    # witnesses
    for want in ("OkWithAudit", "Forbidden", "Ok"):
        hit = any(p_c03.ret_discr(ctx, r) == AR.index(want) and [e for e in r.events if e.callee.endswith("is_allowed")] for r in paths)
        rep.add(Query("witness: a rules-consulting path returns %s" % want, "witness-hit" if hit else "witness-missed", "", 0, "mirsym"))


def check_is_allowed_disabled(rep, ctx):
    path = ctx.method("ComputedAuthorizationItem", "is_allowed")
    eng = ctx.engine(loop_bound=2)
    paths = eng.explore(path)
    rep.functions_encoded.append(path)
    AM = ctx.enums["AuthorizationMode"]
    mode_idx = ctx.field("ComputedAuthorizationItem", "mode")
    n = 0
    for i, r in enumerate(paths):
        me = r.args[0]
        mode = eng_child_through_ref(me, mode_idx).discr()
        dis = mode == AM.index("Disabled")
        consulted = [e.callee for e in r.events if e.kind == "call" and re.search(r"(is_match|HashMap.*::(values|get|iter)|::next)$", e.callee)]
        retv = r.ret
        ret_true = isinstance(retv, Scalar) and z3.is_true(z3.simplify(retv.e))
        qn = "is_allowed path %d: mode Disabled => true without consulting any privilege/identity" % i
        bad = add_query(rep, qn, r.pc + [dis, z3.BoolVal(bool(consulted) or not ret_true or r.status != "return")], key="C11.disabled-not-consulted")
        if bad:
            rep.add(Query(qn, "violated", "status %s ret %r consulted %s" % (r.status, retv, consulted[:4]), bad[1], "mirsym+z3", key="C11.disabled-not-consulted", model=bad[0], reproduced=None))
        r2, _m, _dt, _zm = check_sat(r.pc + [dis])
        if r2 == "sat":
            n += 1
    rep.add(Query("witness: is_allowed has a Disabled path", "witness-hit" if n else "witness-missed", "%d" % n, 0, "mirsym+z3"))
    rep.bounds["is_allowed"] = "loop bound 2 per loop (paths beyond are cut; only the Disabled prefix is claimed here)"


def eng_child_through_ref(v, idx):
    # &self argument: the pointee's field
    v = origin(v)
    if isinstance(v, Sym):
        return v.child("*").child(("f", idx))
    raise Inconclusive("self argument is not symbolic")


def check_handler_recording(rep, hm):
    ctx = hm.ctx
    AR = ctx.enums["AuthorizeResult"]

    def failed_records(p, after):
        return [e for e in p.events[after:] if e.kind == "await" and e.callee.endswith("log_connection_summary") and len(e.rargs) >= 4
                and isinstance(e.rargs[3], Scalar) and z3.is_true(z3.simplify(e.rargs[3].e))]

    def sig(p, after):
        out = []
        for e in p.events[after:]:
            if e.kind not in ("call", "await"):
                continue
            if e.callee.endswith("log_connection_summary"):
                continue
            if re.search(r"(fmt|::log$|new_display)", e.callee):
                continue
            out.append((e.kind, e.callee))
        return out
    ok_sigs = {}
    for p in hm.paths:
        au = p.first(r"(^|::)authorize$", ("call",))
        if au is None or p.r.status != "return":
            continue
        ai = p.index(au)
        d = au.ret.discr()
        recs = failed_records(p, ai)
        for name, cond, want in (("Ok", d == AR.index("Ok"), 0), ("OkWithAudit", d == AR.index("OkWithAudit"), 1), ("Forbidden", d == AR.index("Forbidden"), 1)):
            qn = "handler path %d: authorize = %s => exactly %d failed-authorization record(s)" % (p.i, name, want)
            bad = add_query(rep, qn, p.pc + [cond, z3.BoolVal(len(recs) != want)], key="C11.record-once:" + name)
            if bad:
                violated(rep, qn, "C11.record-once:" + name, "%d records on the path" % len(recs), p, bad[1], bad[0])
        if p.implied(d == AR.index("Ok")):
            ok_sigs.setdefault(tuple(sig(p, ai)), []).append((p.i, p.response()))
    for p in hm.paths:
        au = p.first(r"(^|::)authorize$", ("call",))
        if au is None or p.r.status != "return":
            continue
        if p.implied(au.ret.discr() == AR.index("OkWithAudit")):
            s = tuple(sig(p, p.index(au)))
            twin = ok_sigs.get(s)
            qn = "handler path %d (audit-mode denial): continues exactly like an allowed request" % p.i
            if twin and any(resp == p.response() for _i, resp in twin):
                rep.add(Query(qn, "holds", "same event suffix and response as allowed path(s) %s" % [i for i, _r in twin], 0, "mirsym", key="C11.audit-as-allowed"))
            else:
                violated(rep, qn, "C11.audit-as-allowed", "no allowed path has the same suffix", p)
    rep.add(Query("witness: allowed-path suffix signatures", "witness-hit" if ok_sigs else "witness-missed", "%d" % len(ok_sigs), 0, "mirsym"))


def check_summary_body(rep, ctx):
    w = ctx.method("ProxyServer", "log_connection_summary")
    body = w + "::{closure#0}"
    e0 = ctx.engine(); e0._reset([])
    wb = ctx.idx.body(w)
    co = e0.run_body(wb, [Sym(("arg", i + 1)) for i in range(wb.nargs)], 0)
    cap = {n: i for i, n in enumerate(co.names)}
    eng = ctx.engine()
    paths = eng.explore(body)
    rep.functions_encoded.append(body)
    n_t = n_f = 0
    for i, r in enumerate(paths):
        flag = r.args[0].child(("f", cap["log_authorize_failed"])).scalar("bool")
        failed = [e for e in r.events if e.kind == "await" and e.callee.endswith("add_one_failed_connection_summary")]
        plain = [e for e in r.events if e.kind == "await" and e.callee.endswith("add_one_connection_summary")]
        for name, cond, bad_struct in (("flag set => exactly one failed-summary record and no plain record", flag, not (len(failed) == 1 and len(plain) == 0)),
                                       ("flag clear => no failed-summary record", z3.Not(flag), len(failed) != 0)):
            qn = "log_connection_summary path %d: %s" % (i, name)
            bad = add_query(rep, qn, r.pc + [cond, z3.BoolVal(bad_struct or r.status != "return")], key="C11.summary:" + name)
            if bad:
                rep.add(Query(qn, "violated", "failed=%d plain=%d status=%s" % (len(failed), len(plain), r.status), bad[1], "mirsym+z3", key="C11.summary:" + name, model=bad[0], reproduced=None))
        if failed:
            n_t += 1
            # the record carries the caller of THIS connection and its destination
            summ = failed[0].rargs[-1]
            hc = r.args[0].child(("f", cap["http_connection_context"]))
            if isinstance(summ, Agg) and summ.names:
                f = dict(zip(summ.names, summ.fields))
                want = ["userId", "processFullPath", "processCmdLine", "ip", "port", "userName"]
                missing = [w_ for w_ in want if w_ not in f]
                rep.add(Query("log_connection_summary path %d: failed record is a ProxySummary with user/process/cmdline/destination fields" % i,
                              "holds" if not missing else "violated", "missing %s" % missing, 0, "mirsym", key="C11.summary-fields", reproduced=None))
        if plain:
            n_f += 1
    rep.add(Query("witness: log_connection_summary has both kinds of path", "witness-hit" if n_t and n_f else "witness-missed", "%d/%d" % (n_t, n_f), 0, "mirsym"))


def check(rep, tier, seed):
    ctx = Ctx("agent")
    rep.extra["mir_dump"] = {"cache_hit": ctx.dump.cache_hit, "tree_hash": ctx.dump.hash, "seconds": round(ctx.dump.seconds, 1)}
    check_authorizer_modes(rep, ctx)
    check_is_allowed_disabled(rep, ctx)
    hm = HandlerModel(ctx, rep)
    check_handler_recording(rep, hm)
    check_summary_body(rep, ctx)
    rep.assumptions += ["is_allowed (beyond its Disabled prefix) is uninterpreted in the authorizers: any decision", "Future::poll returns Ready"]
    rep.outside_claim += ["the status-file writer", "the actor's per-key counter arithmetic (HashMap entry API)", "concurrent connections (each handler instance is independent; the counter is serialised by the actor)"]
    rep.trusted += ["mirsym", "z3"]


def replay(path):
    print(open(path).read())
    return 0
