"""Native replay of mirsym counterexamples: generated #[test]s appended to a scratch copy and run with the repo's
stable toolchain. A generated test ASSERTS THE PROPERTY on the counterexample's concrete inputs, so
  test fails  -> the violation reproduces on the real build
  test passes -> the counterexample needs an answer the real code cannot give (encoding too loose): exit 2, not 1."""
import os, re
from common import *
import kani


def run_rust_tests(pkg, injections, filter_name, timeout=1800, no_args=False, cargo_args=None):
    """injections: [(relative source file, rust code appended)]. -> {test name: 'ok'|'FAILED'}, raw output"""
    with kani.FixedScratch("replay") as fs:
        for rel, code in injections:
            if rel == "@patch":
                # a unified diff (test-only code spanning several files) applied to the scratch copy
                rc_p, out_p, err_p, _s = run(["patch", "-p1", "--no-backup-if-mismatch", "-i", code], cwd=fs.repo, timeout=120)
                if rc_p != 0:
                    return None, "test patch %s does not apply to the current tree: %s" % (code, (out_p + err_p)[-400:])
                continue
            p = os.path.join(fs.repo, rel)
            if not os.path.exists(p):
                if "/tests/" in rel and os.path.isdir(os.path.dirname(os.path.dirname(p))):
                    os.makedirs(os.path.dirname(p), exist_ok=True)       # a new integration-test file of the crate
                else:
                    return None, "source file %s not found" % rel
            with open(p, "a") as f:
                f.write("\n" + code + "\n")
        env = dict(ENV)
        env["CARGO_TARGET_DIR"] = fs.target
        # no_args: some tests of azure-proxy-agent initialise a clap CLI from the process arguments, which rejects any
        # libtest filter/option; such replays run the whole test binary and pick their results by name
        cmd = ["cargo", "test", "--offline", "-p", pkg] + (cargo_args or []) + ([] if no_args else [filter_name, "--", "--test-threads", "1"])
        rc, out, err, secs = run(cmd, cwd=fs.repo, env=env, timeout=timeout)
        res = {}
        for m in re.finditer(r"^test (\S+) \.\.\. (ok|FAILED)", out, re.M):
            res[m.group(1).split("::")[-1]] = m.group(2)
        full = out + err
        if os.environ.get("VERIF_DEBUG_OUT"):
            open(os.environ["VERIF_DEBUG_OUT"], "w").write(full)
        panics = "\n".join(m.group(0)[:1500] for m in re.finditer(r"^thread '[^']*'[^\n]*panicked at [^\n]*\n[^\n]*", full, re.M))
        return res, (panics + "\n" if panics else "") + full[-3000:]


AUTHORIZE_TEST = '''
#[cfg(test)]
mod verif_replay_authorize {
    use crate::key_keeper::key::AuthorizationItem;
    use crate::proxy::authorization_rules::ComputedAuthorizationItem;
    use crate::proxy::proxy_authorizer::AuthorizeResult;
    use crate::proxy::proxy_connection::ConnectionLogger;
    use std::{ffi::OsString, path::PathBuf, str::FromStr};

    fn claims(elevated: bool) -> crate::proxy::Claims {
        crate::proxy::Claims {
            userId: if elevated { 0 } else { 1000 },
            userName: "verif".to_string(),
            userGroups: vec!["verif".to_string()],
            processId: 4242,
            processName: OsString::from("verif"),
            processFullPath: PathBuf::from("/usr/bin/verif"),
            processCmdLine: "verif".to_string(),
            runAsElevated: elevated,
            clientIp: "127.0.0.1".to_string(),
            clientPort: 0,
        }
    }

    fn rules(present: bool, allowed: bool, mode: &str) -> Option<ComputedAuthorizationItem> {
        if !present {
            return None;
        }
        Some(ComputedAuthorizationItem::from_authorization_item(AuthorizationItem {
            defaultAccess: if allowed { "allow".to_string() } else { "deny".to_string() },
            mode: mode.to_string(),
            id: "verif".to_string(),
            rules: None,
        }))
    }

    fn name(r: &AuthorizeResult) -> &'static str {
        if *r == AuthorizeResult::Ok { "Ok" } else if *r == AuthorizeResult::OkWithAudit { "OkWithAudit" } else { "Forbidden" }
    }
%(tests)s
}
'''


def authorize_case(test_name, ip, port, elevated, rules_present, allowed, mode, expect_pred, why, url_path=None, user_id=None, process_id=None):
    url = "http://localhost/verif?x=1"
    if url_path and url_path.startswith("/") and all(32 < ord(c) < 127 and c not in '"\\ ' for c in url_path):
        url = "http://localhost" + url_path
    return '''
    #[test]
    fn %s() {
        let mut logger = ConnectionLogger::new(0, 0);
        let r = crate::proxy::proxy_authorizer::authorize(
            "%s".to_string(), %d, &mut logger, hyper::Uri::from_str("%s").unwrap(),
            { let mut c = claims(%s); %s c }, rules(%s, %s, "%s"));
        assert!(%s, "%s: got {}", name(&r));
    }
''' % (test_name, ip, port, url, "true" if elevated else "false",
       ("c.userId = %d;" % user_id if user_id is not None else "") + (" c.processId = %d;" % process_id if process_id is not None else ""),
       "true" if rules_present else "false", "true" if allowed else "false", mode, expect_pred, why)
