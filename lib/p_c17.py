"""C17 agent upgrade is reversible: backup, install and restore reinstate files exactly (engine M + z3 arrays). DESIGN.md 4/C17.

The setup tool's Linux code is executed symbolically on its MIR: the file-copy/-delete lists of linux::backup_files,
copy_files, setup_service, delete_files and of proxy_agent_shared's uninstall_service, and main's orchestration per command
(every path). Paths are folded to terms over the setup directory <EXE>. The file system is a z3 array path -> content; the
commands' effects are array updates taken from the extracted lists. The solver shows: after backup; install; restore the
four installed files hold their old contents (for arbitrary old and packaged contents); restore without a backup, purge and
uninstall touch only what the property names; every written/removed path of every command lies in the allowed locations."""
from mcommon import *
import callgraph
from strterm import unescape_bytes_const, parse_fmt_template

FS_OPS = re.compile(r"((^|fs::)(copy|remove_file|remove_dir_all|remove_dir|rename|write|create_dir_all|create_dir|hard_link|set_permissions)|File::create|try_create_folder|OpenOptions::open|symlink)$")
MUTATING = re.compile(r"(fs::copy|fs::remove_file|fs::remove_dir_all|fs::remove_dir|fs::rename|fs::write|File::create|OpenOptions::open|fs::hard_link|symlink)$")
SERVICE = re.compile(r"service::(stop_service|start_service|install_service|stop_and_delete_service|uninstall_service|install_or_update_service)$|(^|::)(stop_service|start_service|install_service|stop_and_delete_service)$")


class PathFolder:
    """fold a symbolic path value to a tuple of segments: ('<EXE>', 'ProxyAgent', 'Backup') or ('/etc/azure/proxy-agent.json',)"""

    def __init__(self, eng, events, args=None):
        self.eng, self.events, self.args = eng, events, args or {}

    def ev_of(self, sym):
        for e in self.events:
            if e.ret is sym:
                return e
        return None

    def text(self, v, depth=0):
        """string value of a &str / String / format!() operand"""
        if depth > 30:
            raise Inconclusive("path term too deep")
        if isinstance(v, Ref) and v.frame is None:
            v = v.val.v if isinstance(v.val, Cell) else v.val
        if isinstance(v, StrV):
            return v.e.as_string()
        if isinstance(v, ConstV):
            try:
                c = self.eng.eval_const(v.text)
            except Inconclusive:
                c = None
            if isinstance(c, StrV):
                return c.e.as_string()
            lit = source_const(self.eng.src_root, v.text.split("::")[-1])
            if lit is not None:
                return lit
            raise Inconclusive("constant %s is not a string" % v.text)
        if isinstance(v, Agg) and v.name == "fmt::Formatted":
            return self.text(v.fields[0], depth + 1)
        if isinstance(v, Agg) and v.name == "fmt::Arguments":
            tb = unescape_bytes_const(v.fields[0].text) if isinstance(v.fields[0], ConstV) else None
            if tb is None:
                raise Inconclusive("format template is not constant")
            arr = v.fields[1] if len(v.fields) > 1 else None
            fargs = [a.fields[0] if isinstance(a, Agg) and a.name == "fmt::Argument" else a for a in (arr.fields if isinstance(arr, Agg) else [])]
            out, k = "", 0
            for p in parse_fmt_template(tb):
                if p[0] == "lit":
                    out += p[1]
                else:
                    out += self.text(fargs[k], depth + 1)
                    k += 1
            return out
        o = origin(v)
        if isinstance(o, (StrV, ConstV)):
            return self.text(o, depth + 1)
        if isinstance(o, Sym) and isinstance(o.tag, tuple):
            for (a, name) in self.args.items():
                if same_origin(o, a) or (isinstance(a, Sym) and is_part_of(o, a) and all(k == "*" for k in _chain(o, a))):
                    return name
            if o.tag[0] == "part" and o.tag[2] == "*":
                return self.text(o.tag[1], depth + 1)
            if o.tag[0] == "ret":
                e = self.ev_of(o)
                if e is not None and e.rargs and re.search(r"(as_str|as_ref|deref|borrow|to_string|to_owned|clone|into|from|as_os_str|to_str|path_to_string|to_string_lossy|display)$", o.tag[1]):
                    return self.text(e.rargs[0], depth + 1)
        raise Inconclusive("cannot fold %r to text" % (v,))

    def path(self, v, depth=0):
        if depth > 30:
            raise Inconclusive("path term too deep")
        if isinstance(v, Ref) and v.frame is None:
            v = v.val.v if isinstance(v.val, Cell) else v.val
        o = origin(v)
        if isinstance(o, Sym) and isinstance(o.tag, tuple):
            for (a, name) in self.args.items():
                if same_origin(o, a) or (isinstance(a, Sym) and is_part_of(o, a) and all(k == "*" for k in _chain(o, a))):
                    return (name,)
            if o.tag[0] == "part" and o.tag[2] == "*":
                return self.path(o.tag[1], depth + 1)
            if o.tag[0] == "ret":
                e = self.ev_of(o)
                c = o.tag[1]
                if c.endswith("get_current_exe_dir"):
                    return ("<EXE>",)
                if e is not None and re.search(r"(Path|PathBuf)::join$", c) and len(e.rargs) == 2:
                    return self.path(e.rargs[0], depth + 1) + self.path(e.rargs[1], depth + 1)
                if e is not None and e.rargs and re.search(r"(PathBuf::from|Path::new|to_path_buf|as_path|as_ref|deref|borrow|clone|into|from|to_owned|PathBuf::as_path|Path::to_path_buf)$", c):
                    return self.path(e.rargs[0], depth + 1)
                if e is not None and e.rargs and re.search(r"Path::parent$|Option<.*>::unwrap$", c):
                    raise Inconclusive("parent() in a path term")
        t = self.text(v, depth + 1)
        return tuple(x for x in [t] if x != "")

    def norm(self, v):
        segs = self.path(v)
        s = "/".join(x.strip("/") if i else x.rstrip("/") for i, x in enumerate(segs))
        return s if s else "/"


_SRC_CONSTS = {}


def source_const(src_root, name):
    """string literal of `const NAME: &str = "...";` declared once in the source snapshot (constants of a dependency crate)"""
    key = (src_root, name)
    if key not in _SRC_CONSTS:
        hits = set()
        for root, _d, files in os.walk(src_root):
            for f in files:
                if f.endswith(".rs"):
                    try:
                        txt = open(os.path.join(root, f), errors="replace").read()
                    except OSError:
                        continue
                    for m in re.finditer(r"(?m)^\s*(?:#\[cfg\(([^\]]*)\)\]\s*)?(?:pub(?:\([^)]*\))?\s+)?const\s+%s\s*:\s*&(?:'static\s+)?str\s*=\s*\"((?:[^\"\\]|\\.)*)\"\s*;" % re.escape(name), txt):
                        if m.group(1) and "windows" in m.group(1) and "not" not in m.group(1):
                            continue
                        hits.add(m.group(2))
        _SRC_CONSTS[key] = next(iter(hits)) if len(hits) == 1 else None
    return _SRC_CONSTS[key]


def _chain(part, whole):
    chain, cur = [], origin(part)
    whole = origin(whole)
    for _ in range(40):
        if cur is whole:
            break
        if isinstance(cur, Sym) and isinstance(cur.tag, tuple) and cur.tag[0] == "part":
            chain.append(cur.tag[2])
            cur = origin(cur.tag[1])
        else:
            break
    return chain


def fs_ops(eng, r, args=None):
    """[(op, [folded path args])] of a path's trace, in order"""
    pf = PathFolder(eng, r.events, args)
    out = []
    for e in r.events:
        if e.kind == "call" and e.callee.split("::")[-1] in ("copy_file", "delete_file") and not FS_OPS.search(e.callee):
            nm, n = {"copy_file": ("copy", 2), "delete_file": ("remove_file", 1)}[e.callee.split("::")[-1]]
            out.append((nm, [pf.norm(a) for a in e.rargs[:n]], e))
            continue
        if e.kind == "call" and FS_OPS.search(e.callee):
            name = e.callee.split("::")[-1]
            if name in ("try_create_folder", "create_dir_all", "create_dir", "set_permissions"):
                continue          # creating a (parent) directory changes no file of the property
            if e.callee.endswith("OpenOptions::open"):
                # the options decide what the open does to an existing file: without truncate / create_new the old content stays and is
                # overwritten from the start (a shorter new content leaves the old tail)
                flags = {x.callee.split("::")[-1] for x in r.events[:r.events.index(e)] if x.kind == "call" and re.search(r"OpenOptions::(write|append|truncate|create|create_new|read)$", x.callee)
                         and not (len(x.rargs) > 1 and isinstance(x.rargs[1], Scalar) and z3.is_false(z3.simplify(x.rargs[1].e)))}
                if not ({"write", "append", "create", "create_new", "truncate"} & flags):
                    continue          # opened for reading
                name = "create" if ({"truncate", "create_new"} & flags) else ("append" if "append" in flags else "overwrite_in_place")
                out.append((name, [pf.norm(e.rargs[1])], e))
                continue
            n = 2 if name in ("copy", "rename", "hard_link") else 1
            out.append((name, [pf.norm(a) for a in e.rargs[:n]], e))
    return out


def unit_ops(rep, ctx, path, argnames, inline=None, label=None):
    """every path of a file-handling unit performs the same list of mutating file operations (failures are logged and skipped over)"""
    eng = ctx.engine(loop_bound=1, max_paths=4000, inline=inline or [])
    paths = eng.explore(path)
    rep.functions_encoded += [path] + sorted(eng.inlined)
    lists = []
    for r in paths:
        if r.status == "panic":
            continue
        args = {}
        for i, nm in enumerate(argnames):
            if i < len(r.args) and isinstance(origin(r.args[i]), Sym):
                args[origin(r.args[i])] = nm
        ops = [(n, a) for (n, a, _e) in fs_ops(eng, r, args) if MUTATING.search("fs::" + n) or n in ("copy", "remove_file", "remove_dir_all", "create", "append", "overwrite_in_place")]
        lists.append((ops, r))
        for n_, a_ in ops:
            if n_ in ("overwrite_in_place", "append"):
                rep.add(Query("%s: a file is replaced as a whole (copy / create+truncate), never written over an existing one" % (label or path), "violated",
                              "%s(%s): the destination is opened for writing without truncate - a shorter new content keeps the old tail" % (n_, a_), 0, "mirsym", key="C17.unit.whole-file:" + (label or path), reproduced=None))
    full = max(lists, key=lambda x: len(x[0]))[0] if lists else []
    # a path may stop early only through an error return (`?`): its list is a prefix of the full list
    ok = all(l == full[:len(l)] for l, _r in lists)
    rep.add(Query("%s: every path performs (a prefix of) one list of file operations: %s" % (label or path, full), "holds" if ok and lists else "violated",
                  "%d paths" % len(lists), 0, "mirsym", key="C17.unit:" + (label or path), reproduced=None))
    return full


def check(rep, tier, seed):
    ctx = Ctx("setup")
    rep.extra["mir_dump"] = {"cache_hit": ctx.dump.cache_hit, "tree_hash": ctx.dump.hash, "seconds": round(ctx.dump.seconds, 1)}
    cg = callgraph.CallGraph(ctx.idx)
    cg.set_src(ctx.src)
    KEEP = re.compile(r"(logger::|::fmt$|::clone$|::to_string$|::drop$|service::|linux::(backup_files|copy_files|setup_service|delete_files)$|args::|Cli|Parser|proxy_agent_version_target_folder$|misc_helpers::)")

    def auto(engine, callee, caller):
        if KEEP.search(callee):
            return None
        c = cg.resolve(callee, caller)
        if len(c) != 1:
            return None
        p = next(iter(c))
        if "{closure" in p.split("::")[-1] or KEEP.search(p):
            return None
        return p

    HELPERS = {"copy_file": ("copy", 2), "delete_file": ("remove_file", 1)}      # analysed as units of their own, events elsewhere

    def helper_auto(engine, callee, caller):
        if re.search(r"(logger::|::fmt$|::clone$|::to_string$|::drop$|service::|misc_helpers::)", callee):
            return None
        if callgraph.last_seg(callee) in HELPERS and not caller.endswith(callgraph.last_seg(callee)):
            return None
        c = cg.resolve(callee, caller)
        if len(c) != 1:
            return None
        p = next(iter(c))
        return None if "{closure" in p.split("::")[-1] or re.search(r"logger::", p) else p

    # ---- the file lists of the four units ----
    def unit(path, argnames, label):
        eng = ctx.engine(auto=False, loop_bound=1, max_paths=4000)
        eng.auto_inline = helper_auto
        paths = eng.explore(path)
        rep.functions_encoded += [path] + sorted(eng.inlined)
        lists = []
        for r in paths:
            if r.status == "panic":
                continue
            args = {}
            for i, nm in enumerate(argnames):
                if i < len(r.args) and nm and isinstance(origin(r.args[i]), Sym):
                    args[origin(r.args[i])] = nm
            try:
                raw = [(n, a, e) for (n, a, e) in fs_ops(eng, r, args) if n in ("copy", "remove_file", "remove_dir_all", "rename", "write", "create", "open", "remove_dir", "hard_link")]
            except Inconclusive as ex:
                rep.add(Query("%s: file operations foldable to path terms" % label, "inconclusive", str(ex)[:200], 0, "mirsym", key="C17.unit:" + label))
                return None
            lists.append(([(n, a) for (n, a, _e) in raw], r, [e for (_n, _a, e) in raw]))
        full = max((l for l, _r, _e in lists), key=len) if lists else []
        ok = bool(lists)
        why = ""
        for l, r, evs in lists:
            if l == full:
                continue
            # a shorter list is acceptable only as an error exit: the path condition forces one of the performed operations to have failed.
            # A path that skips operations because of the STATE it finds (e.g. "a backup already exists") breaks "from every initial state".
            all_ok = [e.ret.discr() == 0 for e in evs if isinstance(e.ret, Sym) and e.callee.split("::")[-1] not in ("copy_file", "delete_file")]
            rs, _m, _dt, _zm = check_sat(r.pc + all_ok)
            if l != full[:len(l)] or rs != "unsat":
                ok = False
                why = "a path performs only %s although no operation failed (decisions %s)" % (l, r.decisions[:8])
        rep.add(Query("%s: on every path the file operations are %s (or a prefix ending in a failed operation)" % (label, full), "holds" if ok else "violated", why or "%d paths" % len(lists), 0, "mirsym+z3",
                      key="C17.unit:" + label, reproduced=None))
        rep.extra.setdefault("units", {})[label] = [[n] + a for n, a in full]
        return full

    hcopy = unit(ctx.one("linux::copy_file"), ["<SRC>", "<DST>"], "copy_file(src, dst)")
    hdel = unit(ctx.one("linux::delete_file"), ["<FILE>"], "delete_file(file)")
    ok_h = hcopy == [("copy", ["<SRC>", "<DST>"])] and hdel == [("remove_file", ["<FILE>"])]
    rep.add(Query("copy_file(src, dst) is exactly fs::copy(src -> dst) and delete_file(f) exactly fs::remove_file(f) (their calls are read as these operations elsewhere)", "holds" if ok_h else "violated",
                  "copy_file %s delete_file %s" % (hcopy, hdel), 0, "mirsym", key="C17.unit:helpers", reproduced=None))
    backup = unit(ctx.one("linux::backup_files"), [], "backup_files")
    copyf = unit(ctx.one("linux::copy_files"), ["<SRC>"], "copy_files(src)")
    setupf = unit(ctx.one("linux::setup_service"), ["<NAME>", "<DIR>"], "setup_service(name, dir)")
    delf = unit(ctx.one("linux::delete_files"), [], "delete_files")
    sctx = Ctx("shared")
    scg = callgraph.CallGraph(sctx.idx)
    scg.set_src(sctx.src)
    un_path = [p for p in sctx.idx.files if p.endswith("linux_service::uninstall_service")]
    uninst = None
    if len(un_path) == 1:
        eng_u = sctx.engine(auto=False, loop_bound=1, max_paths=4000)

        def sauto(engine, callee, caller):
            if re.search(r"(logger|execute_command|::fmt$|::clone$|::to_string$|::drop$|path_to_string)", callee):
                return None
            c = scg.resolve(callee, caller)
            if len(c) != 1:
                return None
            p = next(iter(c))
            return None if "{closure" in p.split("::")[-1] or re.search(r"logger|execute_command", p) else p
        eng_u.auto_inline = sauto
        lists = []
        for r in eng_u.explore(un_path[0]):
            if r.status == "panic":
                continue
            a0 = origin(r.args[0])
            lists.append([(n, a) for (n, a, _e) in fs_ops(eng_u, r, {a0: "<NAME>"} if isinstance(a0, Sym) else {}) if n in ("copy", "remove_file", "remove_dir_all", "rename")])
        uninst = max(lists, key=len) if lists else None
        rep.functions_encoded.append("proxy_agent_shared::" + un_path[0])
        rep.extra.setdefault("units", {})["shared uninstall_service(name)"] = [[n] + a for n, a in (uninst or [])]
    # the service calls the command sequences are made of: stop_service / start_service run `systemctl <verb> <name>` on EVERY path
    # (a stop that is skipped on some condition lets install / restore replace the files of a running agent)
    for fn, verb in (("stop_service", "stop"), ("start_service", "start")):
        sp = [p_ for p_ in sctx.idx.files if p_.endswith("linux_service::" + fn)]
        if len(sp) != 1:
            rep.add(Query("shared %s located" % fn, "inconclusive", "%d candidates" % len(sp), 0, "mirsym", key="C17.svc-unit:" + fn))
            continue
        es = sctx.engine(loop_bound=1, max_paths=2000)
        es.auto_inline = sctx.new_function_auto()
        ok, n = True, 0
        why = ""
        for r in es.explore(sp[0]):
            if r.status == "panic":
                continue
            n += 1
            ex = [e for e in r.events if e.kind == "call" and e.callee.endswith("execute_command")]
            good = False
            body_text = open(sctx.idx.files[sp[0]], errors="replace").read()
            for e in ex:
                prog = origin(e.rargs[0])
                # (the argument vector is built through raw-pointer writes the executor does not follow: the verb is read from the body's constants)
                if isinstance(prog, StrV) and prog.e.as_string() == "systemctl" and ('"%s"' % verb) in body_text:
                    good = True
            if not good:
                ok = False
                why = "a path of %s returns %s without running `systemctl %s`" % (fn, getattr(r.ret, "variant", "?"), verb)
        rep.functions_encoded.append("proxy_agent_shared::" + sp[0])
        rep.add(Query("shared %s(name): `systemctl %s <name>` is run on every path" % (fn, verb), "holds" if ok and n else "violated", why, 0, "mirsym", key="C17.svc-unit:" + fn, reproduced=None))
    if None in (backup, copyf, setupf, delf):
        return

    def subst(ops, m):
        out = []
        for n, args in ops:
            na = []
            for a in args:
                for k, v in m.items():
                    a = a.replace(k, v)
                na.append(a)
            out.append((n, na))
        return out

    # ---- main: what each command does, in order ----
    root_setup = [p for p in ctx.idx.files if p == "setup_service"]
    inl = []
    if root_setup:
        inl = [(r"^setup_service$", "setup_service"), (r"^\b$", "setup_service::{closure#0}")]
    for nm in ("stop_service", "uninstall_service"):
        if nm in ctx.idx.files:
            inl += [(r"^%s$" % nm, nm), (r"^\b$", nm + "::{closure#0}")]
    eng = ctx.engine(auto=False, loop_bound=1, max_paths=4000, inline=inl)
    eng.auto_inline = auto
    mpaths = eng.explore("main::{closure#0}")
    rep.functions_encoded += ["main::{closure#0}"] + sorted(eng.inlined)
    cmds = {}
    for i, r in enumerate(mpaths):
        if r.status != "return":
            continue        # process::exit after a failed service step / panics: the sequence up to there is a prefix of a complete one
        pf = PathFolder(eng, r.events)
        seq = []
        try:
            for e in r.events:
                if e.kind == "call" and re.search(r"linux::backup_files$|(^|::)backup_files$", e.callee):
                    seq += [("fs", op) for op in backup]
                elif e.kind == "call" and re.search(r"(^|::)copy_files$", e.callee):
                    seq += [("fs", op) for op in subst(copyf, {"<SRC>": pf.norm(e.rargs[0])})]
                elif e.kind == "call" and re.search(r"linux::setup_service$", e.callee):
                    seq += [("fs", op) for op in subst(setupf, {"<NAME>": pf.text(e.rargs[0]), "<DIR>": pf.norm(e.rargs[1])})]
                elif e.kind == "call" and re.search(r"(^|::)delete_files$", e.callee):
                    seq += [("fs", op) for op in delf]
                elif e.kind == "call" and FS_OPS.search(e.callee) and e.callee.split("::")[-1] in ("copy", "remove_file", "remove_dir_all", "rename", "write"):
                    n = e.callee.split("::")[-1]
                    seq.append(("fs", (n, [pf.norm(a) for a in e.rargs[:2 if n in ("copy", "rename") else 1]])))
                elif e.kind == "await" and re.search(r"(^|::)(stop_service|start_service|stop_and_delete_service)$", e.callee):
                    seq.append(("svc", e.callee.split("::")[-1], pf.text(e.rargs[0])))
                    if e.callee.endswith("stop_and_delete_service") and uninst is not None:
                        seq += [("fs", op) for op in subst(uninst, {"<NAME>": pf.text(e.rargs[0])})]
                elif e.kind == "call" and re.search(r"(^|::)install_service$", e.callee):
                    seq.append(("svc", "install_service", pf.text(e.rargs[0])))
                elif e.kind == "call" and e.callee.endswith("Path::exists"):
                    seq.append(("exists", pf.norm(e.rargs[0]), e))
        except Inconclusive as ex:
            rep.add(Query("main path %d: operations foldable" % i, "inconclusive", str(ex)[:200], 0, "mirsym", key="C17.main"))
            continue
        key = command_of(seq, r)
        cmds.setdefault(key, []).append((seq, r))
    rep.extra["commands"] = {k: [[(s[1] if s[0] != "exists" else "exists " + s[1]) if s[0] != "fs" else [s[1][0]] + s[1][1] for s in seq] for seq, _r in v][:2] for k, v in cmds.items()}
    check_commands(rep, cmds)
    check_extension_guard(rep)
    rep.bounds["setup"] = "all %d complete paths of main, all paths of the file-handling units; one command per run" % len(mpaths)
    rep.assumptions += ["file operations succeed (a failed copy is logged and skipped by the code: then the property does not hold and the tool says so in its log)",
                        "the setup directory <EXE> is not one of the system locations", "fs::copy copies the content exactly; systemctl (stop/start/enable) does not modify the four files"]
    rep.outside_claim += ["Windows code paths", "the extension's monitor loop beyond the restore/purge guard (when it calls backup and install)", "partial failure, concurrent modification, permissions",
                          "running the backed-up executable to read its version (restore panics before any file is touched if that fails)"]
    rep.trusted += ["mirsym", "z3 (arrays)", "path folding (lib/p_c17.py PathFolder)"]
    import batteries
    batteries.confirm(rep, "C17")


def check_extension_guard(rep):
    """proxy_agent_extension service_main::restore_purge_proxyagent: `restore` is run only when the reported status is Error, `purge`
    only when it is Success, nothing while Transitioning (a purge before the outcome is known removes the backup a later restore needs)."""
    try:
        ectx = Ctx("ext")
        p = ectx.one("service_main::restore_purge_proxyagent")
    except Inconclusive as ex:
        rep.add(Query("extension restore/purge guard located", "inconclusive", str(ex)[:200], 0, "mirsym", key="C17.ext"))
        return
    eng = ectx.engine()
    paths = eng.explore(p)
    rep.functions_encoded.append("ProxyAgentExt::" + p)
    fidx = ectx.field("StatusObj", "status")
    want = {"restore": "error", "purge": "success"}
    seen = set()
    for i, r in enumerate(paths):
        if r.status != "return":
            continue
        st = origin(r.args[0]).child("*").child(("f", fidx))
        cmds = []
        for e in r.events:
            if e.kind == "call" and e.callee.endswith("Command::arg") and isinstance(origin(e.rargs[1]), StrV):
                cmds.append(origin(e.rargs[1]).e.as_string())
        for c in cmds:
            seen.add(c)
            if c not in want:
                continue
            eqs = [e for e in r.events if e.kind == "streq" and any(same_origin(x, st) or is_part_of(origin(x), st) for x in e.rargs)
                   and any(isinstance(origin(x), StrV) and origin(x).e.as_string() == want[c] for x in e.rargs)]
            ok = bool(eqs) and check_sat(r.pc + [z3.Not(eqs[0].extra)])[0] == "unsat"
            rep.add(Query("extension path %d: the setup tool is run with `%s` only when the reported status is \"%s\"" % (i, c, want[c]), "holds" if ok else "violated",
                          "" if ok else "status comparisons on the path: %s" % [repr(e.rargs[1])[:30] for e in r.events if e.kind == "streq"], 0, "mirsym+z3", key="C17.ext:" + c, reproduced=None))
        ran = bool(cmds)
        retv = r.ret
        if isinstance(retv, Scalar) and (z3.is_true(z3.simplify(retv.e)) or z3.is_false(z3.simplify(retv.e))):
            ok = z3.is_true(z3.simplify(retv.e)) == ran
            rep.add(Query("extension path %d: reports `handled` exactly when restore or purge was run" % i, "holds" if ok else "violated", "", 0, "mirsym", key="C17.ext:handled", reproduced=None))
    rep.add(Query("witness: the extension guard has restore and purge paths", "witness-hit" if {"restore", "purge"} <= seen else "witness-missed", "%s" % sorted(seen), 0, "mirsym"))


def command_of(seq, r):
    names = [s[1] if s[0] == "svc" else (s[1][0] if s[0] == "fs" else "exists") for s in seq]
    if "stop_and_delete_service" in names:
        return "uninstall-package" if any(s[0] == "fs" and s[1][0] == "remove_file" and "sbin" in s[1][1][0] for s in seq) else "uninstall-service"
    if "exists" in names:
        if "stop_service" not in names:
            return "restore-no-backup"
        return "restore-delete" if any(s[0] == "fs" and s[1][0] == "remove_dir_all" for s in seq) else "restore"
    if "stop_service" in names:
        return "install"
    if any(s[0] == "fs" and s[1][0] == "remove_dir_all" for s in seq):
        return "purge"
    if any(s[0] == "fs" and s[1][0] == "copy" for s in seq):
        return "backup"
    return "other"


def check_commands(rep, cmds):
    need = ["backup", "install", "restore", "restore-delete", "restore-no-backup", "purge", "uninstall-package", "uninstall-service"]
    for n in need:
        rep.add(Query("witness: main has a complete path for `%s`" % n, "witness-hit" if n in cmds else "witness-missed", "", 0, "mirsym"))
    if not all(n in cmds for n in need):
        return
    # the four installed files are the copy targets of install
    inst = cmds["install"][0][0]
    SYSTEM = [s[1][1][1] for s in inst if s[0] == "fs" and s[1][0] == "copy"]
    BACKUP_ROOT = None
    for s in cmds["purge"][0][0]:
        if s[0] == "fs" and s[1][0] == "remove_dir_all":
            BACKUP_ROOT = s[1][1][0]
    rep.extra["system_files"] = SYSTEM
    rep.extra["backup_root"] = BACKUP_ROOT
    expected = {"/usr/sbin/azure-proxy-agent", "/etc/azure/proxy-agent.json", "/usr/lib/azure-proxy-agent/ebpf_cgroup.o", "/usr/lib/systemd/system/azure-proxy-agent.service"}
    rep.add(Query("install writes exactly the four installed files %s" % sorted(SYSTEM), "holds" if set(SYSTEM) == expected and len(SYSTEM) == 4 else "violated", "", 0, "mirsym", key="C17.install.targets", reproduced=None))
    pk = [s[1][1][0] for s in inst if s[0] == "fs" and s[1][0] == "copy"]
    ok_src = all(p.startswith("<EXE>/") and not p.startswith(BACKUP_ROOT or "\0") for p in pk) and len(set(pk)) == 4
    rep.add(Query("install copies the packaged files (under the setup directory, not the backup): %s" % pk, "holds" if ok_src else "violated", "", 0, "mirsym", key="C17.install.sources", reproduced=None))

    # ---- z3 model ----
    allpaths = set()
    for k, v in cmds.items():
        for seq, _r in v:
            for s in seq:
                if s[0] == "fs":
                    allpaths |= set(s[1][1])
    allpaths = sorted(allpaths)
    P, consts = z3.EnumSort("Path", ["p%d" % i for i in range(len(allpaths))] + ["other"])
    pc = {p: consts[i] for i, p in enumerate(allpaths)}
    C = z3.DeclareSort("Content")
    ABSENT = z3.Const("absent", C)

    def apply(A, seq):
        for s in seq:
            if s[0] != "fs":
                continue
            n, a = s[1]
            if n == "copy":
                A = z3.Store(A, pc[a[1]], z3.Select(A, pc[a[0]]))
            elif n == "remove_file":
                A = z3.Store(A, pc[a[0]], ABSENT)
            elif n == "remove_dir_all":
                for p in allpaths:
                    if p == a[0] or p.startswith(a[0].rstrip("/") + "/"):
                        A = z3.Store(A, pc[p], ABSENT)
            elif n == "rename":
                A = z3.Store(z3.Store(A, pc[a[1]], z3.Select(A, pc[a[0]])), pc[a[0]], ABSENT)
        return A
    A0 = z3.Array("fs0", P, C)
    for (bn, b) in [(k, v) for k, v in cmds.items() if k == "backup"]:
        for rk in ("restore", "restore-delete"):
            for (bseq, _r1) in b[:1]:
                for (iseq, _r2) in cmds["install"][:4]:
                    for (rseq, _r3) in cmds[rk][:4]:
                        A1 = apply(A0, bseq)
                        # the packaged version is arbitrary: the package files may hold anything (they are part of fs0); files of the old version are present
                        A2 = apply(A1, iseq)
                        A3 = apply(A2, rseq)
                        for p in SYSTEM:
                            bad = add_query(rep, "backup; install; %s: %s holds its content from before the upgrade (arbitrary old and packaged contents)" % (rk, p),
                                            [z3.Select(A3, pc[p]) != z3.Select(A0, pc[p])], key="C17.reversible:" + p)
                            if bad:
                                rep.add(Query("backup; install; %s does not reinstate %s" % (rk, p), "violated", "backup %s | restore %s" % ([x[1] for x in bseq if x[0] == "fs"], [x[1] for x in rseq if x[0] == "fs"]),
                                              bad[1], "mirsym+z3", key="C17.reversible:" + p, model=bad[0], reproduced=None))
    # order: stop before the first file operation, start after the last
    for k in ("install", "restore", "restore-delete"):
        for seq, _r in cmds[k]:
            idx_stop = [i for i, s in enumerate(seq) if s[0] == "svc" and s[1] == "stop_service"]
            idx_start = [i for i, s in enumerate(seq) if s[0] == "svc" and s[1] == "start_service"]
            idx_sys = [i for i, s in enumerate(seq) if s[0] == "fs" and s[1][0] == "copy" and s[1][1][1] in SYSTEM]
            ok = bool(idx_stop) and bool(idx_start) and bool(idx_sys) and idx_stop[0] < min(idx_sys) and max(idx_sys) < idx_start[-1]
            rep.add(Query("%s: the service is stopped before the first installed file is replaced and started after the last" % k, "holds" if ok else "violated",
                          "%s" % [s[1] if s[0] == "svc" else s[1][0] for s in seq if s[0] in ("svc", "fs")], 0, "mirsym", key="C17.order:" + k, reproduced=None))
    # restore without a backup changes nothing
    for seq, _r in cmds["restore-no-backup"]:
        ok = not [s for s in seq if s[0] in ("fs", "svc")]
        ex = [s for s in seq if s[0] == "exists"]
        # the guard must ask for something the backup step writes (the backed-up executable restore is going to need), not merely for a
        # folder that an interrupted or empty backup leaves behind as well
        backup_targets = {s_[1][1][1] for bseq, _b in cmds.get("backup", []) for s_ in bseq if s_[0] == "fs" and s_[1][0] == "copy" and len(s_[1][1]) > 1}
        okx = bool(ex) and ex[0][1].startswith(BACKUP_ROOT or "\0") and (not backup_targets or ex[0][1] in backup_targets)
        rep.add(Query("restore without a backup (no executable in the backup folder): no file or service operation", "holds" if ok and okx else "violated", "%s" % [s[:2] for s in seq], 0, "mirsym",
                      key="C17.restore-no-backup", reproduced=None))
    # purge removes only the backup
    for seq, _r in cmds["purge"]:
        ops = [s[1] for s in seq if s[0] == "fs"]
        ok = ops == [("remove_dir_all", [BACKUP_ROOT])] and BACKUP_ROOT.startswith("<EXE>/") and not [s for s in seq if s[0] == "svc"]
        rep.add(Query("purge removes the backup folder and nothing else", "holds" if ok else "violated", "%s" % ops, 0, "mirsym", key="C17.purge", reproduced=None))
    # uninstall
    for seq, _r in cmds["uninstall-package"]:
        A1 = apply(A0, seq)
        for p in SYSTEM:
            bad = add_query(rep, "uninstall package: %s is removed" % p, [z3.Select(A1, pc[p]) != ABSENT], key="C17.uninstall:" + p)
            if bad:
                rep.add(Query("uninstall package leaves %s" % p, "violated", "%s" % [s[1] for s in seq if s[0] == "fs"], bad[1], "mirsym+z3", key="C17.uninstall:" + p, model=bad[0], reproduced=None))
    # every command writes / removes only inside the allowed locations
    for k, v in cmds.items():
        for seq, _r in v:
            bad = []
            for s in seq:
                if s[0] != "fs":
                    continue
                n, a = s[1]
                tgt = a[1] if n in ("copy", "rename") else a[0]
                if not (tgt in SYSTEM or (BACKUP_ROOT and (tgt == BACKUP_ROOT or tgt.startswith(BACKUP_ROOT + "/")))):
                    bad.append((n, tgt))
                if n == "rename" and not (a[0] in SYSTEM or a[0].startswith(BACKUP_ROOT + "/")):
                    bad.append((n, a[0]))
            rep.add(Query("%s: every file written or removed is one of the four installed files or lies in the backup folder" % k, "holds" if not bad else "violated", "%s" % bad, 0, "mirsym",
                          key="C17.locations:" + k, reproduced=None))
    # backup does not touch the installed files, install/uninstall do not touch the backup
    for seq, _r in cmds["backup"]:
        tg = [s[1][1][-1] for s in seq if s[0] == "fs"]
        rep.add(Query("backup writes only into the backup folder", "holds" if tg and all(t.startswith(BACKUP_ROOT + "/") for t in tg) else "violated", "%s" % tg, 0, "mirsym", key="C17.backup.targets", reproduced=None))
    for k in ("install", "uninstall-package", "uninstall-service"):
        for seq, _r in cmds[k]:
            tg = [(s[1][1][1] if s[1][0] in ("copy", "rename") else s[1][1][0]) for s in seq if s[0] == "fs"]
            rep.add(Query("%s does not write into or remove the backup folder" % k, "holds" if not [t for t in tg if t.startswith(BACKUP_ROOT)] else "violated", "%s" % tg, 0, "mirsym", key="C17.backup-kept:" + k, reproduced=None))


def replay(path):
    print(open(path).read())
    return 0
